"""Mutation survey: where in src/emsarray does a small change go unreported by all twenty checks?

    /venv/bin/python tools/mutation_survey.py [--sample N] [--seed S] [--only path-fragment] [--out file.json]

A test of the checkers, not a check: it decides no property and is not registered in MANIFEST.json.  Every function of
src/emsarray is walked for mutation sites (comparison operators, boolean operators, negations, small integer constants,
True/False, keyword arguments, positional argument order, `+`/`-`, subscript indexes 0/1/-1, statements that can be deleted);
a deterministic sample of the sites is taken, each mutant is written to a throw-away copy of src (never to /repo), all twenty
checks are run on it statically, and the copy is deleted.  The survey says which mutants no check reports ("survivors"), per
function.  A survivor is not a miss by itself - most mutants do not touch any of the twenty properties, and some are
equivalent - but a function the properties rely on with many survivors is where to look next.
"""
from __future__ import annotations

import ast
import contextlib
import io
import json
import os
import random
import shutil
import sys
import tempfile
from concurrent.futures import ProcessPoolExecutor
from pathlib import Path

VERIF = Path(__file__).resolve().parent.parent
sys.path.insert(0, str(VERIF))
ALL = [f"C{n:02d}" for n in range(1, 21)]
SRC = Path(os.environ.get('EMSVERIF_REPO', '/repo')) / 'src' / 'emsarray'
SKIP_FILES = ('tutorial.py', '_version.py', 'conftest.py', 'compat/', 'cli/commands/plot.py')
CMP = {ast.Lt: ast.LtE, ast.LtE: ast.Lt, ast.Gt: ast.GtE, ast.GtE: ast.Gt, ast.Eq: ast.NotEq, ast.NotEq: ast.Eq,
       ast.Is: ast.IsNot, ast.IsNot: ast.Is, ast.In: ast.NotIn, ast.NotIn: ast.In}


_SWAPS = [('min', 'max'), ('nanmin', 'nanmax'), ('any', 'all'), ('latitude', 'longitude'), ('left', 'back'), ('first', 'last'), ('start', 'end'), ('lower', 'upper'),
          ('face', 'node'), ('keys', 'values'), ('argmin', 'argmax'), ('floor', 'ceil')]


def _swapped(name: str):
    for a, b in _SWAPS:
        for x, y in ((a, b), (b, a)):
            if name == x:
                return y
            for sep in ('_',):
                if name.startswith(x + sep):
                    return y + name[len(x):]
                if name.endswith(sep + x):
                    return name[:-len(x)] + y
    if name.endswith('_x'):
        return name[:-2] + '_y'
    if name.endswith('_y'):
        return name[:-2] + '_x'
    return None


def _segment(src_lines, node):
    return (node.lineno, node.col_offset, node.end_lineno, node.end_col_offset)


def sites_of(path: Path):
    """(function qualname, operator, description, span, replacement text) for every mutation site of the file."""
    text = path.read_text()
    tree = ast.parse(text)
    out = []

    def emit(fn, op, node, new_node_or_text, what):
        new = new_node_or_text if isinstance(new_node_or_text, str) else ast.unparse(new_node_or_text)
        out.append({'function': fn, 'operator': op, 'what': what, 'span': _segment(None, node), 'new': new, 'line': node.lineno})

    def walk_fn(fn_node, qual):
        docstring = ast.get_docstring(fn_node, clean=False)
        # strings of messages (raise, warn, log, f-strings) are not data
        skip_strings = set()
        for x in ast.walk(fn_node):
            if isinstance(x, (ast.Raise, ast.JoinedStr)) or (isinstance(x, ast.Call) and isinstance(x.func, ast.Attribute) and x.func.attr in ('warn', 'debug', 'info', 'warning', 'error', 'exception', 'add_argument', 'field')):
                skip_strings |= {id(y) for y in ast.walk(x)}
        for st_i, st in enumerate(fn_node.body):
            if st_i == 0 and docstring is not None:
                continue
            for n in ast.walk(st):
                if isinstance(n, (ast.FunctionDef, ast.AsyncFunctionDef)) and n is not st:
                    continue
                if isinstance(n, ast.Compare) and len(n.ops) == 1 and type(n.ops[0]) in CMP:
                    m = ast.Compare(left=n.left, ops=[CMP[type(n.ops[0])]()], comparators=n.comparators)
                    emit(qual, 'compare', n, m, f"{ast.unparse(n)}  ->  {ast.unparse(m)}")
                elif isinstance(n, ast.BoolOp):
                    m = ast.BoolOp(op=ast.Or() if isinstance(n.op, ast.And) else ast.And(), values=n.values)
                    emit(qual, 'boolop', n, m, f"{ast.unparse(n)}  ->  {ast.unparse(m)}")
                elif isinstance(n, ast.UnaryOp) and isinstance(n.op, ast.Not):
                    emit(qual, 'not', n, n.operand, f"{ast.unparse(n)}  ->  {ast.unparse(n.operand)}")
                elif isinstance(n, ast.UnaryOp) and isinstance(n.op, ast.Invert):
                    emit(qual, 'invert', n, n.operand, f"{ast.unparse(n)}  ->  {ast.unparse(n.operand)}")
                elif isinstance(n, ast.Constant) and isinstance(n.value, bool):
                    emit(qual, 'bool', n, repr(not n.value), f"{n.value}  ->  {not n.value}")
                elif isinstance(n, ast.Constant) and isinstance(n.value, int) and not isinstance(n.value, bool) and -3 <= n.value <= 8:
                    new = n.value + 1 if n.value != 1 else 0
                    emit(qual, 'int', n, repr(new), f"{n.value}  ->  {new}")
                elif isinstance(n, ast.BinOp) and isinstance(n.op, (ast.Add, ast.Sub)) and not isinstance(n.left, ast.Constant):
                    m = ast.BinOp(left=n.left, op=ast.Sub() if isinstance(n.op, ast.Add) else ast.Add(), right=n.right)
                    emit(qual, 'arith', n, m, f"{ast.unparse(n)}  ->  {ast.unparse(m)}")
                elif isinstance(n, ast.Constant) and isinstance(n.value, str) and 2 <= len(n.value) <= 24 and n.value.replace('_', '').replace('.', '').isalnum() \
                        and id(n) not in skip_strings:
                    emit(qual, 'str', n, repr(n.value[:-1]), f"{n.value!r}  ->  {n.value[:-1]!r}")
                elif isinstance(n, ast.Attribute) and _swapped(n.attr) is not None and isinstance(n.ctx, ast.Load):
                    m = ast.Attribute(value=n.value, attr=_swapped(n.attr), ctx=ast.Load())
                    emit(qual, 'swap-name', n, m, f"{ast.unparse(n)[:80]}  ->  .{_swapped(n.attr)}")
                elif isinstance(n, ast.Name) and _swapped(n.id) is not None and isinstance(n.ctx, ast.Load):
                    emit(qual, 'swap-name', n, _swapped(n.id), f"{n.id}  ->  {_swapped(n.id)}")
                elif isinstance(n, ast.Call):
                    for k_i, k in enumerate(n.keywords):
                        if k.arg is None:
                            continue
                        m = ast.Call(func=n.func, args=n.args, keywords=[kk for kk in n.keywords if kk is not k])
                        emit(qual, 'drop-keyword', n, m, f"{ast.unparse(n)[:90]}  without {k.arg}=")
                    if len(n.args) >= 2 and not any(isinstance(a, ast.Starred) for a in n.args[:2]) \
                            and ast.dump(n.args[0]) != ast.dump(n.args[1]):
                        m = ast.Call(func=n.func, args=[n.args[1], n.args[0]] + n.args[2:], keywords=n.keywords)
                        emit(qual, 'swap-args', n, m, f"{ast.unparse(n)[:90]}  first two arguments exchanged")
            # statement deletion, at any depth
        for holder in ast.walk(fn_node):
            if isinstance(holder, (ast.FunctionDef, ast.AsyncFunctionDef)) and holder is not fn_node:
                continue
            for fld in ('body', 'orelse', 'finalbody'):
                seq = getattr(holder, fld, None)
                if not isinstance(seq, list):
                    continue
                for st in seq:
                    deletable = isinstance(st, (ast.Continue, ast.Break, ast.Raise, ast.AugAssign)) \
                        or (isinstance(st, ast.Expr) and isinstance(st.value, ast.Call)) \
                        or (isinstance(st, ast.Assign) and isinstance(st.targets[0], (ast.Subscript, ast.Attribute)))
                    if deletable and not (isinstance(st, ast.Expr) and isinstance(st.value, ast.Constant)):
                        if _inside_nested(fn_node, st):
                            continue
                        emit(qual, 'delete', st, 'pass', f"{ast.unparse(st)[:100]}  ->  pass")

    def _inside_nested(fn_node, st):
        for n in ast.walk(fn_node):
            if isinstance(n, (ast.FunctionDef, ast.AsyncFunctionDef)) and n is not fn_node:
                if any(x is st for x in ast.walk(n)):
                    return True
        return False

    def visit(body, prefix):
        for n in body:
            if isinstance(n, (ast.FunctionDef, ast.AsyncFunctionDef)):
                walk_fn(n, f"{prefix}{n.name}")
                visit(n.body, f"{prefix}{n.name}.")
            elif isinstance(n, ast.ClassDef):
                visit(n.body, f"{prefix}{n.name}.")
            elif isinstance(n, (ast.If, ast.Try)):
                visit(n.body, prefix)
    visit(tree.body, '')
    return text, out


def apply(text: str, site) -> str:
    l0, c0, l1, c1 = site['span']
    lines = text.splitlines(keepends=True)
    # col offsets are utf8 byte offsets
    start = sum(len(x.encode()) for x in lines[:l0 - 1]) + c0
    end = sum(len(x.encode()) for x in lines[:l1 - 1]) + c1
    raw = text.encode()
    new = site['new']
    if '\n' not in new and l0 != l1 and site['operator'] != 'delete':
        new = '(' + new + ')'
    return (raw[:start] + ('(' + new + ')' if site['operator'] not in ('delete', 'bool', 'int', 'str') else new).encode() + raw[end:]).decode()


def one(job) -> dict:
    rel, site, base = job
    from emsverif.__main__ import run_property
    from emsverif.model import Program
    scratch = Path(tempfile.mkdtemp(prefix='mutsurvey_', dir='/tmp'))
    try:
        shutil.copytree(base, scratch / 'src', ignore=shutil.ignore_patterns('__pycache__', '*.pyc', '*.egg-info'))
        path = scratch / 'src' / 'emsarray' / rel
        text = path.read_text()
        try:
            mutated = apply(text, site)
            compile(mutated, rel, 'exec')
        except (SyntaxError, ValueError) as exc:
            return {'file': rel, **site, 'status': 'does-not-compile', 'error': str(exc)[:100]}
        path.write_text(mutated)
        fired, errors = [], []
        try:
            prog = Program(str(scratch))
        except Exception:
            prog = None
        for pid in ALL:
            buf = io.StringIO()
            with contextlib.redirect_stdout(buf), contextlib.redirect_stderr(io.StringIO()):
                try:
                    rc = run_property(pid, str(scratch), 'quick', 0, write_evidence=False, replay_dir=scratch / 'replay', program=prog)
                except Exception:
                    rc = 2
            if rc == 1:
                rules = sorted({l.split()[1] for l in buf.getvalue().splitlines() if l.strip().startswith('VIOLATED ')})
                fired.append(f"{pid}:{'/'.join(rules)}")
            elif rc == 2:
                errors.append(pid)
        return {'file': rel, **site, 'status': 'reported' if fired else ('analysis-error' if errors else 'survived'), 'fired': fired, 'errors': errors}
    finally:
        shutil.rmtree(scratch, ignore_errors=True)


def main():
    argv = sys.argv[1:]

    def opt(name, default):
        return argv[argv.index(name) + 1] if name in argv else default
    sample = int(opt('--sample', '600'))
    seed = int(opt('--seed', '1'))
    only = opt('--only', '')
    out_file = opt('--out', str(VERIF / 'seeded' / 'MUTATION_SURVEY.json'))
    jobs = []
    texts = {}
    for path in sorted(SRC.rglob('*.py')):
        rel = str(path.relative_to(SRC))
        if any(s in rel for s in SKIP_FILES) or (only and only not in rel):
            continue
        text, sites = sites_of(path)
        texts[rel] = text
        for s in sites:
            jobs.append((rel, s))
    ops = opt('--ops', '')
    if ops:
        jobs = [j for j in jobs if j[1]['operator'] in ops.split(',')]
    rnd = random.Random(seed)
    rnd.shuffle(jobs)
    total_sites = len(jobs)
    jobs = jobs[:sample]
    base = Path(tempfile.mkdtemp(prefix='mutsurvey_base_', dir='/tmp'))
    shutil.copytree(SRC.parent, base / 'src', ignore=shutil.ignore_patterns('__pycache__', '*.pyc', '*.egg-info'))
    try:
        with ProcessPoolExecutor(max_workers=int(opt('--jobs', '16'))) as ex:
            results = list(ex.map(one, [(rel, s, str(base / 'src')) for rel, s in jobs]))
    finally:
        shutil.rmtree(base, ignore_errors=True)
    by_fn: dict[str, list] = {}
    for r in results:
        by_fn.setdefault(f"{r['file']}:{r['function']}", []).append(r)
    counts = {k: sum(1 for r in results if r['status'] == k) for k in ('reported', 'survived', 'analysis-error', 'does-not-compile')}
    print(f"mutation survey: {total_sites} sites, {len(results)} sampled (seed {seed}): {counts}")
    for fn, rs in sorted(by_fn.items()):
        surv = [r for r in rs if r['status'] == 'survived']
        print(f"{fn:70s} {len(rs) - len(surv)}/{len(rs)} reported")
        for r in surv:
            print(f"      survived  L{r['line']} {r['operator']}: {r['what'][:150]}")
        for r in rs:
            if r['status'] == 'analysis-error':
                print(f"      analysis-error ({','.join(r['errors'][:4])})  L{r['line']} {r['operator']}: {r['what'][:120]}")
    Path(out_file).write_text(json.dumps({'sites': total_sites, 'sampled': len(results), 'seed': seed, 'counts': counts, 'results': results}, indent=1) + '\n')


if __name__ == '__main__':
    main()
