"""Print the markdown tables of DESIGN.md 9.6 from seeded/*/meta.json and seeded/SWEEP.json."""
import json
import re
import sys
from pathlib import Path

VERIF = Path(__file__).resolve().parent.parent
sweep = {r['id']: r for r in json.load(open(VERIF / 'seeded' / 'SWEEP.json'))}


def first_sentence(text: str, limit: int = 230) -> str:
    text = re.sub(r'^#.*$', '', text, flags=re.M).strip()
    text = re.sub(r'^(Change|Refactoring|Seed|Patch)\s+[A-D]\s*[-:–—]+\s*', '', text)
    text = text.replace('\n', ' ').replace('|', '/')
    text = re.sub(r'\s+', ' ', text)
    text = re.sub(r'^(Change|Refactoring|Seed|Patch)\s+[A-D]\s*', '', text)
    cut = re.split(r'(?<=[.])\s+(?=[A-Z`])', text)
    out = cut[0]
    k = 1
    while (len(out) < 90 or (out.startswith('(') or out.endswith(').') or out.endswith('not a revert).'))) and k < len(cut) and len(out) < limit:
        out += ' ' + cut[k]
        k += 1
    return (out[:limit - 1] + '…') if len(out) > limit else out


def rows(kind: str):
    base = VERIF / 'seeded' / ('benign' if kind.startswith('benign') else '')
    for d in sorted(base.iterdir()):
        if not (d / 'meta.json').exists():
            continue
        if kind == 'hard' and '-r2' not in d.name:
            continue
        if kind == 'hard3' and '-r3' not in d.name:
            continue
        if kind == 'hard4' and '-r4' not in d.name:
            continue
        if kind == 'benign4' and '-b4' not in d.name:
            continue
        if kind == 'hard5' and '-r5' not in d.name:
            continue
        if kind == 'benign5' and '-b5' not in d.name:
            continue
        if kind == 'hard6' and '-r6' not in d.name:
            continue
        if kind == 'benign6' and '-b6' not in d.name:
            continue
        if kind == 'hard7' and '-r7' not in d.name:
            continue
        if kind == 'benign7' and '-b7' not in d.name:
            continue
        if kind == 'hard8' and '-r8' not in d.name:
            continue
        if kind == 'benign8' and '-b8' not in d.name:
            continue
        if kind in ('benign', 'benign3') and ('-b4' in d.name or '-b5' in d.name or '-b6' in d.name or '-b7' in d.name or '-b8' in d.name):
            continue
        m = json.load(open(d / 'meta.json'))
        if kind == 'benign3' and m['property'] not in ('C01', 'C11', 'C12', 'C15', 'C18', 'C19'):
            continue
        if kind == 'benign' and m['property'] in ('C01', 'C11', 'C12', 'C15', 'C18', 'C19'):
            continue
        r = sweep.get(d.name, {})
        fired = r.get('fired', {})
        own = fired.get(m['property'], {})
        if kind.startswith('benign'):
            verdict = 'silent' if not fired else 'ALARM ' + ', '.join(f"{k}:{'/'.join(v['rules'])}" for k, v in fired.items())
        else:
            others = sorted(k for k, v in fired.items() if k != m['property'] and v['rc'] == 1)
            verdict = '/'.join(own.get('rules', [])) or 'MISSED'
            if others:
                verdict += ' (also ' + ', '.join(others) + ')'
        yield d.name, first_sentence(m.get('needs_to_manifest', ''), 420 if kind[-1] in '45678' else 230), verdict


kind = sys.argv[1] if len(sys.argv) > 1 else 'hard'
print('| seed | change | ' + ('verdict of all 20 checks' if kind.startswith('benign') else "caught by (own property's rules)") + ' |')
print('|---|---|---|')
for name, what, verdict in rows(kind):
    print(f"| {name} | {what} | {verdict} |")
