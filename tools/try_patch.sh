#!/bin/bash
# usage: tools/try_patch.sh <seed dir name (under seeded/ or seeded/benign/)> <PROP...>  -- apply to scratch copy and run checks verbosely
id=$1; shift
d=/verif/seeded/$id; [ -d $d ] || d=/verif/seeded/benign/$id
s=$(mktemp -d /tmp/try_XXXX); cp -r /repo/src $s/src; (cd $s && git apply $d/patch.diff 2>/dev/null || patch -p1 --fuzz=0 -s -i $d/patch.diff)
for p in "$@"; do (cd /verif && /venv/bin/python -m emsverif check $p --repo $s --no-evidence 2>&1 | grep -E "VIOLATED|ANALYSIS|^\[" ); done
rm -rf $s
