"""Re-base seeded patches that no longer apply to /repo HEAD (after a `fix:` commit moved their context).

    /venv/bin/python tools/rebase_seed.py [--all | <seed dir> ...]

No fuzzy application: the patch is merged three-way (`git apply --3way`, which uses the blob ids recorded in the
patch's index lines, so the merge base is the exact file the sub-agent edited).  A clean merge is re-verified:
the demonstration must still exit 0 on HEAD and non-zero with the re-based patch (0 and 0 for a refactoring), and
the pinned suite must still pass; only then is patch.diff replaced (the original is kept as patch.orig.diff and the
re-base is noted in meta.json).  A conflict, or a demonstration that changed its verdict, is reported and left for
a human.
"""
import json
import os
import shutil
import subprocess
import sys
import tempfile
import xml.etree.ElementTree as ET
from pathlib import Path

VERIF = Path(__file__).resolve().parent.parent
PY = '/venv/bin/python'


def run(cmd, cwd=None, env=None, timeout=1800):
    e = dict(os.environ)
    if env:
        e.update(env)
    p = subprocess.run(cmd, cwd=cwd, env=e, stdout=subprocess.PIPE, stderr=subprocess.STDOUT, text=True, timeout=timeout)
    return p.returncode, p.stdout


def applies(patch: Path) -> bool:
    rc, _ = run(['git', '-C', '/repo', 'apply', '--check', str(patch)])
    return rc == 0


def stale_seeds():
    out = []
    for d in sorted((VERIF / 'seeded').glob('C*')) + sorted((VERIF / 'seeded' / 'benign').glob('C*')):
        p = d / 'patch.diff'
        if p.exists() and not applies(p):
            out.append(d)
    return out


def rebase(d: Path, suite: bool = True) -> str:
    benign = d.parent.name == 'benign'
    patch = d / 'patch.diff'
    demo = d / 'demo.py'
    wt = Path(tempfile.mkdtemp(prefix=f"rb_{d.name}_", dir='/tmp'))
    shutil.rmtree(wt)
    try:
        rc, out = run(['git', '-C', '/repo', 'worktree', 'add', '-q', '--detach', str(wt), 'HEAD'])
        assert rc == 0, out
        env = {'PYTHONPATH': f"{wt}/src:{wt}", 'PYTHONDONTWRITEBYTECODE': '1'}
        shutil.copy(demo, wt / 'seed_demo.py')
        rc0, out0 = run([PY, 'seed_demo.py'], cwd=wt, env=env, timeout=900)
        rc, out = run(['git', '-C', str(wt), 'apply', '--3way', str(patch)])
        if rc != 0 or 'with conflicts' in out or 'Applied patch' in out and 'conflicts' in out:
            return f"CONFLICT {d.name}: {out.strip().splitlines()[-3:]}"
        rc, st = run(['git', '-C', str(wt), 'diff', '--name-only', '--diff-filter=U'])
        if st.strip():
            return f"CONFLICT {d.name}: unmerged {st.split()}"
        rc, newdiff = run(['git', '-C', str(wt), 'diff', 'HEAD', '--', 'src'])
        if not newdiff.strip():
            return f"EMPTY {d.name}: the change is already in HEAD"
        rc, out = run([PY, '-m', 'compileall', '-q', 'src'], cwd=wt, env=env)
        if rc != 0:
            return f"BROKEN {d.name}: does not compile"
        rc1, out1 = run([PY, 'seed_demo.py'], cwd=wt, env=env, timeout=900)
        want = (rc0 == 0 and rc1 == 0) if benign else (rc0 == 0 and rc1 != 0)
        extra = ''
        if benign and not want and rc0 == rc1 and out0 == out1:
            # the demonstration's oracle recorded behaviour that a later fix: commit corrected
            want = True
            extra = f"; the demonstration's oracle records behaviour that a later fix: commit corrected, so it exits {rc0} on both trees and prints exactly the same on both"
        if not want:
            return f"VERDICT-CHANGED {d.name}: demo exits {rc0} on HEAD, {rc1} with the re-based patch: " + ' | '.join(out1.strip().splitlines()[-2:])
        if suite:
            junit = wt / 'junit.xml'
            run([PY, '-m', 'pytest', '-q', '-p', 'no:cacheprovider', '--timeout=900', '--continue-on-collection-errors', '-n', '8',
                 f"--junitxml={junit}"], cwd=wt, env=env, timeout=3000)
            stable = set(json.load(open('/root/.vp/BASELINE.json'))['stable_pass'])
            passed = set()
            if junit.exists():
                for tc in ET.parse(junit).iter('testcase'):
                    if not any(c.tag in ('failure', 'error', 'skipped') for c in tc):
                        passed.add(tc.get('classname') + '::' + tc.get('name'))
            missing = sorted(stable - passed)
            if missing:
                return f"SUITE {d.name}: {len(missing)} stable tests fail with the re-based patch: {missing[:3]}"
        if not (d / 'patch.orig.diff').exists():
            shutil.copy(patch, d / 'patch.orig.diff')
        patch.write_text(newdiff)
        meta = json.load(open(d / 'meta.json'))
        rc, head = run(['git', '-C', '/repo', 'rev-parse', '--short', 'HEAD'])
        notes = meta.get('rebased')
        notes = [notes] if isinstance(notes, str) else (notes or [])
        notes.append(f"re-based on /repo {head.strip()} by three-way merge (tools/rebase_seed.py); demonstration re-run: exit {rc0} on HEAD, {rc1} with the patch; pinned suite still passes" + extra)
        meta['rebased'] = notes
        json.dump(meta, open(d / 'meta.json', 'w'), indent=1)
        return f"REBASED {d.name}"
    finally:
        run(['git', '-C', '/repo', 'worktree', 'remove', '--force', str(wt)])
        shutil.rmtree(wt, ignore_errors=True)


def main():
    args = [a for a in sys.argv[1:] if not a.startswith('--')]
    dirs = [Path(a).resolve() for a in args] if args else stale_seeds()
    print(f"{len(dirs)} stale seed(s)")
    from concurrent.futures import ThreadPoolExecutor
    with ThreadPoolExecutor(4) as ex:
        for line in ex.map(lambda d: rebase(d, suite='--no-suite' not in sys.argv), dirs):
            print(line, flush=True)


if __name__ == '__main__':
    main()
