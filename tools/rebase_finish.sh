#!/bin/bash
# tools/rebase_finish.sh <seed dir>: after resolving conflicts in /tmp/rbm_<name>, verify the demo and store the re-based patch
d=$(realpath $1); n=$(basename $d); wt=/tmp/rbm_$n
if grep -q "<<<<<<<\|>>>>>>>" -r $wt/src; then echo "unresolved markers"; exit 1; fi
cd $wt && git reset -q && git diff HEAD -- src > /tmp/rbm_$n.diff
git stash -q; cp $d/demo.py seed_demo.py
PYTHONPATH=$wt/src:$wt PYTHONDONTWRITEBYTECODE=1 /venv/bin/python seed_demo.py >/tmp/rbm_$n.out0 2>&1; rc0=$?
git stash pop -q
PYTHONPATH=$wt/src:$wt PYTHONDONTWRITEBYTECODE=1 /venv/bin/python seed_demo.py >/tmp/rbm_$n.out1 2>&1; rc1=$?
echo "demo on HEAD: $rc0; with patch: $rc1"
extra=""
case $d in */benign/*) ok=$([ $rc0 = 0 ] && [ $rc1 = 0 ] && echo 1)
   # a demonstration whose oracle recorded behaviour that a later fix corrected fails on HEAD too: the refactoring is then
   # confirmed by the demonstration printing exactly the same on HEAD and on the patched tree
   # (line numbers in warning locations move with the patch: they are not compared)
   sed -i -E 's/\.py:[0-9]+:/.py:N:/' /tmp/rbm_$n.out0 /tmp/rbm_$n.out1
   if [ "$ok" != 1 ] && [ $rc0 = $rc1 ] && cmp -s /tmp/rbm_$n.out0 /tmp/rbm_$n.out1; then ok=1; extra="; the demonstration's oracle records behaviour that a later fix: commit corrected, so it exits $rc0 on both trees and prints exactly the same on both"; fi;;
 *) ok=$([ $rc0 = 0 ] && [ $rc1 != 0 ] && echo 1);; esac
rm -f /tmp/rbm_$n.out0 /tmp/rbm_$n.out1
if [ "$ok" != 1 ]; then echo "VERDICT CHANGED - not stored"; exit 1; fi
out=/tmp/rbm_$n.xml
/venv/bin/python -m pytest -q -p no:cacheprovider --timeout=900 --continue-on-collection-errors -n 8 --junitxml=$out >/dev/null 2>&1
miss=$(/venv/bin/python - $out <<'P'
import json,sys,xml.etree.ElementTree as ET
base=set(json.load(open('/root/.vp/BASELINE.json'))['stable_pass']); passed=set()
for tc in ET.parse(sys.argv[1]).getroot().iter('testcase'):
    if not any(c.tag in ('failure','error','skipped') for c in tc): passed.add(f"{tc.get('classname')}::{tc.get('name')}")
print(len(base-passed))
P
)
rm -f $out
if [ "$miss" != 0 ]; then echo "SUITE: $miss stable tests fail"; exit 1; fi
[ -f $d/patch.orig.diff ] || cp $d/patch.diff $d/patch.orig.diff
cp /tmp/rbm_$n.diff $d/patch.diff; rm /tmp/rbm_$n.diff
head=$(git -C /repo rev-parse --short HEAD)
/venv/bin/python - $d/meta.json "$head" $rc0 $rc1 "$extra" <<'P'
import json,sys
m=json.load(open(sys.argv[1])); n=m.get('rebased'); n=[n] if isinstance(n,str) else (n or [])
n.append(f"re-based on /repo {sys.argv[2]} by three-way merge with the conflicts resolved by hand (the fix and the seeded change touched the same lines); demonstration re-run: exit {sys.argv[3]} on HEAD, {sys.argv[4]} with the patch; pinned suite still passes" + sys.argv[5])
m['rebased']=n; json.dump(m,open(sys.argv[1],'w'),indent=1)
P
cd /verif; git -C /repo worktree remove --force $wt; echo "STORED $n"
