"""Re-base a kept seed patch after a fix: commit in /repo changed lines it uses as context or removes.

    tools/rewrite_patch_context.py <patch> <old line> <file with the new lines>  > new.patch

Every context (' ') or removed ('-') line of the patch equal to <old line> is replaced by the new lines with
the same prefix; added ('+') lines equal to the old line are replaced too (the seed kept that line).  Hunk
headers are left to `git apply --recount`.
"""
import sys

patch, old, newfile = sys.argv[1], sys.argv[2], sys.argv[3]
new = open(newfile).read().rstrip('\n').split('\n')
out = []
for line in open(patch).read().split('\n'):
    if line[:1] in (' ', '-', '+') and not line.startswith(('---', '+++')) and line[1:] == old:
        out.extend(line[0] + n for n in new)
    else:
        out.append(line)
sys.stdout.write('\n'.join(out))
