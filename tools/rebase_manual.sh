#!/bin/bash
# tools/rebase_manual.sh <seed dir>: open a worktree with the three-way merge of the seed applied (conflict markers left in place)
d=$(realpath $1); n=$(basename $d); wt=/tmp/rbm_$n
git -C /repo worktree remove --force $wt 2>/dev/null; rm -rf $wt
git -C /repo worktree add -q --detach $wt HEAD
git -C $wt apply --3way $d/patch.diff 2>&1 | tail -3
grep -n "<<<<<<<\|>>>>>>>" -r $wt/src | head -20
