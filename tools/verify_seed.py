"""Confirm a seeded change delivered by a sub-agent and file it under /verif/seeded/<id>/.

    /venv/bin/python tools/verify_seed.py C04 a /tmp/seed_C04/seed_out/patch_A.diff /tmp/seed_C04/seed_out/demo_A.py [notes.md]

Steps (all in a throw-away git worktree of /repo under /tmp, removed afterwards):
  1. demo on the unmodified tree            -> must exit 0
  2. apply the patch, byte-compile src       -> must succeed
  3. demo on the modified tree               -> must exit 1
  4. the pinned test-suite on the modified tree -> every stable-pass test of BASELINE.json must still pass
  5. run every emsverif check (quick tier) against the modified tree and record which fire
Only when 1-4 hold is the change kept: patch.diff, the demonstration and meta.json are written.
"""
import json
import os
import shutil
import subprocess
import sys
import tempfile
import xml.etree.ElementTree as ET
from pathlib import Path

VERIF = Path(__file__).resolve().parent.parent
PY = '/venv/bin/python'


def run(cmd, cwd=None, env=None, timeout=1800):
    e = dict(os.environ)
    if env:
        e.update(env)
    p = subprocess.run(cmd, cwd=cwd, env=e, stdout=subprocess.PIPE, stderr=subprocess.STDOUT, text=True, timeout=timeout)
    return p.returncode, p.stdout


def main():
    benign = '--benign' in sys.argv
    argv = [a for a in sys.argv[1:] if a != '--benign']
    prop, label, patch, demo = argv[0:4]
    notes = argv[4] if len(argv) > 4 else None
    sid = f"{prop}-{label}"
    wt = Path(tempfile.mkdtemp(prefix=f"vs_{sid}_", dir='/tmp'))
    shutil.rmtree(wt)
    meta = {'id': sid, 'property': prop, 'patch': str(patch), 'steps': {}}
    ok = True
    try:
        rc, out = run(['git', '-C', '/repo', 'worktree', 'add', '-q', '--detach', str(wt), 'HEAD'])
        assert rc == 0, out
        env = {'PYTHONPATH': f"{wt}/src:{wt}", 'PYTHONDONTWRITEBYTECODE': '1'}
        demo_dst = wt / 'seed_demo.py'
        shutil.copy(demo, demo_dst)
        rc0, out0 = run([PY, str(demo_dst)], cwd=wt, env=env, timeout=900)
        meta['steps']['demo_unmodified_rc'] = rc0
        rc, out = run(['git', '-C', str(wt), 'apply', str(patch)])
        meta['steps']['apply_rc'] = rc
        if rc != 0:
            print(out)
            ok = False
        rc, out = run([PY, '-m', 'compileall', '-q', 'src'], cwd=wt, env=env)
        meta['steps']['compile_rc'] = rc
        rc1, out1 = run([PY, str(demo_dst)], cwd=wt, env=env, timeout=900)
        meta['steps']['demo_modified_rc'] = rc1
        meta['steps']['demo_modified_tail'] = out1.strip().splitlines()[-6:]
        junit = wt / 'junit.xml'
        rc, out = run([PY, '-m', 'pytest', '-ra', '-q', '-p', 'no:cacheprovider', '--timeout=900', '--continue-on-collection-errors', '-n', '4',
                       f"--junitxml={junit}"], cwd=wt, env=env, timeout=3000)
        base = json.load(open('/root/.vp/BASELINE.json'))
        stable = set(base['stable_pass'])
        passed = set()
        if junit.exists():
            for tc in ET.parse(junit).iter('testcase'):
                if not any(c.tag in ('failure', 'error', 'skipped') for c in tc):
                    passed.add(tc.get('classname') + '::' + tc.get('name'))
        missing = sorted(stable - passed)
        meta['steps']['suite_passed'] = len(passed)
        meta['steps']['stable_tests_now_failing'] = missing[:10]
        # static checks against the modified tree
        fired = {}
        for n in range(1, 21):
            pid = f"C{n:02d}"
            if not (VERIF / 'emsverif' / 'rules' / f"{pid.lower()}.py").exists():
                continue
            rc, out = run([PY, '-m', 'emsverif', 'check', pid, '--repo', str(wt), '--no-evidence'], cwd=VERIF,
                          env={'EMSVERIF_REPLAY_DIR': str(wt / 'replay')})
            viol = [l.strip() for l in out.splitlines() if l.strip().startswith('VIOLATED ')]
            if rc != 0:
                fired[pid] = {'rc': rc, 'violated': [v.split(' at ')[0].replace('VIOLATED ', '') + ' @ ' + v.split(' at ')[1].split(':')[0] + ':' + v.split(':')[1].split(' ')[0] if ' at ' in v else v for v in viol][:6],
                              'error': [l for l in out.splitlines() if 'ANALYSIS-ERROR' in l][:2]}
        meta['detected_by'] = fired
        meta['detected'] = any(v['rc'] == 1 for v in fired.values())
        if benign:
            good = (rc0 == 0 and rc1 == 0 and meta['steps']['apply_rc'] == 0 and meta['steps']['compile_rc'] == 0 and not missing)
            meta['false_alarm'] = bool(fired)
        else:
            good = (rc0 == 0 and rc1 != 0 and meta['steps']['apply_rc'] == 0 and meta['steps']['compile_rc'] == 0 and not missing)
        meta['confirmed'] = bool(good)
        if good:
            dst = (VERIF / 'seeded' / 'benign' / sid) if benign else (VERIF / 'seeded' / sid)
            dst.mkdir(parents=True, exist_ok=True)
            shutil.copy(patch, dst / 'patch.diff')
            shutil.copy(demo, dst / 'demo.py')
            note_text = open(notes).read() if notes and os.path.exists(notes) else ''
            json.dump({
                'id': sid, 'property': prop,
                'kind': 'behaviour-preserving refactoring: every check must stay silent' if benign else 'seeded defect: the property check must fire',
                'needs_to_manifest': note_text,
                'what_was_run': {
                    'demo_on_unmodified_tree_exit': rc0, 'demo_on_modified_tree_exit': rc1,
                    'suite': f"{len(passed)} passed; all {len(stable)} stable-pass tests of BASELINE.json still pass",
                    'how': "scratch git worktree of /repo HEAD; git apply patch.diff; PYTHONPATH=<wt>/src:<wt> /venv/bin/python demo.py; baseline pytest command with --junitxml",
                },
                'detected_by_checks_at_filing_time': fired,
            }, open(dst / 'meta.json', 'w'), indent=1)
        print(json.dumps(meta, indent=1))
    finally:
        run(['git', '-C', '/repo', 'worktree', 'remove', '--force', str(wt)])
        shutil.rmtree(wt, ignore_errors=True)


if __name__ == '__main__':
    main()
