"""Round-2 prompts: (mode 'hard') three subtler seeded changes; (mode 'benign') behaviour-preserving refactors."""
import json, sys
pid, wt, mode = sys.argv[1], sys.argv[2], sys.argv[3]
rec = None
for line in open('/verif/properties.jsonl'):
    if line.strip():
        r = json.loads(line)
        if r['id'] == pid:
            rec = r
common = f"""You have your own scratch git worktree of the Python library csiro-coasts/emsarray (an xarray extension for ocean-model datasets) at: {wt}
Work ONLY inside that directory. Never read or modify /repo or /verif (they are off limits), never commit, never push, and NEVER use `git stash` (the stash is shared between worktrees; use `git diff > file`, `git checkout -- src`, `git apply file` instead).

How to run things in your worktree (the library is importable from the worktree only if you set PYTHONPATH):
  cd {wt}
  PYTHONPATH={wt}/src /venv/bin/python -m pytest -q -p no:cacheprovider --timeout=900 --continue-on-collection-errors -rA 2>&1 | grep PASSED | sort > /tmp/r2_{pid}_{mode}_before.txt     (full suite, ~25 s)
  PYTHONPATH={wt}/src:{wt} /venv/bin/python your_script.py
There is no network. On the unmodified tree 371 tests pass and about 26 fail or error for environment reasons (network, a missing system library for cfunits, warnings raised by newer dependencies when writing netCDF under pytest's warnings-as-errors). Every test that passes before your change must still pass after it (compare the sorted PASSED lists with `comm -23`).
In plain scripts (outside pytest) warnings are not errors, so writing netCDF files works; use tempfile directories; if you clip datasets set `dask.config.set(scheduler='synchronous')` (the HDF5 build is not thread safe). The module emsarray.transect imports `cfunits`, which cannot be imported here: put a stub `sys.modules['cfunits'] = types.SimpleNamespace(Units=...)` in your script before importing emsarray.transect. Test helpers in {wt}/tests (tests/conventions/test_ugrid.py make_dataset, tests/conventions/test_cfgrid1d.py make_dataset, tests/conventions/test_cfgrid2d.py make_dataset, tests/conventions/test_shoc_standard.py make_dataset) build small synthetic datasets and can be imported by your scripts.

THE PROPERTY (a behavioural property of the library that must hold for every input / configuration / history):

  id: {rec['id']}
  title: {rec['title']}
  statement: {rec['statement']}
  quantifier: {json.dumps(rec['quantifier'])}
  why the tests cannot settle it: {rec['why_tests_cant']}
  code it is anchored in: {json.dumps(rec['anchors'])}
"""
if mode == 'hunt':
    print(f"""You are helping to evaluate a Python library by looking for GENUINE DEFECTS: inputs, configurations or call histories for which a stated property of the library is false on the code as it is.

{common}
YOUR TASK: find as many DIFFERENT genuine violations of the property above as you can in the UNMODIFIED source under {wt}/src/emsarray (do not change the library). Think about the corners of the quantifier: unusual but legitimate inputs (one-based or transposed storage, masked / missing entries, coordinates held as plain variables instead of xarray coordinates, 1xN and Nx1 shapes, single layers or single time steps, integer variables, descending axes, several grid kinds, names that differ from dimension names, attributes spelt in another case, datasets produced by the library itself and fed back in), unusual argument forms (generators, names versus arrays, keyword versus positional), repeated calls on the same object, and disagreement between two functions that should agree. Read the code the property is anchored in and the helpers it calls, form hypotheses, and TEST them by running small scripts. A defect counts when the library returns a wrong result silently, or refuses / crashes on an input the property covers. Behaviour of third party libraries in this environment (projection accuracy of cartopy, pyshp field names, missing udunits) does not count.
For every defect you confirm write a demonstration: a standalone Python program that builds its input in memory or in a temporary directory, checks the property, prints what went wrong and exits with status 1 when the property is violated and 0 when it holds. Locate test data and helper modules relative to the current working directory (always the worktree root), never relative to __file__.

DELIVERABLES - create the directory {wt}/seed_out and put there, numbered 1, 2, 3 ...:
  {wt}/seed_out/defect_N.py     run as: cd {wt} && PYTHONPATH={wt}/src:{wt} /venv/bin/python seed_out/defect_N.py   (exits 1 on the unmodified tree)
  {wt}/seed_out/defect_N.md     5-10 lines: the input class, what happens, which line(s) of the library cause it, and the smallest change you think would repair it
Quality matters more than quantity: only deliver defects you have reproduced, and say clearly when something is merely suspicious. Finish with a short report listing the defects, most serious first. If you find none after a thorough search, say so and describe what you tried.""")
elif mode == 'hard6':
    print(f"""You are helping to evaluate a verification tool by writing realistic, hard-to-notice defects ("seeded changes").

{common}
YOUR TASK: produce THREE different, independent changes to the library source under {wt}/src/emsarray (call them A, B and C), each of which
  1. BREAKS the property above (for some input / configuration / history the statement becomes false),
  2. still imports/compiles and keeps every currently passing test of the existing suite passing (unchanged test files),
  3. needs something SPECIFIC to manifest; ordinary use of the sample datasets must not expose it.
Each change must read like a REAL upstream commit with a purpose other than breaking things, each of a DIFFERENT kind out of:
  * a performance optimisation: a cache or memo that can go stale or is keyed on too little, a python loop vectorised with numpy / shapely / pandas in a way that differs for masked, empty, duplicate, unsorted or non-contiguous input, a copy avoided (a view or the caller's object is now mutated), a shortcut for "the common case" whose test is slightly too wide;
  * an API modernisation or dependency adaptation: one library call swapped for a "newer equivalent" that differs in a corner (ordering of numpy.unique vs pandas.unique vs dict.fromkeys, `.sizes` vs `.dims` vs `.shape`, `drop_vars(errors='ignore')`, `numpy.asarray` vs `numpy.array`, `astype(copy=False)`, shapely 2 vectorised functions and their handling of None / empty geometries, `Path.suffix` vs `suffixes`, `str.removesuffix`, `zip(strict=...)`, `itertools.pairwise`, `math.prod`, `functools.cache` on a method);
  * a small feature: a new optional argument, option or attribute whose default or threading through the call chain is subtly wrong for one caller, one convention subclass or one grid kind;
  * a robustness tweak: an `except` widened, a default / fallback supplied where the code used to refuse, a warning instead of an error, tolerance added to a comparison, input silently coerced;
  * a clean-up: duplicated code merged into a helper that is right for one of its two callers only, a "redundant" conversion / sort / copy / check removed, a class attribute or module constant shared where it was per-instance, a condition simplified with boolean algebra that is wrong for one combination.
Think of the bug patterns that really occur in xarray / numpy / shapely code: dtype promotion and integer overflow, dimension order and transposed storage, views against copies, NaN and masked entries, empty selections, `in` and `==` on arrays, float equality, dictionary and set ordering, mutable defaults and class-level state, a cached_property that goes stale, an exception that is swallowed, an off-by-one in a slice, 0-based against 1-based indexes. 3-25 changed lines each, with the comment, naming and (if you like) docstring change such a commit would carry. They must be made in different functions, and at least one must be made outside the functions the property names as its anchors (in a helper, property, base class, sibling convention or the command line wiring that the anchored code relies on).
For each change write a demonstration: a standalone Python program that exits with status 0 when the property holds and 1 (printing what went wrong) when violated; it must exit 0 on the UNMODIFIED tree and 1 with the change applied. Locate any data files relative to the current working directory (the worktree root), never via __file__. Do not compare against text that contains the name of your script (argparse error messages do).

DELIVERABLES - create the directory {wt}/seed_out and put there, for X in (A, B, C):
  {wt}/seed_out/patch_X.diff   output of `git diff -- src` with ONLY change X applied (each patch applies alone to the unmodified tree with `git apply`)
  {wt}/seed_out/demo_X.py       run as: cd {wt} && PYTHONPATH={wt}/src:{wt} /venv/bin/python seed_out/demo_X.py
  {wt}/seed_out/notes_X.md      3-8 lines: what the change is (and which kind of commit it imitates), why it breaks the property, what it needs to manifest, what you ran (suite before/after, demo exit codes)
Leave the worktree with NO change applied at the end (git checkout -- src), keep seed_out/. Finish with a short report. If you cannot find three good changes deliver as many as you can.""")
elif mode == 'benign6':
    print(f"""You are helping to evaluate a verification tool by writing BEHAVIOUR-PRESERVING refactorings: edits a maintainer might make that change how the code is written but not what it does. The tool under evaluation must stay silent on them.

{common}
YOUR TASK: produce FOUR different, independent, behaviour-preserving refactorings (call them A, B, C and D) of the code this property depends on (the functions it is anchored in, the helpers, properties and base-class methods they rely on) under {wt}/src/emsarray. Each must
  1. leave the behaviour exactly the same for every input (the property above, and every other behaviour, still holds; same results, same dtypes and orders, same exceptions and messages, same warnings),
  2. compile and keep every currently passing test passing,
  3. read like a REAL upstream commit, each of a DIFFERENT kind out of:
     * modernisation: assignment expressions (walrus), `match` statements (Python 3.12 is the interpreter here), `itertools.pairwise` / `zip(strict=True)` / `math.prod` / `str.removeprefix`, f-strings, `pathlib`, `functools.partial` for a closure, `operator.itemgetter` / `attrgetter` for a lambda, `dict | dict`, `contextlib` helpers, `enumerate(start=...)`;
     * restructuring: one function split into two (or two private helpers merged into one), a nested function moved to module level or into a staticmethod, a chain of `if` turned into a dispatch table or the reverse, a tuple of intermediates turned into a small dataclass / NamedTuple, a method body moved into a module-level function that the method calls, a cached_property's body extracted;
     * control flow: LBYL <-> EAFP where exactly equivalent (`if k in d: x = d[k]` <-> `try: x = d[k] except KeyError`), loop `else` clauses, a flag variable replaced by early exit, `while` <-> `for`, nested `if` flattened with `and`, De Morgan, comparisons chained or unchained, the branches of an if/else swapped with the test negated;
     * data handling with identical results: a python loop vectorised with numpy where the result (values, dtype, order) is identical, boolean mask <-> `numpy.flatnonzero` index array, `numpy.where(c)[0]` <-> `numpy.flatnonzero(c)`, `x[..., 0]` <-> `numpy.take`, `list(map(f, xs))` <-> comprehension, `sorted(set(x))` <-> `numpy.unique(x).tolist()` only where the element types make them equal, building a dict with `dict(zip(...))`, `any(...)` / `all(...)` for a loop with a flag;
     * naming and layout: renaming parameters' local copies and locals throughout, reordering independent statements and independent guard clauses (only where the raised exception for inputs violating both stays the same), moving literals into module-level or class-level constants, introducing intermediate variables for long expressions or removing them.
  At least TWO of the four must combine two of these kinds in one commit, as real commits do (extract a helper AND modernise its body; rename AND restructure the control flow). 12-60 changed lines each, touching different functions where possible, and preferring functions OTHER than the single most central one of this property. Do NOT change semantics, defaults, error types or messages, and do not touch the tests.
For each refactoring write an equivalence demonstration: a standalone Python program that exercises the refactored functions on several inputs (including awkward ones: one-based and transposed storage, masked entries, 1xN shapes, several grid kinds, empty selections, whatever this property is about) and compares results with expected values computed independently or recorded from the unmodified tree (embed the expected values in the script); it must exit 0 both on the unmodified tree and with the refactoring applied. Locate any data files relative to the current working directory (the worktree root), never via __file__. Do not compare against text that contains the name of your script (argparse error messages do) or memory addresses.

DELIVERABLES - create the directory {wt}/seed_out and put there, for X in (A, B, C, D):
  {wt}/seed_out/patch_X.diff   output of `git diff -- src` with ONLY refactoring X applied (each patch applies alone to the unmodified tree with `git apply`)
  {wt}/seed_out/demo_X.py       run as: cd {wt} && PYTHONPATH={wt}/src:{wt} /venv/bin/python seed_out/demo_X.py   (exit 0 with and without the patch)
  {wt}/seed_out/notes_X.md      2-5 lines: what kind of refactoring it is, why behaviour is unchanged, what you ran
Leave the worktree with NO change applied at the end (git checkout -- src), keep seed_out/. Finish with a short report.""")
elif mode == 'hard5':
    print(f"""You are helping to evaluate a verification tool by writing realistic, hard-to-notice defects ("seeded changes").

{common}
YOUR TASK: produce THREE different, independent changes to the library source under {wt}/src/emsarray (call them A, B and C), each of which
  1. BREAKS the property above (for some input / configuration / history the statement becomes false),
  2. still imports/compiles and keeps every currently passing test of the existing suite passing (unchanged test files),
  3. needs something SPECIFIC to manifest; ordinary use of the sample datasets must not expose it.
Each change must read like a REAL upstream commit with a purpose other than breaking things, each of a DIFFERENT kind out of:
  * a performance optimisation: a cache or memo that can go stale or is keyed on too little, a python loop vectorised with numpy / shapely / pandas in a way that differs for masked, empty, duplicate, unsorted or non-contiguous input, a copy avoided (a view or the caller's object is now mutated), a shortcut for "the common case" whose test is slightly too wide;
  * an API modernisation or dependency adaptation: one library call swapped for a "newer equivalent" that differs in a corner (ordering of numpy.unique vs pandas.unique vs dict.fromkeys, `.sizes` vs `.dims` vs `.shape`, `drop_vars(errors='ignore')`, `numpy.asarray` vs `numpy.array`, `astype(copy=False)`, shapely 2 vectorised functions and their handling of None / empty geometries, `Path.suffix` vs `suffixes`, `str.removesuffix`, `zip(strict=...)`, `itertools.pairwise`, `math.prod`, `functools.cache` on a method);
  * a small feature: a new optional argument, option or attribute whose default or threading through the call chain is subtly wrong for one caller, one convention subclass or one grid kind;
  * a robustness tweak: an `except` widened, a default / fallback supplied where the code used to refuse, a warning instead of an error, tolerance added to a comparison, input silently coerced;
  * a clean-up: duplicated code merged into a helper that is right for one of its two callers only, a "redundant" conversion / sort / copy / check removed, a class attribute or module constant shared where it was per-instance, a condition simplified with boolean algebra that is wrong for one combination.
3-25 changed lines each, with the comment, naming and (if you like) docstring change such a commit would carry. They must be made in different functions, and at least one must be made outside the functions the property names as its anchors (in a helper, property, base class, sibling convention or the command line wiring that the anchored code relies on).
For each change write a demonstration: a standalone Python program that exits with status 0 when the property holds and 1 (printing what went wrong) when violated; it must exit 0 on the UNMODIFIED tree and 1 with the change applied. Locate any data files relative to the current working directory (the worktree root), never via __file__. Do not compare against text that contains the name of your script (argparse error messages do).

DELIVERABLES - create the directory {wt}/seed_out and put there, for X in (A, B, C):
  {wt}/seed_out/patch_X.diff   output of `git diff -- src` with ONLY change X applied (each patch applies alone to the unmodified tree with `git apply`)
  {wt}/seed_out/demo_X.py       run as: cd {wt} && PYTHONPATH={wt}/src:{wt} /venv/bin/python seed_out/demo_X.py
  {wt}/seed_out/notes_X.md      3-8 lines: what the change is (and which kind of commit it imitates), why it breaks the property, what it needs to manifest, what you ran (suite before/after, demo exit codes)
Leave the worktree with NO change applied at the end (git checkout -- src), keep seed_out/. Finish with a short report. If you cannot find three good changes deliver as many as you can.""")
elif mode == 'benign5':
    print(f"""You are helping to evaluate a verification tool by writing BEHAVIOUR-PRESERVING refactorings: edits a maintainer might make that change how the code is written but not what it does. The tool under evaluation must stay silent on them.

{common}
YOUR TASK: produce FOUR different, independent, behaviour-preserving refactorings (call them A, B, C and D) of the code this property depends on (the functions it is anchored in, the helpers, properties and base-class methods they rely on) under {wt}/src/emsarray. Each must
  1. leave the behaviour exactly the same for every input (the property above, and every other behaviour, still holds; same results, same dtypes and orders, same exceptions and messages, same warnings),
  2. compile and keep every currently passing test passing,
  3. read like a REAL upstream commit, each of a DIFFERENT kind out of:
     * modernisation: assignment expressions (walrus), `match` statements (Python 3.12 is the interpreter here), `itertools.pairwise` / `zip(strict=True)` / `math.prod` / `str.removeprefix`, f-strings, `pathlib`, `functools.partial` for a closure, `operator.itemgetter` / `attrgetter` for a lambda, `dict | dict`, `contextlib` helpers, `enumerate(start=...)`;
     * restructuring: one function split into two (or two private helpers merged into one), a nested function moved to module level or into a staticmethod, a chain of `if` turned into a dispatch table or the reverse, a tuple of intermediates turned into a small dataclass / NamedTuple, a method body moved into a module-level function that the method calls, a cached_property's body extracted;
     * control flow: LBYL <-> EAFP where exactly equivalent (`if k in d: x = d[k]` <-> `try: x = d[k] except KeyError`), loop `else` clauses, a flag variable replaced by early exit, `while` <-> `for`, nested `if` flattened with `and`, De Morgan, comparisons chained or unchained, the branches of an if/else swapped with the test negated;
     * data handling with identical results: a python loop vectorised with numpy where the result (values, dtype, order) is identical, boolean mask <-> `numpy.flatnonzero` index array, `numpy.where(c)[0]` <-> `numpy.flatnonzero(c)`, `x[..., 0]` <-> `numpy.take`, `list(map(f, xs))` <-> comprehension, `sorted(set(x))` <-> `numpy.unique(x).tolist()` only where the element types make them equal, building a dict with `dict(zip(...))`, `any(...)` / `all(...)` for a loop with a flag;
     * naming and layout: renaming parameters' local copies and locals throughout, reordering independent statements and independent guard clauses (only where the raised exception for inputs violating both stays the same), moving literals into module-level or class-level constants, introducing intermediate variables for long expressions or removing them.
  8-40 changed lines each, touching different functions where possible. Do NOT change semantics, defaults, error types or messages, and do not touch the tests.
For each refactoring write an equivalence demonstration: a standalone Python program that exercises the refactored functions on several inputs (including awkward ones: one-based and transposed storage, masked entries, 1xN shapes, several grid kinds, empty selections, whatever this property is about) and compares results with expected values computed independently or recorded from the unmodified tree (embed the expected values in the script); it must exit 0 both on the unmodified tree and with the refactoring applied. Locate any data files relative to the current working directory (the worktree root), never via __file__. Do not compare against text that contains the name of your script (argparse error messages do) or memory addresses.

DELIVERABLES - create the directory {wt}/seed_out and put there, for X in (A, B, C, D):
  {wt}/seed_out/patch_X.diff   output of `git diff -- src` with ONLY refactoring X applied (each patch applies alone to the unmodified tree with `git apply`)
  {wt}/seed_out/demo_X.py       run as: cd {wt} && PYTHONPATH={wt}/src:{wt} /venv/bin/python seed_out/demo_X.py   (exit 0 with and without the patch)
  {wt}/seed_out/notes_X.md      2-5 lines: what kind of refactoring it is, why behaviour is unchanged, what you ran
Leave the worktree with NO change applied at the end (git checkout -- src), keep seed_out/. Finish with a short report.""")
elif mode == 'hard4':
    print(f"""You are helping to evaluate a verification tool by writing realistic, hard-to-notice defects ("seeded changes").

{common}
CONTEXT: the last ~60 commits of this worktree (`git log -60 --stat`, `git log -60 -p -- src`) are maintenance fixes that hardened the library against corner cases (guards, normalisations, conversions, refusals, helper functions). Read the ones that touch the code this property depends on.
YOUR TASK: produce THREE different, independent changes to the library source under {wt}/src/emsarray (call them A, B and C), each of which
  1. BREAKS the property above (for some input / configuration / history the statement becomes false),
  2. still imports/compiles and keeps every currently passing test of the existing suite passing (unchanged test files),
  3. needs something SPECIFIC to manifest; ordinary use of the sample datasets must not expose it.
At least TWO of the three must be made in code that those recent commits added or rewrote, and must NOT be a verbatim revert of a commit. Good shapes: a guard that quietly stops covering one of its cases (a kind dropped from a membership test, `>` for `>=`, a condition tested on the wrong variable); a normalisation applied at one of two call sites that must agree; a constant or regular expression changed so that it still handles the common spelling but not a rare one; a new helper bypassed by one caller; two statements reordered so that a value is read after it was overwritten; a well-meant simplification or performance shortcut that is only equivalent for the common case. The third may be anywhere in the code the property depends on. 1-15 changed lines each, looking like an honest mistake or a clean-up, with a comment or naming that makes it look deliberate.
For each change write a demonstration: a standalone Python program that exits with status 0 when the property holds and 1 (printing what went wrong) when violated; it must exit 0 on the UNMODIFIED tree and 1 with the change applied. Locate any data files relative to the current working directory (the worktree root), never via __file__.

DELIVERABLES - create the directory {wt}/seed_out and put there, for X in (A, B, C):
  {wt}/seed_out/patch_X.diff   output of `git diff -- src` with ONLY change X applied (each patch applies alone to the unmodified tree with `git apply`)
  {wt}/seed_out/demo_X.py       run as: cd {wt} && PYTHONPATH={wt}/src:{wt} /venv/bin/python seed_out/demo_X.py
  {wt}/seed_out/notes_X.md      3-8 lines: what the change is, why it breaks the property, what it needs to manifest, what you ran (suite before/after, demo exit codes)
Leave the worktree with NO change applied at the end (git checkout -- src), keep seed_out/. Finish with a short report. If you cannot find three good changes deliver as many as you can.""")
elif mode == 'benign4':
    print(f"""You are helping to evaluate a verification tool by writing BEHAVIOUR-PRESERVING refactorings: edits a maintainer might make that change how the code is written but not what it does. The tool under evaluation must stay silent on them.

{common}
CONTEXT: the last ~60 commits of this worktree (`git log -60 --stat`, `git log -60 -p -- src`) are maintenance fixes that added guards, normalisations, conversions, refusals and helper functions. Read the ones that touch the code this property depends on.
YOUR TASK: produce FOUR different, independent, behaviour-preserving refactorings (call them A, B, C and D) under {wt}/src/emsarray. At least THREE of them must restructure code that those recent commits added or rewrote (if fewer than three such places matter to this property, use the functions the property is anchored in). Each must
  1. leave the behaviour exactly the same for every input (the property above, and every other behaviour, still holds; same results, same exceptions and messages),
  2. compile and keep every currently passing test passing,
  3. be a substantial but realistic maintenance edit, each of a DIFFERENT kind, for example: extracting a guard or a conversion into a private helper (or inlining one); merging two guards into one condition or splitting one into two; turning an if/else into a conditional expression, an early `continue` / `return`, or a lookup table; a comprehension <-> an explicit loop; replacing an idiom by an equivalent one (`x.size > 0` <-> `len(x) != 0`, `numpy.count_nonzero(m)` <-> `m.sum()`, `a in 'iub'` <-> `a in ('i', 'u', 'b')`, `re.sub` with a compiled module-level pattern, `not (a or b)` <-> `not a and not b`); renaming locals and reordering independent statements; moving a constant to module level. 5-30 changed lines each.
For each refactoring write an equivalence demonstration: a standalone Python program that exercises the refactored functions on several inputs (including the awkward ones the recent commits were about) and compares results with expected values computed independently or recorded from the unmodified tree (embed the expected values in the script); it must exit 0 both on the unmodified tree and with the refactoring applied. Locate any data files relative to the current working directory (the worktree root), never via __file__.

DELIVERABLES - create the directory {wt}/seed_out and put there, for X in (A, B, C, D):
  {wt}/seed_out/patch_X.diff   output of `git diff -- src` with ONLY refactoring X applied (each patch applies alone to the unmodified tree with `git apply`)
  {wt}/seed_out/demo_X.py       run as: cd {wt} && PYTHONPATH={wt}/src:{wt} /venv/bin/python seed_out/demo_X.py   (exit 0 with and without the patch)
  {wt}/seed_out/notes_X.md      2-5 lines: what kind of refactoring it is, why behaviour is unchanged, what you ran
Leave the worktree with NO change applied at the end (git checkout -- src), keep seed_out/. Finish with a short report.""")
elif mode == 'hard3':
    print(f"""You are helping to evaluate a verification tool by writing realistic, hard-to-notice defects ("seeded changes").

{common}
YOUR TASK: produce THREE different, independent changes to the library source under {wt}/src/emsarray (call them A, B and C), each of which
  1. BREAKS the property above (for some input / configuration / history the statement becomes false),
  2. still imports/compiles and keeps every currently passing test of the existing suite passing (unchanged test files),
  3. needs something SPECIFIC to manifest; ordinary use of the sample datasets must not expose it.
Two earlier rounds already produced the obvious edits INSIDE the central functions named under "mechanism" above (changed predicates, removed sorts, flipped comparisons, off-by-one slices, swapped arguments, early returns, widened guards). This round must go elsewhere:
  * at least TWO of your three changes must be made OUTSIDE those central functions: in a helper they call, a property or cached_property they read, a dataclass / enum / module constant, a default argument value, the accessor or registry wiring, the command line wiring, a convention subclass's override, or ANOTHER convention's implementation of the same interface (the property quantifies over every convention);
  * at least ONE change must only matter through an INTERACTION: two call sites that must agree (writer and reader of a table, two siblings implementing one interface, a cache and the code that fills it, a value computed in one function and relied on in another), a value that becomes stale after a previous call, or an input class from the quantifier that the code treats in a separate branch (one-based indexes, transposed storage, masked entries, several grid kinds, coordinates held as plain variables, 1xN shapes, empty selections);
  * still 1-15 changed lines each, looking like an honest mistake or a well-meant clean-up, with a comment or naming that makes it look deliberate.
For each change write a demonstration: a standalone Python program that exits with status 0 when the property holds and 1 (printing what went wrong) when violated; it must exit 0 on the UNMODIFIED tree and 1 with the change applied. Locate test data and helper modules relative to the current working directory (always the worktree root), never relative to __file__.

DELIVERABLES - create the directory {wt}/seed_out and put there, for X in (A, B, C):
  {wt}/seed_out/patch_X.diff   output of `git diff -- src` with ONLY change X applied (each patch applies alone to the unmodified tree with `git apply`)
  {wt}/seed_out/demo_X.py       run as: cd {wt} && PYTHONPATH={wt}/src:{wt} /venv/bin/python seed_out/demo_X.py
  {wt}/seed_out/notes_X.md      3-8 lines: what the change is, why it breaks the property, what it needs to manifest, what you ran (suite before/after, demo exit codes)
Leave the worktree with NO change applied at the end (git checkout -- src), keep seed_out/. Finish with a short report. If you cannot find three good changes deliver as many as you can.""")
elif mode == 'hard':
    print(f"""You are helping to evaluate a verification tool by writing realistic, hard-to-notice defects ("seeded changes").

{common}
YOUR TASK: produce THREE different, independent changes to the library source under {wt}/src/emsarray (call them A, B and C), each of which
  1. BREAKS the property above (for some input / configuration / history the statement becomes false),
  2. still imports/compiles and keeps every currently passing test of the existing suite passing (unchanged test files),
  3. needs something SPECIFIC to manifest (unusual input, multi-step sequence, particular configuration, or two cooperating sites that each look fine alone); ordinary use of the sample datasets must not expose it.
Be inventive and AVOID the most obvious single-token edits in the central function (e.g. changing a predicate string, removing a sort, flipping one comparison, an off-by-one in the one obvious slice): an earlier round already produced those. Prefer instead: a change in a helper or a property the anchored code depends on (dimension discovery, a cached value that becomes stale, an attribute lookup, a default argument, a dtype or fill value handling, a guard condition that is subtly widened or narrowed, an `or` for an `and`, a mutable default or shared state between calls, a wrong-but-plausible variable of the same type, evaluation order of two steps, an early return added for an "optimisation", a change that only matters for 1xN / Nx1 / non-square / one-based / multi-kind / masked inputs). Changes of 1-12 lines that look like an honest mistake or a well-meant refactor. A, B and C must use different mechanisms and, where possible, different functions.
For each change write a demonstration: a standalone Python program that exits with status 0 when the property holds and 1 (printing what went wrong) when violated; it must exit 0 on the UNMODIFIED tree and 1 with the change applied.

DELIVERABLES - create the directory {wt}/seed_out and put there, for X in (A, B, C):
  {wt}/seed_out/patch_X.diff   output of `git diff -- src` with ONLY change X applied (each patch applies alone to the unmodified tree with `git apply`)
  {wt}/seed_out/demo_X.py       run as: cd {wt} && PYTHONPATH={wt}/src:{wt} /venv/bin/python seed_out/demo_X.py
  {wt}/seed_out/notes_X.md      3-8 lines: what the change is, why it breaks the property, what it needs to manifest, what you ran (suite before/after, demo exit codes)
Leave the worktree with NO change applied at the end (git checkout -- src), keep seed_out/. Finish with a short report. If you cannot find three good changes deliver as many as you can.""")
elif mode == 'hard7':
    print(f"""You are helping to evaluate a verification tool by writing realistic, hard-to-notice defects ("seeded changes").

{common}
YOUR TASK: produce THREE different, independent changes to the library source under {wt}/src/emsarray (call them A, B and C), each of which
  1. BREAKS the property above (for some input / configuration / history the statement becomes false),
  2. still imports/compiles and keeps every currently passing test of the existing suite passing (unchanged test files),
  3. needs something SPECIFIC to manifest; ordinary use of the sample datasets must not expose it.
This round is about defects that hide INSIDE A REFACTORING. Each change must be a commit that a reviewer would read as a pure, behaviour-preserving refactoring - 20 to 70 changed lines, most of which really do preserve behaviour - in which ONE detail is not equivalent and breaks the property. Use a different kind of refactoring for each of A, B, C, out of:
  * modernisation: assignment expressions, `match` statements (Python 3.12), `itertools.pairwise` / `zip(strict=True)` / `math.prod`, `functools.partial`, `operator.itemgetter`, `dict | dict`, `contextlib.suppress`, f-strings - where the modern form differs in one corner (a walrus that changes what is evaluated when; a `match` arm order or a missing arm; `suppress` around one statement too many; a falsy value taken for a missing one by `or` / `.get(...) or default`; `|` precedence);
  * restructuring: a function split into helpers, a closure moved to module level, a chain of `if` turned into a table, a tuple turned into a dataclass / NamedTuple - where a guard, a copy, a sort, a default argument, the order of two steps or one table entry is lost or altered on the way, or the helper is right for one caller only;
  * control flow: LBYL <-> EAFP, `for ... else`, early exits, flattened or nested `if`, De Morgan, swapped branches - where the new condition is not the exact negation, the `except` catches more than the look-up, the `else` belongs to another statement, a `continue` became a `break`, or a boundary comparison changed (`<` / `<=`);
  * data handling: a loop vectorised, boolean mask <-> index array, `numpy.where(c)[0]`, `numpy.take`, `numpy.unique`, `dict(zip(...))`, comprehension <-> `map` - where values, dtype, order, duplicates, masked / NaN / empty input or the axis are handled differently;
  * naming and layout: locals and private helpers renamed, statements and guard clauses reordered, literals moved into module / class constants - where two names are mixed up after the rename, a reordering moves a statement across something it depends on, or a constant shared between two uses is right for one.
The non-equivalent detail must be the kind of slip a careful human could make and a reviewer could miss; do not add unrelated code. They must be made in different functions, and at least one must be made outside the functions the property names as its anchors (in a helper, property, base class, sibling convention or the command line wiring that the anchored code relies on).
For each change write a demonstration: a standalone Python program that exits with status 0 when the property holds and 1 (printing what went wrong) when violated; it must exit 0 on the UNMODIFIED tree and 1 with the change applied. Locate any data files relative to the current working directory (the worktree root), never via __file__. Do not compare against text that contains the name of your script (argparse error messages do).

DELIVERABLES - create the directory {wt}/seed_out and put there, for X in (A, B, C):
  {wt}/seed_out/patch_X.diff   output of `git diff -- src` with ONLY change X applied (each patch applies alone to the unmodified tree with `git apply`)
  {wt}/seed_out/demo_X.py       run as: cd {wt} && PYTHONPATH={wt}/src:{wt} /venv/bin/python seed_out/demo_X.py
  {wt}/seed_out/notes_X.md      3-8 lines: what the refactoring is, which single detail is not equivalent, why that breaks the property, what it needs to manifest, what you ran (suite before/after, demo exit codes)
Leave the worktree with NO change applied at the end (git checkout -- src), keep seed_out/. Finish with a short report. If you cannot find three good changes deliver as many as you can.""")
elif mode == 'hard8':
    print(f"""You are helping to evaluate a verification tool by writing realistic, hard-to-notice defects ("seeded changes").

{common}
YOUR TASK: produce FOUR different, independent changes to the library source under {wt}/src/emsarray (call them A, B, C and D), each of which
  1. BREAKS the property above (for some input / configuration / history the statement becomes false),
  2. still imports/compiles and keeps every currently passing test of the existing suite passing (unchanged test files),
  3. needs something SPECIFIC to manifest; ordinary use of the sample datasets must not expose it.
This round is about SMALL commits (1 to 12 changed lines each, one purpose each) in the places reviewers look at least. Each change should read like a real one-line-summary commit ("handle X", "fix Y for Z", "use W instead of V", "default to ...", "simplify ...") and be the kind of mistake found in real bug histories of numpy / xarray / shapely code. Spread A-D over DIFFERENT ones of these places:
  * options and non-default arguments: the branch taken only for a non-default keyword (`buffer`, `missing_points`, `drop_geometry`, `non_spatial_variables`, `point_dimension`, `index_dimension`, `fill_value`, formats and flags of the command line, plot keyword arguments ...), a default value changed, a keyword forwarded under the wrong name or not forwarded, an option validated against the wrong set;
  * the less used variants: the grid kinds other than the default one (edge / node / back / left grids), the conventions other than the one the tests mostly use (SHOC simple, SHOC standard, Arakawa C, CF 2D grids with bounds, UGRID with optional tables, one-based or transposed storage), subclasses overriding a class attribute or a hook of the base class, deprecated aliases that forward to the new name;
  * arguments to library calls: a keyword of a numpy / xarray / shapely / pyproj / netCDF4 call dropped, added or changed (`axis`, `keepdims`, `drop`, `strict`, `predicate`, `sorted`, `return_index`, `kind='stable'`, `always_xy`, `ccw`, `decimals`, `missing_dims`, `compat`, `combine_attrs`, `copy`, `dtype`, `casting`, `fill_value`, `mode`), or a call replaced by a near-synonym with a different corner (`numpy.nonzero` / `flatnonzero` / `argwhere`, `any` / `all`, `min` / `nanmin`, `isel` / `sel`, `stack` / `concatenate`, `intersects` / `contains` / `covers`, `ravel` / `flatten` order, `astype` / `view`);
  * boundaries and special values: first / last element, empty / single-element input, zero, negative values, NaN / masked / fill values, duplicated coordinates, a comparison `<` / `<=`, a slice end, an off-by-one in a shape, `start_index`, `int` / `float` / `bool` dtypes;
  * error handling and validation: a check that is weakened, moved after the action it guards, or applied to the wrong variable; an exception type or a caught exception widened; a warning instead of an error; a partial result returned or written before the failure is noticed.
Do not hide the change in a large refactoring; do not add unrelated code. They must be made in different functions, and at least TWO must be made outside the functions the property names as its anchors (in a helper, property, base class, sibling convention, utility or the command line wiring that the anchored code relies on).
For each change write a demonstration: a standalone Python program that exits with status 0 when the property holds and 1 (printing what went wrong) when violated; it must exit 0 on the UNMODIFIED tree and 1 with the change applied. Locate any data files relative to the current working directory (the worktree root), never via __file__. Do not compare against text that contains the name of your script (argparse error messages do).

DELIVERABLES - create the directory {wt}/seed_out and put there, for X in (A, B, C, D):
  {wt}/seed_out/patch_X.diff   output of `git diff -- src` with ONLY change X applied (each patch applies alone to the unmodified tree with `git apply`)
  {wt}/seed_out/demo_X.py       run as: cd {wt} && PYTHONPATH={wt}/src:{wt} /venv/bin/python seed_out/demo_X.py
  {wt}/seed_out/notes_X.md      3-8 lines: what the change is (as a commit summary), why it breaks the property, what it needs to manifest, what you ran (suite before/after, demo exit codes)
Leave the worktree with NO change applied at the end (git checkout -- src), keep seed_out/. Finish with a short report. If you cannot find four good changes deliver as many as you can. If, while reading the code, you notice that the UNMODIFIED tree already violates the property for some input, say so in the report with the input.""")
elif mode == 'benign8':
    print(f"""You are helping to evaluate a verification tool by writing BEHAVIOUR-PRESERVING commits: edits a maintainer might make that change how the code is written but not what it does. The tool under evaluation must stay silent on them.

{common}
YOUR TASK: produce THREE different, independent, behaviour-preserving commits (call them A, B and C) to the code this property depends on (the functions it is anchored in, the helpers, properties and base-class methods they rely on) under {wt}/src/emsarray. Each must
  1. leave the behaviour exactly the same for every input (the property above, and every other behaviour, still holds; same results, same dtypes and orders, same exceptions and messages, same warnings),
  2. compile and keep every currently passing test passing,
  3. read like a REAL upstream maintenance commit. This round is about the day-to-day commits that are NOT refactorings for their own sake; use a different kind for each of A-C, out of:
     * dependency adaptation with identical results: a numpy / xarray / shapely / pyproj call replaced by its documented equivalent (`numpy.product` -> `numpy.prod`, `shapely.geometry.Polygon` <-> `shapely.Polygon`, `dataset.dims` -> `dataset.sizes` where only sizes are read, `numpy.in1d` -> `numpy.isin`, `DataArray.values` <-> `DataArray.to_numpy()`, `numpy.row_stack` -> `numpy.vstack`, `cast(...)` added, keyword spelled out where it was positional or given its default value explicitly);
     * micro-optimisation with identical results: an attribute or a lookup read once into a local before a loop, a repeated sub-expression computed once, a list built by comprehension instead of repeated `append`, `tuple` instead of `list` for something only iterated, preallocation with `numpy.empty` + full assignment instead of `numpy.full`/`zeros` ONLY where every entry is then written, `in` on a set built once, early exit when the answer is already known, `functools.lru_cache` / `cached_property` ONLY on pure functions of immutable arguments;
     * robustness that can never change a result: an `assert` or an explicit check that cannot fail for any input the function accepts today (state why), an `else: raise AssertionError('unreachable')`, `dict[...]` -> `.get(...)` followed by the same KeyError being raised by hand with the same message, context managers for resources already closed correctly, `logger.debug` / `logger.info` calls, `warnings` left exactly as they are;
     * documentation and typing commits that also touch code lightly: docstrings and comments rewritten, annotations added (`-> numpy.ndarray`, `Optional[...]`, `Final`, `Literal`), `typing.overload` stubs, `__all__` lists, `__slots__` ONLY on classes never given other attributes, dead code and unused variables / imports removed, unreachable branches removed (state why they are unreachable), duplicated code folded into one private helper;
     * consistency commits: the same idiom applied across sibling classes or sibling functions (all conventions spell the same step the same way), keyword arguments in call sites ordered as in the signature, long functions reordered so that independent preparatory statements sit next to their use, magic numbers / strings given a name.
  10-60 changed lines each; at least ONE of the three must touch two or more functions or two or more modules. Keep public names (functions, methods, classes, properties without a leading underscore) where they are; do NOT change semantics, defaults, error types or messages, and do not touch the tests.
For each commit write an equivalence demonstration: a standalone Python program that exercises the changed functions on several inputs (including awkward ones: one-based and transposed storage, masked entries, 1xN shapes, several grid kinds, empty selections, non-default options, whatever this property is about) and compares results with expected values computed independently or recorded from the unmodified tree (embed the expected values in the script); it must exit 0 both on the unmodified tree and with the commit applied. Locate any data files relative to the current working directory (the worktree root), never via __file__. Do not compare against text that contains the name of your script (argparse error messages do) or memory addresses.

DELIVERABLES - create the directory {wt}/seed_out and put there, for X in (A, B, C):
  {wt}/seed_out/patch_X.diff   output of `git diff -- src` with ONLY commit X applied (each patch applies alone to the unmodified tree with `git apply`)
  {wt}/seed_out/demo_X.py       run as: cd {wt} && PYTHONPATH={wt}/src:{wt} /venv/bin/python seed_out/demo_X.py    (exit 0 before and after)
  {wt}/seed_out/notes_X.md      3-8 lines: which kind of commit, which functions, why behaviour is identical, what you ran (suite before/after, demo exit codes)
Leave the worktree with NO change applied at the end (git checkout -- src), keep seed_out/. Finish with a short report. If you cannot find three good commits deliver as many as you can.""")
elif mode == 'benign7':
    print(f"""You are helping to evaluate a verification tool by writing BEHAVIOUR-PRESERVING refactorings: edits a maintainer might make that change how the code is written but not what it does. The tool under evaluation must stay silent on them.

{common}
YOUR TASK: produce FOUR different, independent, behaviour-preserving refactorings (call them A, B, C and D) of the code this property depends on (the functions it is anchored in, the helpers, properties and base-class methods they rely on) under {wt}/src/emsarray. Each must
  1. leave the behaviour exactly the same for every input (the property above, and every other behaviour, still holds; same results, same dtypes and orders, same exceptions and messages, same warnings),
  2. compile and keep every currently passing test passing,
  3. read like a REAL upstream commit. This round is about the ORGANISATION of the code rather than single statements; use a different kind for each of A-D, out of:
     * helpers and where they live: a block of a long function extracted into a private module-level function, a staticmethod or a private method (pass what it needs as arguments, return what the caller uses); two small private helpers merged into their only caller (or one into the other); a nested function (closure) turned into a module-level function with explicit parameters, or the reverse; a private helper moved to another module of the package and imported from there (keep the public API and the public function / method / class names and locations as they are);
     * names and imports: private helpers, private methods, nested functions, parameters' local copies and locals renamed consistently; `import numpy` <-> `import numpy as np` <-> `from numpy import ...` for some of the names a module uses; `from emsarray import utils` <-> `from emsarray.utils import name_to_data_array`; a module-level alias introduced for a long dotted name;
     * state and types: `@property` <-> `@cached_property` only where the value cannot change during the object's life and is not already cached elsewhere; a tuple / dict of intermediates replaced by a small frozen dataclass or NamedTuple that is built once and read through its fields; type annotations, `typing.cast` and `TYPE_CHECKING` imports added or tidied (no runtime effect); class-level constant tables for literals used by several methods;
     * control flow over several statements: guard clauses hoisted to the top, a flag variable replaced by early exits, nested `if` flattened (or the reverse), `if/elif/else` chain <-> `match` <-> dispatch dict where exactly equivalent, loop `else`, try/except narrowed to the one statement that can raise (only where the other statements cannot raise that exception);
     * expression-level rewrites with identical results: comprehension <-> loop with `append`, `any` / `all` / `next` with generators, `dict.get` / `setdefault` / `defaultdict`, conditional expressions <-> if/else, chained comparisons, arithmetic re-associated only on integers, `numpy.flatnonzero` <-> boolean mask, intermediate variables introduced or removed.
  At least TWO of the four must touch TWO OR MORE functions in one commit (extract and rename; move a helper and change how it is imported; a dataclass threaded through two functions). 15-80 changed lines each. Keep public names (functions, methods, classes, properties without a leading underscore) where they are; do NOT change semantics, defaults, error types or messages, and do not touch the tests.
For each refactoring write an equivalence demonstration: a standalone Python program that exercises the refactored functions on several inputs (including awkward ones: one-based and transposed storage, masked entries, 1xN shapes, several grid kinds, empty selections, whatever this property is about) and compares results with expected values computed independently or recorded from the unmodified tree (embed the expected values in the script); it must exit 0 both on the unmodified tree and with the refactoring applied. Locate any data files relative to the current working directory (the worktree root), never via __file__. Do not compare against text that contains the name of your script (argparse error messages do) or memory addresses.

DELIVERABLES - create the directory {wt}/seed_out and put there, for X in (A, B, C, D):
  {wt}/seed_out/patch_X.diff   output of `git diff -- src` with ONLY refactoring X applied (each patch applies alone to the unmodified tree with `git apply`)
  {wt}/seed_out/demo_X.py       run as: cd {wt} && PYTHONPATH={wt}/src:{wt} /venv/bin/python seed_out/demo_X.py    (exit 0 before and after)
  {wt}/seed_out/notes_X.md      3-8 lines: which kind(s) of refactoring, which functions, why behaviour is identical, what you ran (suite before/after, demo exit codes)
Leave the worktree with NO change applied at the end (git checkout -- src), keep seed_out/. Finish with a short report. If you cannot find four good refactorings deliver as many as you can.""")
else:
    print(f"""You are helping to evaluate a verification tool by writing BEHAVIOUR-PRESERVING refactorings: edits a maintainer might make that change how the code is written but not what it does. The tool under evaluation must stay silent on them.

{common}
YOUR TASK: produce FOUR different, independent, behaviour-preserving refactorings (call them A, B, C and D) of the code this property is anchored in (the functions listed above and the helpers they call) under {wt}/src/emsarray. Each must
  1. leave the behaviour exactly the same for every input (the property above, and every other behaviour, still holds),
  2. compile and keep every currently passing test passing,
  3. be the kind of edit that really happens in maintenance, each of a DIFFERENT kind, for example: renaming local variables; reordering independent statements; extracting a few lines into a private helper function (or inlining a tiny helper); replacing an idiom by an equivalent one (`numpy.sort(x)` <-> `sorted(x)` where a list is fine, a comprehension <-> an explicit loop, `a if c else b` <-> if/else statement, `x is not None` guard inverted with the branches swapped, `dict(...)` <-> literal, keyword argument <-> positional argument of the same parameter, early return <-> else branch); adding logging, type annotations, comments or docstring changes; reformatting long expressions over several lines / introducing an intermediate variable; importing a name differently (`import numpy as np`-style alias inside one module, `from x import y`).
  Each refactoring should touch 3-25 lines in the anchored functions. Do NOT change semantics, defaults, error types or messages.
For each refactoring write an equivalence demonstration: a standalone Python program that exercises the refactored functions on several inputs (including awkward ones) and compares results with expected values computed independently or recorded from the unmodified tree (embed the expected values in the script); it must exit 0 both on the unmodified tree and with the refactoring applied.

DELIVERABLES - create the directory {wt}/seed_out and put there, for X in (A, B, C, D):
  {wt}/seed_out/patch_X.diff   output of `git diff -- src` with ONLY refactoring X applied (each patch applies alone to the unmodified tree with `git apply`)
  {wt}/seed_out/demo_X.py       run as: cd {wt} && PYTHONPATH={wt}/src:{wt} /venv/bin/python seed_out/demo_X.py   (exit 0 with and without the patch)
  {wt}/seed_out/notes_X.md      2-5 lines: what kind of refactoring it is, why behaviour is unchanged, what you ran
Leave the worktree with NO change applied at the end (git checkout -- src), keep seed_out/. Finish with a short report.""")
