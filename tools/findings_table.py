"""Markdown rows for DESIGN.md section 5.1 from known_findings.json (entries after the first 22 fixed ones)."""
import json, re, sys
d = json.load(open('/verif/known_findings.json'))
rows = []
for i, e in enumerate(d['fixed'][22:], 1):
    m = re.match(r"fixed: property=(C\d\d) ([0-9a-f]{7}) (.*)", e, re.S)
    prop, commit, what = m.groups()
    repro = re.findall(r"/verif/(triage/[\w/.]+\.py)", what)
    what = re.sub(r"\s*\((?:also [^;)]*; )?repro: [^)]*\)", "", what)
    also = re.search(r"\(also ([^;)]*)[;)]", e)
    rows.append(f"| H{i:02d} | {prop}{' (+ ' + also.group(1) + ')' if also else ''} | {what.strip()} | `{commit}` | {', '.join('`' + r + '`' for r in repro[:2])} |")
print("| # | property | what failed | fix | repro |\n|---|---|---|---|---|")
print("\n".join(rows))
print()
print("| property / rule | function | what fails | why it is not repaired |\n|---|---|---|---|")
for k in d['known']:
    what = k['what']
    why = ''
    if 'Not repaired:' in what:
        what, why = what.split('Not repaired:', 1)
    print(f"| {k['property']} {k['rule']} | `{k['function']}` | {what.strip()} | {why.strip()} |")
