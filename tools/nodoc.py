"""Print a python file with docstrings and blank/comment-only lines removed (line numbers kept)."""
import ast, sys
def main(path, start=1, end=10**9):
    src = open(path).read()
    tree = ast.parse(src)
    skip = set()
    for node in ast.walk(tree):
        if isinstance(node, (ast.Module, ast.ClassDef, ast.FunctionDef, ast.AsyncFunctionDef)):
            b = node.body
            if b and isinstance(b[0], ast.Expr) and isinstance(b[0].value, ast.Constant) and isinstance(b[0].value.value, str):
                skip.update(range(b[0].lineno, b[0].end_lineno + 1))
    for i, line in enumerate(src.splitlines(), 1):
        if i < start or i > end or i in skip: continue
        s = line.strip()
        if not s or s.startswith('#'): continue
        print(f"{i}\t{line}")
if __name__ == '__main__':
    a = sys.argv
    main(a[1], int(a[2]) if len(a) > 2 else 1, int(a[3]) if len(a) > 3 else 10**9)
