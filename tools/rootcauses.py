"""Per kept refactoring (ids as arguments), the de-duplicated (rule, function) pairs that raise an alarm: the triage aid of rounds 4 and 5.

    /venv/bin/python tools/rootcauses.py C01-b5a C02-b5b ...
"""
import sys, io, contextlib, shutil, subprocess, tempfile, json, re
from pathlib import Path
from concurrent.futures import ProcessPoolExecutor
sys.path.insert(0, '/verif')
def one(sd):
    from emsverif.model import Program
    from emsverif.__main__ import run_property
    sd = Path(sd)
    scratch = Path(tempfile.mkdtemp(prefix='rc_', dir='/tmp'))
    out = set()
    try:
        shutil.copytree('/repo/src', scratch/'src', ignore=shutil.ignore_patterns('__pycache__','*.egg-info'))
        subprocess.run(['git','apply',str(sd/'patch.diff')], cwd=scratch, check=True)
        prog = Program(str(scratch))
        own = sd.name.split('-')[0]
        allp = [f"C{n:02d}" for n in range(1,21)]
        for pid in allp:
            buf = io.StringIO()
            with contextlib.redirect_stdout(buf):
                rc = run_property(pid, str(scratch), 'quick', 0, write_evidence=False, replay_dir=scratch/'replay', program=prog)
            for l in buf.getvalue().splitlines():
                l = l.strip()
                if l.startswith('VIOLATED'):
                    m = re.match(r"VIOLATED (\S+) at \S+ \(([^)]*)\): (?:\[(R[\d.]+)\] )?(.{0,90})", l)
                    rule = m.group(3) or m.group(1)
                    out.add((rule, m.group(2), m.group(4)))
                elif 'ANALYSIS-ERROR' in l:
                    out.add(('ERR', '', l[:160]))
    finally:
        shutil.rmtree(scratch, ignore_errors=True)
    return sd.name, sorted(out)
if __name__ == '__main__':
    ids = sys.argv[1:]
    with ProcessPoolExecutor(16) as ex:
        for name, out in ex.map(one, [(i if i.startswith("/") else f"/verif/seeded/benign/{i}") for i in ids]):
            print('==', name)
            for r in out:
                print('   ', r[0], '|', r[1], '|', r[2])
