"""Refresh the summary table of DESIGN.md: rule ranges from the rule modules, status from known_findings.json."""
import json, re
from pathlib import Path
V = Path('/verif')
d = json.load(open(V / 'known_findings.json'))
fixed = {}
for e in d['fixed']:
    m = re.match(r"fixed: property=(C\d\d)", e)
    fixed[m.group(1)] = fixed.get(m.group(1), 0) + 1
known = {}
for k in d['known']:
    known[k['property']] = known.get(k['property'], 0) + 1
s = (V / 'DESIGN.md').read_text()
out = []
for line in s.split('\n'):
    m = re.match(r"\| (C\d\d) \| (.*?) \| (R[\d.–R]+) \| (.*?) \| (.*?) \|$", line)
    if m:
        p = m.group(1)
        src = (V / 'emsverif' / 'rules' / f"{p.lower()}.py").read_text()
        ids = sorted({int(x) for x in re.findall(r"ctx\.rule\('R\d\d\.(\d+)'", src)})
        rules = f"R{p[1:]}.1–R{p[1:]}.{ids[-1]}"
        st = []
        if known.get(p):
            st.append(f"KNOWN-FINDING ×{known[p]}")
        else:
            st.append('silent')
        if fixed.get(p):
            st.append(f"{fixed[p]} defect(s) of this property repaired in /repo")
        line = f"| {p} | {m.group(2)} | {rules} | {m.group(4)} | {'; '.join(st)} |"
    out.append(line)
(V / 'DESIGN.md').write_text('\n'.join(out))
print({p: (fixed.get(p, 0), known.get(p, 0)) for p in sorted(set(fixed) | set(known))}, sum(fixed.values()))
