#!/bin/bash
# verify every delivered round-2 seed (hard: /tmp/r2h_C*/seed_out, benign: /tmp/r2b_C*/seed_out) not verified yet
cd /verif
for d in "$@"; do
  [ -d $d ] || continue
  base=$(basename $(dirname $d))
  prop=${base#*_}
  kind=${base%%_*}
  for X in A B C D; do
    x=$(echo $X | tr 'ABCD' 'abcd')
    [ -f $d/patch_$X.diff ] || continue
    out=/tmp/vs2_${kind}_${prop}${x}.json
    [ -f $out ] && continue
    echo "verifying $kind $prop $x"
    if [ "$kind" = "r2b" ] || [ "$kind" = "r3b" ] || [ "$kind" = "r4b" ] || [ "$kind" = "r5b" ] || [ "$kind" = "r6b" ] || [ "$kind" = "r7b" ] || [ "$kind" = "r8b" ]; then
      blab=b2; [ "$kind" = "r4b" ] && blab=b4; [ "$kind" = "r5b" ] && blab=b5; [ "$kind" = "r6b" ] && blab=b6; [ "$kind" = "r7b" ] && blab=b7; [ "$kind" = "r8b" ] && blab=b8
      ( /venv/bin/python tools/verify_seed.py $prop ${blab}${x} $d/patch_$X.diff $d/demo_$X.py $d/notes_$X.md --benign > $out 2>&1 ) &
    else
      lab=r2; [ "$kind" = "r3h" ] && lab=r3; [ "$kind" = "r4h" ] && lab=r4; [ "$kind" = "r5h" ] && lab=r5; [ "$kind" = "r6h" ] && lab=r6; [ "$kind" = "r7h" ] && lab=r7; [ "$kind" = "r8h" ] && lab=r8
      ( /venv/bin/python tools/verify_seed.py $prop ${lab}${x} $d/patch_$X.diff $d/demo_$X.py $d/notes_$X.md > $out 2>&1 ) &
    fi
    while [ $(jobs -r | wc -l) -ge 5 ]; do sleep 2; done
  done
done
wait
