"""Print the prompt for a seeding sub-agent: property text + worktree path only."""
import json, sys
pid, wt = sys.argv[1], sys.argv[2]
rec = None
for line in open('/verif/properties.jsonl'):
    if line.strip():
        r = json.loads(line)
        if r['id'] == pid:
            rec = r
print(f"""You are helping to evaluate a verification tool by writing realistic, hard-to-notice defects ("seeded changes") for the Python library csiro-coasts/emsarray (an xarray extension for ocean-model datasets).

You have your own scratch git worktree of the repository at: {wt}
Work ONLY inside that directory. Never read or modify /repo or /verif (they are off limits), never commit, never push.

How to run things in your worktree (the library is importable from the worktree only if you set PYTHONPATH):
  cd {wt}
  PYTHONPATH={wt}/src /venv/bin/python -m pytest -q -p no:cacheprovider --timeout=900 --continue-on-collection-errors -x -q   (do NOT use -x for the full comparison)
  PYTHONPATH={wt}/src /venv/bin/python your_script.py
There is no network. On the unmodified tree 371 tests pass and about 26 fail or error for environment reasons (network, a missing system library for cfunits, warnings raised by newer dependencies when writing netCDF under pytest's warnings-as-errors). Record the set of passing tests BEFORE your change (e.g. `... -m pytest -q -p no:cacheprovider --timeout=900 --continue-on-collection-errors -rA 2>&1 | grep PASSED | sort > /tmp/before_{pid}.txt`) and check that every one of them still passes AFTER your change.
In plain scripts (outside pytest) warnings are not errors, so writing netCDF files works; use tempfile directories. The module emsarray.transect imports `cfunits`, which cannot be imported here: if you need it, put a stub `sys.modules['cfunits'] = types.SimpleNamespace(Units=...)` in your script before importing emsarray.transect. Test helpers in {wt}/tests (e.g. tests/conventions/test_ugrid.py make_dataset, tests/conventions/test_cfgrid1d.py make_dataset, tests/conventions/test_cfgrid2d.py make_dataset, tests/conventions/test_shoc_standard.py make_dataset) build small synthetic datasets and can be imported by your scripts when PYTHONPATH also contains {wt}.

THE PROPERTY (a behavioural property of the library that must hold for every input / configuration / history, which the existing tests cannot settle):

  id: {rec['id']}
  title: {rec['title']}
  statement: {rec['statement']}
  quantifier: {json.dumps(rec['quantifier'])}
  why the tests cannot settle it: {rec['why_tests_cant']}
  code it is anchored in: {json.dumps(rec['anchors'])}

YOUR TASK: produce TWO different, independent changes to the library source under {wt}/src/emsarray (call them A and B), each of which
  1. BREAKS the property above (for some input / configuration / history the statement becomes false),
  2. still imports/compiles, and keeps every currently passing test of the existing suite passing (unchanged test files),
  3. needs something SPECIFIC to manifest - an unusual input (non-square grid, 1xN grid, negative or fractional value, hole, one-based index, unusual attribute, repeated or reordered request ...), a multi-step sequence of operations, a particular configuration, or two cooperating sites that each look fine alone. Ordinary use on the sample datasets must NOT expose it at once. Prefer small, plausible edits that look like an honest mistake or a well-meant refactor/optimisation (1-10 changed lines), in the code the property is anchored in. A and B must use different mechanisms / different functions where possible.
For each change write a demonstration: a small standalone Python program that exits with status 0 when the property holds and status 1 (printing what went wrong) when it is violated; it must exit 0 on the UNMODIFIED tree and 1 with your change applied.

DELIVERABLES - create the directory {wt}/seed_out and put there, for X in (A, B):
  {wt}/seed_out/patch_X.diff   output of `git diff -- src` with ONLY change X applied (so each patch applies alone to the unmodified tree with `git apply`)
  {wt}/seed_out/demo_X.py       the demonstration; it must work when run as: cd {wt} && PYTHONPATH={wt}/src:{wt} /venv/bin/python seed_out/demo_X.py
  {wt}/seed_out/notes_X.md      3-8 lines: what the change is, why it breaks the property, what it needs in order to manifest, and what you ran (suite before/after counts, demo exit codes with and without the change)
Workflow hint: make change A, run demo (expect exit 1) and the full suite, save the diff, then `git checkout -- src` and run the demo again (expect exit 0); repeat for B. Leave the worktree with NO change applied at the end (git checkout -- src), but keep seed_out/.
Finish with a short report (the two mechanisms, file/function touched, and the verification results). If you cannot find a second good change, deliver one.""")
