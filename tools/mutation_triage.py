"""Which survivors of tools/mutation_survey.py also pass the pinned test suite?

    /venv/bin/python tools/mutation_triage.py [survey.json] [--jobs 4]

A mutant that no check reports is only a blind spot if it is the kind of change the brief describes: one that "still compiles and
passes the existing tests".  This tool takes the survivors of a survey (skipping logging calls, help texts and the command line
plumbing), applies each to a throw-away copy of /repo (src and tests; never /repo itself), runs the tests of BASELINE.json's
stable_pass list on it with `-x`, and deletes the copy.  It prints the survivors that the tests do not kill either, per function:
these are read one by one - equivalent mutant, outside the twenty properties, or an obligation to add.
A test of the checkers; it decides no property and is not registered in MANIFEST.json.
"""
from __future__ import annotations

import json
import os
import re
import shutil
import subprocess
import sys
import tempfile
from concurrent.futures import ThreadPoolExecutor
from pathlib import Path

VERIF = Path(__file__).resolve().parent.parent
sys.path.insert(0, str(VERIF / 'tools'))
from mutation_survey import apply  # noqa: E402

SKIP_TEXT = re.compile(r"logger\.|cli_logger|help=|metavar|warnings\.warn|stacklevel|\.debug\(|\.info\(|add_argument|set_defaults|cast\(")
SKIP_FILES = ('cli/', '__init__.py', 'plot.py')


def stable_tests():
    base = json.load(open('/root/.vp/BASELINE.json'))['stable_pass']
    out = []
    for t in base:
        cls, name = t.split('::', 1)
        parts = cls.split('.')
        # tests.conventions.test_ugrid -> tests/conventions/test_ugrid.py ; classes inside modules are not used by this suite
        out.append('/'.join(parts) + '.py::' + name)
    return out


def run_one(job):
    r, tests = job
    scratch = Path(tempfile.mkdtemp(prefix='muttriage_', dir='/tmp'))
    try:
        shutil.copytree('/repo/src', scratch / 'src', ignore=shutil.ignore_patterns('__pycache__', '*.pyc', '*.egg-info'))
        shutil.copytree('/repo/tests', scratch / 'tests', ignore=shutil.ignore_patterns('__pycache__', '*.pyc'))
        for extra in ('pyproject.toml', 'setup.cfg', 'tox.ini', 'pytest.ini', 'conftest.py'):
            if Path('/repo', extra).exists():
                shutil.copy(Path('/repo', extra), scratch / extra)
        path = scratch / 'src' / 'emsarray' / r['file']
        text = path.read_text()
        site = {'span': tuple(r['span']), 'new': r['new'], 'operator': r['operator']}
        try:
            path.write_text(apply(text, site))
        except Exception as exc:      # the site moved since the survey (a fix: commit): skip
            return {**r, 'tests': f'not applied: {exc}'}
        env = dict(os.environ, PYTHONPATH=f"{scratch}/src", PYTHONDONTWRITEBYTECODE='1')
        p = subprocess.run(['/venv/bin/python', '-m', 'pytest', '-x', '-q', '-p', 'no:cacheprovider', '--timeout=900', '-n', '3', *tests],
                           cwd=scratch, env=env, stdout=subprocess.PIPE, stderr=subprocess.STDOUT, text=True, timeout=3000)
        tail = p.stdout.strip().splitlines()[-1] if p.stdout.strip() else ''
        return {**r, 'tests': 'pass' if p.returncode == 0 else 'killed', 'tail': tail[-160:]}
    finally:
        shutil.rmtree(scratch, ignore_errors=True)


def main():
    argv = sys.argv[1:]
    survey = next((a for a in argv if a.endswith('.json')), str(VERIF / 'seeded' / 'MUTATION_SURVEY.json'))
    jobs = int(argv[argv.index('--jobs') + 1]) if '--jobs' in argv else 4
    data = json.load(open(survey))
    cands = [r for r in data['results'] if r['status'] == 'survived' and not any(s in r['file'] for s in SKIP_FILES)
             and not SKIP_TEXT.search(r['what'])]
    tests = stable_tests()
    print(f"{len(cands)} survivors to run against {len(tests)} stable tests", flush=True)
    with ThreadPoolExecutor(max_workers=jobs) as ex:
        results = list(ex.map(run_one, [(r, tests) for r in cands]))
    alive = [r for r in results if r['tests'] == 'pass']
    print(f"killed by the tests: {sum(1 for r in results if r['tests'] == 'killed')}; pass the tests too: {len(alive)}; not applied: {sum(1 for r in results if r['tests'].startswith('not'))}")
    for r in sorted(alive, key=lambda r: (r['file'], r['function'], r['line'])):
        print(f"  {r['file']}:{r['function']}  L{r['line']} {r['operator']}: {r['what'][:170]}")
    out = Path(survey).with_name(Path(survey).stem + '_TRIAGE.json')
    out.write_text(json.dumps(results, indent=1) + '\n')


if __name__ == '__main__':
    main()
