"""tools/retire_seed.py <seed dir> <reason>: take a seeded change out of the replayed set (its patch is kept as
patch.retired.diff).  Used when a later `fix:` commit rewrote the code the change was made to and the change, or the
oracle of its demonstration, no longer means anything on the repaired tree."""
import json, subprocess, sys
from pathlib import Path
d = Path(sys.argv[1]); reason = sys.argv[2]
(d / 'patch.diff').rename(d / 'patch.retired.diff')
m = json.load(open(d / 'meta.json'))
head = subprocess.run(['git', '-C', '/repo', 'rev-parse', '--short', 'HEAD'], capture_output=True, text=True).stdout.strip()
m['retired'] = f"retired at /repo {head}: {reason}"
json.dump(m, open(d / 'meta.json', 'w'), indent=1)
print('retired', d.name)
