"""Regenerate /verif/MANIFEST.json from the per-property table below.

A property is claimed exactly when its rule module exists under emsverif/rules/.
    /venv/bin/python tools/gen_manifest.py
"""
import json
from pathlib import Path

VERIF = Path(__file__).resolve().parent.parent
PY = '/venv/bin/python'

# id -> (claim text, trusted base / not decided, technique)
TABLE = {
    'C01': ("Decides, for every grid shape, kind and convention at once, the structural premises from which the bijection follows: pack/unpack are mutual inverses (symbolic tuple algebra), both directions use the same grid_shape value in the same order, nothing wraps or clamps, kinds and dimension tables are exhaustive, the default kind is substituted only for None.",
            "Trusts numpy ravel_multi_index/unravel_index semantics (order='C', mode='raise') and xarray Dataset.sizes. Does not execute any index conversion.",
            "static analysis: symbolic tuple algebra + value-flow sameness over the AST"),
    'C02': ("Decides that every accessor (polygons, face centres, ravel, selectors, spatial index) derives position n from one dimension sequence through order-preserving operations, by abstract interpretation of the array-building code over labelled axes (merge order, corner axis, xy axis) and by value-flow pairing of gather/scatter selectors.",
            "Trusts numpy C-order reshape/stack/broadcast semantics, shapely.polygons(indices=, out=), STRtree positions. Stored coordinate variables are assumed to use the dimension order the code assumes where the code does not check it (Arakawa node/face arrays).",
            "static analysis: abstract interpretation over labelled array axes + value flow"),
    'C03': ("Decides the structure that makes ravel/wind inverse for all layouts: the moved dimensions are exactly the merged ones in sequence order, dims and shape are spliced at the same index, sizes follow the dimension order, values only pass through transpose/reshape/copy, unknown grids are refused on every path.",
            "Trusts numpy reshape and xarray transpose. Name collisions of a custom linear dimension are decided by xarray at run time and are not addressed.",
            "static analysis: value flow + operator-class queries + CFG exit analysis"),
    'C04': ("Decides the selection logic of the point lookup for every point and dataset: 'intersects' predicate on the point itself, minimum hit index, one cell in all three fields, None on a miss with no nearest fallback, spatial index over the uncompacted polygon array.",
            "Trusts GEOS 'intersects' and STRtree completeness/positions. Does not evaluate any geometry.",
            "static analysis: AST/CFG/value-flow rules on get_index_for_point, strtree, select_point"),
    'C05': ("Decides the selection and miss-policy logic: positional isel with the selector built by pairing column i with dimension i, geometry dropped first, variables filtered by selected dimensions, one lookup per point in order, 'error' names exactly the None positions, kept points and their labels come from the same filtered sequence, policy tables of library and CLI agree, outer merge iff 'fill'.",
            "Trusts xarray isel/merge/squeeze and pandas. Bit-for-bit value equality is not decided.",
            "static analysis: value-flow pairing + literal table agreement"),
    'C06': ("Decides the construction rules of cell polygons and extent: four-corner rings are Hamiltonian cycles of the unit square (any orientation), x comes from longitude and y from latitude, bounds acceptance guards and midpoint synthesis windows, lookups go through a namespace containing coordinates, optional attributes are read defensively in variable scans, the validity filter dominates publication, the extent is the bounding box of the polygons that exist with slots (min x, min y, max x, max y), the coordinates are found by CF's markers and every coordinate role is bound to its own name.",
            "Trusts GEOS validity, shapely.total_bounds (missing geometries are skipped) and numpy pad semantics. Self-intersection detection itself is not decided.",
            "static analysis: abstract interpretation (axes + index offsets) + CFG dominance + namespace lint"),
    'C07': ("Decides predicate and flat-write layout of the three make_clip_mask implementations, the centred symmetric dilation window of blur_mask for all sizes (linear forms), the Arakawa edge/node smear table, monotone (positive-polarity) mask construction, ring count, and sorted-unique renumbering of faces/edges/nodes.",
            "Trusts STRtree/GEOS, numpy pad/nditer order. Exhaustive small-array agreement with a definition would need execution and is not claimed.",
            "static analysis: linear-form index windows + polarity analysis + sortedness dataflow"),
    'C08': ("Decides routing and polarity of clipping: every data variable is masked and written, where(mask, other=fill) keeps selected cells, first-fit mask choice by dimension subset, same crop window for mask and dataset, half-open bounds, mesh row selection pairs each dimension with its own index table, only spatially selected coordinate collections reach the output, fill value preference order.",
            "Trusts xarray where/isel/open_mfdataset and netCDF round trips. Value equality after the round trip is not decided.",
            "static analysis: value flow + CFG (no skipping exits) + linear forms"),
    'C09': ("Decides writer/reader agreement of every connectivity table (same primary dimension, row table, column table as the topology normaliser), masked column handling, preservation of start_index/dtype/dimension order, completeness of the per-convention geometry inventory against the variables the geometry code reads, and that every supplied table is carried over under its own validity guard.",
            "Trusts xarray/netCDF. That the saved file reopens as the same convention needs the file and is not decided.",
            "static analysis: table agreement between sibling call sites + call-graph reachability of dataset handles"),
    'C10': ("Decides normalisation routing: one normaliser for every stored connectivity (transpose to primary dimension, three fill representations exhaustively, start_index in {0,1,'0','1'} subtracted), supplied tables used under their validity guard else derived, coordinate lookups by attribute name in the dataset-wide namespace, derived tables share one pair iterator with unordered-pair keys and symmetric face adjacency.",
            "Trusts numpy.ma semantics. Numerical content of tables is not decided.",
            "static analysis: who-may-read rule + exhaustive branch analysis + sibling agreement"),
    'C11': ("Decides determinism and stability of detection and binding: specificity table (subclasses outrank the generic conventions they also match, UGRID only after both of its tests), stable descending sort with registered conventions first, element 0 or refusal, detection reads no state but the dataset, State.convention has one writer reachable only behind the is_bound test, the accessor returns the bound object.",
            "Trusts xarray accessor caching (one accessor object per Dataset object, none for copies).",
            "static analysis: typestate / who-may-write over the call graph + CFG dominance + effect catalogue"),
    'C12': ("Decides only orientation/dimension agreement of the ocean floor reduction: normalisation constants dominate every later use, the reducer matches the normalised orientation (last valid layer = argmax of a cumulative valid count), one depth dimension throughout, depth dimensions dropped, optional time coordinate tolerated.",
            "NaN semantics of cumsum/argmax, all-NaN columns and static-floor assumptions are numerical run-time facts and are NOT decided; this is a necessary condition only.",
            "static analysis: constant/argument pairing + must-precede on the CFG"),
    'C13': ("Decides purity (no write through any alias of the input), that the flip decision reads the original attribute, coordinate and bounds flip under the same guard, the reversal is applied to the whole dataset along the coordinate's dimension, and unset options leave their aspect untouched (guards that also give idempotence).",
            "Trusts xarray copy/assign/isel. Idempotence as such and guessed-sign correctness are not decided.",
            "static analysis: alias/effect analysis + guard dominance"),
    'C14': ("Decides only dispatch, pairing and counting of triangulation: concave cells removed from the bulk path are exactly those sent to ear clipping, fan windows v1=[1,n-1) v2=[2,n) of equal length, labels come from the index array that gathered the polygons, preallocation and final cursor agree, vertex columns k pair x<k>,y<k> with join keys.",
            "Containment, non-overlap and exact cover are geometry computed by GEOS at run time and are NOT decided.",
            "static analysis: value-flow sameness + linear-form slices"),
    'C15': ("Decides sibling agreement of the four writers (same iteration, same `is not None` filter), that the recorded linear index and the wind_index argument are the loop's own enumerate index, explicit coordinate precision for serialisers that round by default, and CLI format tables.",
            "Trusts geojson/pyshp/shapely serialisers. Reading files back is not performed.",
            "static analysis: sibling agreement + default-argument lint against library defaults"),
    'C16': ("Decides that only geometry variables reach the digest (no other dataset read), that name, dtype, size, shape, bytes and attributes of every geometry variable are fed length-prefixed, that each convention's inventory covers the variables its geometry code reads, and that no process-dependent byte source reaches hash.update.",
            "Trusts hashlib and numpy tobytes. marshal-based attribute hashing is a recorded known finding.",
            "static analysis: taint/effect catalogue over the closure of make_cache_key + inventory reachability"),
    'C17': ("Decides the offset format (sign-magnitude: abs before divmod; writer language [+-]dd:dd within the reader grammar), re-parse check dominating the return, copy-then-suppress-fill-then-write ordering, time-unit rewrite after the write, exception classes agreeing between raiser and handlers.",
            "Trusts cftime's time-zone grammar (checked once against cftime 1.6.5) and netCDF4. Round-trip value identity is not decided.",
            "static analysis: format-spec language vs regex + taint (abs sanitiser) + CFG ordering"),
    'C18': ("Decides only pairing and ordering of transect segments: linear index, native index and polygon come from the same loop value of the 'intersects' hits, start/end sorted by distance, segments sorted by (start, end), distance bounds and linear indexes iterate the same unfiltered segment list, plotting nests depth then index like the flattening.",
            "Segment geometry, lengths and distances are GEOS/cartopy run-time facts and are NOT decided.",
            "static analysis: value-flow pairing + loop-nest order"),
    'C19': ("Decides value/cell pairing of plot artists: values and polygons are indexed by the same mask, default colour limits come from the masked values, leftover dimensions are refused before any artist is built, quiver positions/components pair face centres with ravelled components, animation frames use the same mask on the last axis.",
            "Trusts matplotlib pairing array[k] with verts[k].",
            "static analysis: value-flow sameness + guard dominance"),
    'C20': ("Decides the bounds grammar is anchored at both ends with exactly four numbers, JSON and file fallbacks are ordered and every failure raises ArgumentTypeError, every error handler exits non-zero, format/choice tables agree with the library, handlers pass parsed options unmodified to the library entry points.",
            "Trusts argparse, json, shapely.shape. File content equality is not decided.",
            "static analysis: regex AST + literal table agreement + CFG exits of handlers"),
}

TITLES = {}
for line in (VERIF / 'properties.jsonl').read_text().splitlines():
    if line.strip():
        rec = json.loads(line)
        TITLES[rec['id']] = rec['title']

checks = []
not_applicable = []
for pid in sorted(TABLE):
    text, note, technique = TABLE[pid]
    if (VERIF / 'emsverif' / 'rules' / f"{pid.lower()}.py").exists():
        checks.append({
            'property_id': pid,
            'quick_cmd': f"{PY} -m emsverif check {pid} --tier quick",
            'thorough_cmd': f"{PY} -m emsverif check {pid} --tier thorough",
            'evidence_file': f"/verif/evidence/{pid}.json",
            'replay_cmd_template': "cat {path}",
            'engine': 'emsverif',
            'level_claimed': {
                'category': 'other',
                'text': text + " Static obligations, established for all inputs at once from the source; a necessary structural condition of the property, not an execution of it.",
                'design_ref': f"DESIGN.md section 4, {pid}",
            },
            'level_note': note,
            'technique': technique,
        })
    else:
        not_applicable.append({'property_id': pid, 'reason': 'rule module not built yet in this session (planned: see DESIGN.md section 4); no claim is made until it exists'})

manifest = {
    'version': 1,
    'setup_cmd': f"{PY} -m emsverif setup",
    'hooks': {
        'guard': 'EMSARRAY_VERIF',
        'enable': 'no hooks: the checks are static and never run emsarray; the guard name is reserved and unused',
        'baseline_off_cmd': 'cd /repo && /venv/bin/python -m pytest -ra -q -p no:cacheprovider --timeout=900 --continue-on-collection-errors',
        'source_commits': [],
        'add_only': True,
    },
    'engines': [{
        'name': 'emsverif',
        'path': '/verif/emsverif',
        'serves_properties': [c['property_id'] for c in checks],
        'kind_free_text': 'repository-specific static analyser (stdlib ast): program model, receiver typing, call graph, statement CFG with dominators, reaching definitions / canonical value forms, abstract interpretation over labelled array axes and linear index forms, regex/format languages, effect catalogue',
    }],
    'checks': checks,
    'notes': 'All checks: exit 0 = every obligation discharged (KNOWN-FINDING lines for listed findings), exit 1 + VIOLATION line, exit 2 + ANALYSIS-ERROR when the analysis cannot stand. Thorough tier adds the checker self-test (scratch-copy variants) and deeper audits. Known findings: /verif/known_findings.json.',
    'not_applicable': not_applicable,
}
(VERIF / 'MANIFEST.json').write_text(json.dumps(manifest, indent=1) + '\n')
print(f"claimed {len(checks)}, not applicable {len(not_applicable)}")
