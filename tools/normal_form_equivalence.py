"""tools/normal_form_equivalence.py: differential test of the analyser's normal forms.

The rules of emsverif judge *normalised* function bodies (emsverif/inline.py: some sixty rewrites).  A rewrite that is not
an equivalence is an unsound analyser: a defect could be normalised away (round 6 found one: a sequence pattern read as
unconditional unpacking).  This tool copies emsverif/normal_form_corpus.py into a scratch package laid out like the
repository (src/emsarray/corpus.py), lets the same `Program` that reads /repo normalise it, and then runs every corpus
function in its original and in its normalised text on the recorded inputs: same result or same exception (type and
message), same final state of the arguments.

It executes the corpus only - synthetic functions written for this purpose - never emsarray.  It tests the analyser; it
decides no property.  Exit 0 when every function agrees on every input and every normal form of the pipeline was
exercised at least once (or is listed in NOT_EXERCISED with a reason); exit 1 otherwise."""
from __future__ import annotations

import ast
import copy
import shutil
import sys
import tempfile
from pathlib import Path

ROOT = Path(__file__).resolve().parent.parent
sys.path.insert(0, str(ROOT))

# normal forms the corpus cannot exercise, with the reason (kept short; everything else must apply at least once)
NOT_EXERCISED = {
    'normalise_iteration': "kept for trees where the earlier forms do not apply; on the corpus comprehension fusion and projected loops, which run first, rewrite the same shapes",
    'strip_logging': "logging calls have no result to compare (they are removed because rules never ask about them)",
}


def _freeze(v):
    import numpy
    if isinstance(v, numpy.ndarray):
        return ('ndarray', str(v.dtype), v.shape, repr(v.tolist()))
    if isinstance(v, (list, tuple)):
        return (type(v).__name__, [_freeze(x) for x in v])
    if isinstance(v, dict):
        return ('dict', [(_freeze(k), _freeze(x)) for k, x in v.items()])
    if isinstance(v, (set, frozenset)):
        return (type(v).__name__, sorted(repr(_freeze(x)) for x in v))
    if hasattr(v, '__dict__') and type(v).__module__ not in ('builtins',):
        return (type(v).__name__, sorted((k, repr(_freeze(x)) if not hasattr(x, '__dict__') else type(x).__name__) for k, x in vars(v).items()))
    return repr(v)


def _run(fn, args):
    args = copy.deepcopy(args)
    try:
        out = ('ok', _freeze(fn(*args)))
    except Exception as exc:      # noqa: BLE001 - the comparison is the point
        out = ('raise', type(exc).__name__, str(exc))
    return out, _freeze(list(args))


def main() -> int:
    from emsverif.model import Program
    scratch = Path(tempfile.mkdtemp(prefix='nfeq_', dir='/tmp'))
    try:
        pkg = scratch / 'src' / 'emsarray'
        pkg.mkdir(parents=True)
        (pkg / '__init__.py').write_text('')
        source = (ROOT / 'emsverif' / 'normal_form_corpus.py').read_text()
        (pkg / 'corpus.py').write_text(source)
        prog = Program(str(scratch))
        import types
        mod = types.ModuleType('corpus_original')
        sys.modules['corpus_original'] = mod        # (dataclasses look their module up by name)
        ns_orig = mod.__dict__
        exec(compile(source, 'corpus_original', 'exec'), ns_orig)
        cases = ns_orig['CASES']
        failures = []
        compared = 0
        functions = 0
        changed = 0
        for qual, inputs in sorted(cases.items()):
            fi = prog.functions.get(f"emsarray.corpus.{qual}")
            if fi is None:
                failures.append(f"{qual}: not found in the normalised program")
                continue
            node = copy.deepcopy(fi.node)
            node.decorator_list = []
            text = ast.unparse(ast.fix_missing_locations(node))
            orig_node = None
            for n in ast.walk(ast.parse(source)):
                if isinstance(n, ast.FunctionDef) and n.name == qual.rsplit('.', 1)[-1]:
                    orig_node = n
            if orig_node is not None and ast.unparse(orig_node) != text:
                changed += 1
            ns_new = dict(ns_orig)
            try:
                exec(compile(text, f"normalised:{qual}", 'exec'), ns_new)
            except SyntaxError as exc:
                failures.append(f"{qual}: the normalised text does not compile: {exc}\n{text}")
                continue
            new_fn = ns_new[qual.rsplit('.', 1)[-1]]
            if '.' in qual:
                cls, meth = qual.split('.')
                old_fn = getattr(ns_orig[cls], meth)
            else:
                old_fn = ns_orig[qual]
            functions += 1
            for args in inputs:
                a = _run(old_fn, args)
                b = _run(new_fn, args)
                compared += 1
                if a != b:
                    failures.append(f"{qual}{tuple(args)!r}:\n    original   -> {a}\n    normalised -> {b}\n    normalised text:\n" + '\n'.join('      ' + l for l in text.splitlines()))
        assumed = []
        for qual, inputs in sorted(ns_orig.get('ASSUMED_CASES', {}).items()):
            fi = prog.functions.get(f"emsarray.corpus.{qual}")
            node = copy.deepcopy(fi.node)
            node.decorator_list = []
            ns_new = dict(ns_orig)
            exec(compile(ast.unparse(ast.fix_missing_locations(node)), f"normalised:{qual}", 'exec'), ns_new)
            for args in inputs:
                a, b = _run(ns_orig[qual], args), _run(ns_new[qual], args)
                assumed.append((qual, a == b))
        applied = {k for k, v in prog.normal_forms.items() if v}
        if prog.inlined:
            applied.add('Inliner')
        import re
        model_src = (ROOT / 'emsverif' / 'model.py').read_text()
        pipeline = set(re.findall(r"_count\('([a-z_]+)'", model_src))
        idle = sorted(pipeline - applied - set(NOT_EXERCISED))
        print(f"normal-form equivalence: {functions} corpus functions ({changed} rewritten), {compared} input cases, "
              f"{len(applied & pipeline)} of {len(pipeline)} normal forms exercised, helpers inlined: {len(prog.inlined)}")
        print(f"  inputs outside the stated assumption (attribute dictionaries hold no None values): {sum(1 for _, same in assumed if not same)} of {len(assumed)} differ, as expected of an assumption")
        for name in idle:
            print(f"  NOT EXERCISED: {name}")
        for f in failures:
            print(f"  DISAGREEMENT: {f}")
        return 1 if failures or idle else 0
    finally:
        shutil.rmtree(scratch, ignore_errors=True)


if __name__ == '__main__':
    sys.exit(main())
