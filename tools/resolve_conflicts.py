"""tools/resolve_conflicts.py <file> <resolution file>: replace the conflict blocks of <file>, in order, by the blocks of the
resolution file (separated by lines consisting of '%%')."""
import re, sys
path, res = sys.argv[1:3]
blocks = [b.strip('\n') + '\n' for b in open(res).read().split('\n%%\n')]
s = open(path).read()
pat = re.compile(r'<<<<<<< ours\n.*?>>>>>>> theirs\n', re.S)
found = pat.findall(s)
assert len(found) == len(blocks), (len(found), len(blocks))
it = iter(blocks)
s = pat.sub(lambda m: next(it), s)
open(path, 'w').write(s)
