"""Run every check (quick tier) against every kept seeded change and tabulate which fire.

    /venv/bin/python tools/sweep_seeds.py [--jobs 16] [ids...]

Each patch is applied to a throw-away copy of /repo/src under /tmp (never to /repo itself),
analysed statically, and the copy is deleted.  Writes seeded/SWEEP.json and prints a table.
"""
import contextlib
import io
import json
import os
import shutil
import subprocess
import sys
import tempfile
from concurrent.futures import ProcessPoolExecutor
from pathlib import Path

VERIF = Path(__file__).resolve().parent.parent
sys.path.insert(0, str(VERIF))
ALL = [f"C{n:02d}" for n in range(1, 21)]


def one(seed_dir: str) -> dict:
    from emsverif.__main__ import run_property
    sd = Path(seed_dir)
    sid = sd.name
    scratch = Path(tempfile.mkdtemp(prefix=f"sweep_{sid}_", dir='/tmp'))
    try:
        shutil.copytree(os.environ.get('EMSVERIF_SWEEP_BASE', '/repo/src'), scratch / 'src', ignore=shutil.ignore_patterns('__pycache__', '*.pyc', '*.egg-info'))
        r = subprocess.run(['git', 'apply', str(sd / 'patch.diff')], cwd=scratch, capture_output=True, text=True)
        how = 'git apply'
        if r.returncode != 0:
            r = subprocess.run(['patch', '-p1', '--fuzz=0', '-i', str(sd / 'patch.diff')], cwd=scratch, capture_output=True, text=True)
            how = 'patch --fuzz=0'
        if r.returncode != 0:
            return {'id': sid, 'path': str(sd), 'applied': False, 'error': (r.stdout + r.stderr)[-300:]}
        fired = {}
        import time as _t
        t0 = _t.time()
        from emsverif.model import Program
        try:
            prog = Program(str(scratch))
        except Exception:
            prog = None
        for pid in ALL:
            buf = io.StringIO()
            with contextlib.redirect_stdout(buf):
                rc = run_property(pid, str(scratch), 'quick', 0, write_evidence=False, replay_dir=scratch / 'replay', program=prog)
            if rc != 0:
                out = buf.getvalue()
                rules = sorted({l.split()[1] for l in out.splitlines() if l.strip().startswith('VIOLATED ')})
                fired[pid] = {'rc': rc, 'rules': rules, 'error': [l for l in out.splitlines() if 'ANALYSIS-ERROR' in l][:1]}
        prop = sid.split('-')[0]
        print(f"  swept {sid} in {_t.time() - t0:.0f}s", file=sys.stderr, flush=True)
        return {'id': sid, 'path': str(sd), 'applied': True, 'how': how, 'fired': fired,
                'detected_by_own_property': fired.get(prop, {}).get('rc') == 1,
                'detected': any(v['rc'] == 1 for v in fired.values())}
    finally:
        shutil.rmtree(scratch, ignore_errors=True)


def main():
    args = [a for a in sys.argv[1:] if not a.startswith('--')]
    jobs = 16
    seeds = sorted(str(p) for p in (VERIF / 'seeded').iterdir() if (p / 'patch.diff').exists() and (not args or p.name in args))
    bdir = VERIF / 'seeded' / 'benign'
    benign = sorted(str(p) for p in bdir.iterdir() if (p / 'patch.diff').exists() and (not args or p.name in args)) if bdir.exists() else []
    seeds = seeds + benign
    # one snapshot of /repo/src for the whole sweep: /repo may be edited while it runs
    base = Path(tempfile.mkdtemp(prefix='sweep_base_', dir='/tmp'))
    shutil.copytree('/repo/src', base / 'src', ignore=shutil.ignore_patterns('__pycache__', '*.pyc', '*.egg-info'))
    os.environ['EMSVERIF_SWEEP_BASE'] = str(base / 'src')
    try:
        with ProcessPoolExecutor(max_workers=jobs) as ex:
            results = list(ex.map(one, seeds))
    finally:
        shutil.rmtree(base, ignore_errors=True)
    bnames = {Path(b).name for b in benign}
    write = not args
    for r in results:
        r['benign'] = Path(r['path']).parent.name == 'benign'
    real = [r for r in results if not r['benign']]
    det = sum(1 for r in real if r.get('detected'))
    own = sum(1 for r in real if r.get('detected_by_own_property'))
    for r in results:
        if r['benign']:
            if not r.get('applied'):
                print(f"{r['id']:9s} benign  PATCH DOES NOT APPLY")
                continue
            f = '; '.join(f"{k}:{'/'.join(v['rules']) or ('ERR' if v['rc'] == 2 else '?')}" for k, v in r['fired'].items())
            print(f"{r['id']:9s} benign  {'silent' if not r['fired'] else 'FALSE ALARM ' + f}")
            continue
        if not r.get('applied'):
            print(f"{r['id']:8s} PATCH DOES NOT APPLY {r.get('error', '')[:100]}")
            continue
        f = '; '.join(f"{k}:{'/'.join(v['rules']) or ('ERR' if v['rc'] == 2 else '?')}" for k, v in r['fired'].items())
        print(f"{r['id']:8s} {'DETECTED' if r['detected'] else 'missed  '} {'(own)' if r['detected_by_own_property'] else '     '} {f}")
    print(f"{len(real)} seeded changes: {det} detected by some check, {own} by the check of their own property")
    if write:
        (VERIF / 'seeded' / 'SWEEP.json').write_text(json.dumps(results, indent=1) + '\n')
    b = [r for r in results if r['benign']]
    if b:
        print(f"{len(b)} behaviour-preserving refactorings: {sum(1 for r in b if r.get('applied') and not r['fired'])} silent, "
              f"{sum(1 for r in b if r.get('fired'))} false alarms")


if __name__ == '__main__':
    main()
