"""Record the qualified names of every function of the reference tree (see emsverif/inline.py)."""
import json, sys
from pathlib import Path
sys.path.insert(0, str(Path(__file__).resolve().parent.parent))
from emsverif.model import Program
p = Program('/repo', normalise=False)
names = sorted(q for q, f in p.functions.items() if f.parent is None)
# module level names as well: a literal moved to a NEW module constant is read as the literal (inline.normalise_module_constants)
names = sorted(set(names) | {f"{m.name}.{k}" for m in p.modules.values() for k in m.assigns})
# ... and class level names: a literal moved to a NEW class attribute likewise (inline.normalise_class_constants)
names = sorted(set(names) | {f"{c.qualname}.{k}" for c in p.classes.values() for k in list(c.attrs) + list(c.annotations)})
# ... and the classes themselves: a record class the reviewed tree did not have is read as the tuple it stands for (inline.record_classes_of)
names = sorted(set(names) | set(p.classes))
(Path(__file__).resolve().parent.parent / 'emsverif' / 'reference_functions.json').write_text(json.dumps(names, indent=0) + '\n')
print(len(names), 'functions recorded')

# parameters and callers of every function of the reviewed tree: a private helper that is renamed or moved is recognised against these
# (emsverif/renames.py)
import ast as _ast
from emsverif.renames import callers_by_simple_name, param_count
callers = callers_by_simple_name(p)
details = {}
for q, f in p.functions.items():
    simple = q.rsplit('.', 1)[-1]
    details[q] = {'params': param_count(f.node), 'callers': sorted(callers.get(simple, set()) - {q}), 'nested': f.parent is not None}
details['__imports__'] = {m.name: dict(m.imports) for m in p.modules.values()}
(Path(__file__).resolve().parent.parent / 'emsverif' / 'reference_details.json').write_text(json.dumps(details, indent=0, sort_keys=True) + '\n')
print(len(details), 'function details recorded')
