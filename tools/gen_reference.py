"""Record the qualified names of every function of the reference tree (see emsverif/inline.py)."""
import json, sys
from pathlib import Path
sys.path.insert(0, str(Path(__file__).resolve().parent.parent))
from emsverif.model import Program
p = Program('/repo', normalise=False)
names = sorted(q for q, f in p.functions.items() if f.parent is None)
(Path(__file__).resolve().parent.parent / 'emsverif' / 'reference_functions.json').write_text(json.dumps(names, indent=0) + '\n')
print(len(names), 'functions recorded')
