"""tools/show_norm.py <patch or -> <qualname> [props...]: apply a patch to a scratch copy of /repo/src, print the normalised
source of one function as the rules see it, and the violations of the given properties."""
import sys, subprocess, tempfile, shutil, io, contextlib, ast
from pathlib import Path
sys.path.insert(0, '/verif')
patch, qual = sys.argv[1], sys.argv[2]
props = sys.argv[3:]
scratch = Path(tempfile.mkdtemp(prefix='sn_', dir='/tmp'))
try:
    shutil.copytree('/repo/src', scratch / 'src', ignore=shutil.ignore_patterns('__pycache__', '*.egg-info'))
    if patch != '-':
        r = subprocess.run(['git', 'apply', patch], cwd=scratch, capture_output=True, text=True)
        assert r.returncode == 0, r.stderr
    from emsverif.model import Program
    from emsverif.__main__ import run_property
    prog = Program(str(scratch))
    for q in qual.split(','):
        fi = prog.functions.get(q) or prog.functions.get('emsarray.' + q)
        print(f"--- {q}" + ('' if fi else ' (absent)'))
        if fi:
            src = ast.unparse(fi.node)
            body = src.split('"""')
            print(body[0] + (body[2] if len(body) > 2 else ''))
    print('inlined:', getattr(prog, 'inlined', None))
    for pid in props:
        buf = io.StringIO()
        with contextlib.redirect_stdout(buf):
            rc = run_property(pid, str(scratch), 'quick', 0, write_evidence=False, replay_dir=scratch / 'replay', program=prog)
        for l in buf.getvalue().splitlines():
            if 'VIOLATED' in l or 'ANALYSIS' in l:
                print(l.strip()[:600])
finally:
    shutil.rmtree(scratch, ignore_errors=True)
