#!/bin/bash
# verify every delivered seed under /tmp/seed_C*/seed_out that has no result yet (parallel, max 6 at a time)
cd /verif
for d in /tmp/seed_C*/seed_out; do
  prop=$(basename $(dirname $d) | sed 's/seed_//')
  for X in A B; do
    x=$(echo $X | tr 'AB' 'ab')
    [ -f $d/patch_$X.diff ] || continue
    [ -f /tmp/vs_${prop}${x}.json ] && continue
    echo "verifying $prop $x"
    ( /venv/bin/python tools/verify_seed.py $prop $x $d/patch_$X.diff $d/demo_$X.py $d/notes_$X.md > /tmp/vs_${prop}${x}.json 2>&1 ) &
    while [ $(jobs -r | wc -l) -ge 6 ]; do sleep 2; done
  done
done
wait
