"""For every `fixed:` entry of known_findings.json: undo that one fix: commit on a throw-away copy of /repo/src at HEAD
and record which checks fire.  A fixed entry suppresses nothing, so the defect coming back must be reported by the
property it is recorded under.

    /venv/bin/python tools/revert_sweep.py            # writes seeded/REVERTS.json and prints a table
"""
import contextlib, io, json, os, re, shutil, subprocess, sys, tempfile
from concurrent.futures import ProcessPoolExecutor
from pathlib import Path

VERIF = Path(__file__).resolve().parent.parent
sys.path.insert(0, str(VERIF))
ALL = [f"C{n:02d}" for n in range(1, 21)]
#: commits that also introduced a helper that later fixes use: only the part that is the repair itself is undone
ONLY = {'a62fac5': ['src/emsarray/conventions/_base.py']}


def one(args):
    prop, commit, base = args
    from emsverif.__main__ import run_property
    from emsverif.model import Program
    scratch = Path(tempfile.mkdtemp(prefix=f"revert_{commit}_", dir='/tmp'))
    try:
        shutil.copytree(base, scratch / 'src', ignore=shutil.ignore_patterns('__pycache__', '*.pyc', '*.egg-info'))
        diff = subprocess.run(['git', '-C', '/repo', 'diff', f"{commit}^", commit, '--'] + ONLY.get(commit, ['src']), capture_output=True, text=True).stdout
        r = subprocess.run(['git', 'apply', '-R', '-'], input=diff, cwd=scratch, capture_output=True, text=True)
        if r.returncode != 0:
            return {'property': prop, 'commit': commit, 'reverted': False, 'why': 'later commits changed the same lines: the reverse patch does not apply to HEAD'}
        prog = Program(str(scratch))
        fired = {}
        for pid in ALL:
            buf = io.StringIO()
            with contextlib.redirect_stdout(buf):
                rc = run_property(pid, str(scratch), 'quick', 0, write_evidence=False, replay_dir=scratch / 'replay', program=prog)
            if rc != 0:
                out = buf.getvalue()
                fired[pid] = {'rc': rc, 'rules': sorted({l.split()[1] for l in out.splitlines() if l.strip().startswith('VIOLATED ')})}
        return {'property': prop, 'commit': commit, 'reverted': True, 'fired': fired, 'own': fired.get(prop, {}).get('rc') == 1}
    finally:
        shutil.rmtree(scratch, ignore_errors=True)


def main():
    d = json.load(open(VERIF / 'known_findings.json'))
    jobs = []
    base = Path(tempfile.mkdtemp(prefix='revert_base_', dir='/tmp'))
    shutil.copytree('/repo/src', base / 'src', ignore=shutil.ignore_patterns('__pycache__', '*.pyc', '*.egg-info'))
    for e in d['fixed']:
        m = re.match(r"fixed: property=(C\d\d) ([0-9a-f]{7})", e)
        jobs.append((m.group(1), m.group(2), str(base / 'src')))
    try:
        with ProcessPoolExecutor(16) as ex:
            res = list(ex.map(one, jobs))
    finally:
        shutil.rmtree(base, ignore_errors=True)
    (VERIF / 'seeded' / 'REVERTS.json').write_text(json.dumps(res, indent=1) + '\n')
    for r in res:
        if not r['reverted']:
            print(f"{r['commit']} {r['property']}  NOT REVERTIBLE ON HEAD ({r['why']})")
        else:
            f = '; '.join(f"{k}:{'/'.join(v['rules']) or ('ERR' if v['rc'] == 2 else '?')}" for k, v in r['fired'].items())
            print(f"{r['commit']} {r['property']}  {'DETECTED (own)' if r['own'] else ('detected elsewhere' if r['fired'] else 'MISSED')}  {f[:200]}")
    rv = [r for r in res if r['reverted']]
    print(f"{len(res)} fixes: {len(rv)} reverted on HEAD, {sum(1 for r in rv if r['own'])} reported by their own property, {sum(1 for r in rv if not r['fired'])} missed")


if __name__ == '__main__':
    main()
