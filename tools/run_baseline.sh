#!/bin/bash
# run the pinned suite on /repo's working tree and compare with BASELINE stable_pass
out=/tmp/baseline_$$.xml
cd /repo && /venv/bin/python -m pytest -ra -q -p no:cacheprovider --timeout=900 --continue-on-collection-errors -n 8 --junitxml=$out >/tmp/baseline_$$.log 2>&1 || true
/venv/bin/python - "$out" <<'P'
import json, sys, xml.etree.ElementTree as ET
base = set(json.load(open('/root/.vp/BASELINE.json'))['stable_pass'])
passed = set()
for tc in ET.parse(sys.argv[1]).getroot().iter('testcase'):
    if not any(c.tag in ('failure', 'error', 'skipped') for c in tc):
        passed.add(f"{tc.get('classname')}::{tc.get('name')}")
missing = sorted(base - passed)
print(f"stable_pass {len(base)}; passing now {len(base & passed)}; missing {len(missing)}")
for m in missing: print("  MISSING", m)
sys.exit(1 if missing else 0)
P
rc=$?
rm -f $out /tmp/baseline_$$.log; exit $rc
