"""F-C17-3: a SHOC simple dataset that has the `time` dimension but no `time` variable reported a phantom time
coordinate (xarray makes up dataset["time"] for a bare dimension) and `dataset.ems.to_netcdf` raised after writing.

Run:  PYTHONPATH=/repo/src:/repo /venv/bin/python /verif/triage/repro_c17_phantom_time.py    exit 1 = defect present.
"""
import sys, tempfile, pathlib, warnings
import numpy, xarray
import emsarray
warnings.simplefilter('ignore')
from tests.conventions.test_cfgrid2d import make_dataset
ds = make_dataset(j_size=4, i_size=5)
print(type(ds.ems).__name__, 'time' in ds.variables)
ds2 = ds.drop_vars('time')
print('after dropping the time variable: dims', dict(ds2.sizes), "'time' in variables:", 'time' in ds2.variables)
try:
    print('time_coordinate ->', ds2.ems.time_coordinate.name, ds2.ems.time_coordinate.values[:3])
except Exception as e:
    print('time_coordinate raises', type(e).__name__)
with tempfile.TemporaryDirectory() as d:
    try:
        ds2.ems.to_netcdf(pathlib.Path(d) / 'out.nc')
        print("saved fine"); sys.exit(0)
    except Exception as e:
        print('to_netcdf RAISED', type(e).__name__, str(e)[:120], '| file written:', (pathlib.Path(d)/'out.nc').exists()); sys.exit(1)
