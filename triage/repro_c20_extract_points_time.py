"""F-C20-2: `emsarray extract-points` fails (exit 3) after writing its output when the dataset's
time variable is a plain data variable without spatial dimensions: point extraction drops that
variable, and the command then asks to_netcdf_with_fixes to fix the units of a variable that is
not in the file.  The library call (extract_dataframe + to_netcdf) succeeds on the same input.

Run:  PYTHONPATH=/repo/src:/repo /venv/bin/python /verif/triage/repro_c20_extract_points_time.py
exit 1 = defect present.
"""
import pathlib
import sys
import tempfile

import numpy
import pandas
import xarray

import emsarray
from emsarray.cli import main
from emsarray.operations import point_extraction

with tempfile.TemporaryDirectory() as d:
    d = pathlib.Path(d)
    time = xarray.DataArray(numpy.arange(3.0), dims=['record'], attrs={'units': 'days since 1990-01-01 00:00:00 +10'})
    ds = xarray.Dataset({
        't': time,     # CF time variable, a data variable (nothing names it in a `coordinates` attribute)
        'temp': (('record', 'lat', 'lon'), numpy.arange(3 * 4 * 5.0).reshape(3, 4, 5)),
    }, coords={
        'lat': ('lat', numpy.arange(4.0), {'units': 'degrees_north', 'standard_name': 'latitude'}),
        'lon': ('lon', numpy.arange(5.0), {'units': 'degrees_east', 'standard_name': 'longitude'}),
    }, attrs={'Conventions': 'CF-1.4'})
    ds.to_netcdf(d / 'in.nc')
    pandas.DataFrame({'lon': [1.0, 2.0], 'lat': [1.0, 3.0]}).to_csv(d / 'points.csv', index=False)

    opened = emsarray.open_dataset(d / 'in.nc')
    print('time coordinate:', opened.ems.time_coordinate.name, '| is an xarray coordinate:', 't' in opened.coords)
    lib = point_extraction.extract_dataframe(opened, pandas.read_csv(d / 'points.csv'), ('lon', 'lat'))
    print('library result variables:', sorted(lib.variables))

    try:
        main([ 'extract-points', str(d / 'in.nc'), str(d / 'points.csv'), str(d / 'out.nc')])
        rc = 0
    except SystemExit as exc:
        rc = exc.code
    print('command exit status:', rc, '| output written:', (d / 'out.nc').exists())
    sys.exit(1 if rc not in (0, None) else 0)
