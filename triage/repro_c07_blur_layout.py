"""F-C07-2: masking.blur_mask scrambled its result for arrays that are not C contiguous (numpy.nditer
iterates in memory order by default, the results are reshaped in C order).

Run:  PYTHONPATH=/repo/src /venv/bin/python /verif/triage/repro_c07_blur_layout.py     exit 1 = defect present.
"""
import sys

import numpy

from emsarray.masking import blur_mask

a = numpy.zeros((4, 6), bool)
a[1, 4] = True
c = blur_mask(a, size=1)
f = blur_mask(numpy.asfortranarray(a), size=1)
print(c.astype(int))
print(f.astype(int))
print('same result for C and Fortran ordered input:', bool((c == f).all()))
sys.exit(0 if (c == f).all() else 1)
