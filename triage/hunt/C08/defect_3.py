"""A packed integer variable without a fill value cannot hold a missing value: clip must crop it and leave it alone.
After utils.disable_default_fill_value(dataset) (a public helper that works in place) the encoding holds `_FillValue: None`,
find_fill_value reads the *presence* of the key as "has a fill value" and the clip blanks the variable with nan."""
import sys, tempfile, pathlib, numpy, xarray, dask
import shapely
import emsarray
from emsarray import utils
dask.config.set(scheduler='synchronous')
lat = numpy.arange(4.0); lon = numpy.arange(5.0)
vals = numpy.arange(20.0).reshape(4, 5) / 2 + 1
ds = xarray.Dataset({
    'packed': (('lat', 'lon'), vals), 'plain': (('lat', 'lon'), vals.copy()),
}, coords={'lat': ('lat', lat, {'standard_name': 'latitude', 'units': 'degrees_north'}),
           'lon': ('lon', lon, {'standard_name': 'longitude', 'units': 'degrees_east'})})
ds['packed'].encoding.update({'dtype': 'int16', 'scale_factor': 0.5})
region = shapely.Polygon([(-0.4, -0.4), (3.4, -0.4), (3.4, 0.4), (0.4, 0.4), (0.4, 2.4), (-0.4, 2.4)])   # an L
bad = 0
for label, prepare in (('as built', lambda d: None), ('after disable_default_fill_value', utils.disable_default_fill_value)):
    d = ds.copy(deep=True)
    for n in d.variables: d[n].encoding = dict(ds[n].encoding)
    prepare(d)
    with tempfile.TemporaryDirectory() as tmp:
        clipped = d.ems.clip(region, pathlib.Path(tmp))
        got = clipped['packed'].values
        want = d['packed'].sel(lat=clipped['lat'], lon=clipped['lon']).values
        same = numpy.array_equal(got, want, equal_nan=False)
        print(f"{label}: packed variable unaltered: {same}; nan cells: {int(numpy.isnan(got).sum())}")
        bad += 0 if same else 1
sys.exit(1 if bad else 0)
