"""
C08 - a packed integer variable without a _FillValue gets fabricated values
in the cells outside the clip region.

The dataset is opened normally. xarray decodes an int16 variable that has
scale_factor/add_offset but no _FillValue to floating point; its encoding keeps
dtype=int16 and no fill value.  mask_grid_data_array() blanks the unselected
cells with NaN and mask_grid_dataset() writes the variable to the work file with
the int16 encoding.  NaN can not be stored, is cast to an arbitrary integer,
and is read back as an ordinary number.
"""
import pathlib
import sys
import tempfile
import warnings

import dask
import numpy
import xarray
from shapely.geometry import Polygon

import emsarray  # noqa: F401

dask.config.set(scheduler='synchronous')
warnings.simplefilter('ignore')

ny, nx = 5, 6
values = (numpy.arange(ny * nx).reshape(ny, nx) + 1) * 0.5 + 100.0

dataset = xarray.Dataset(
    {
        'packed': (('lat', 'lon'), values),
        'plain': (('lat', 'lon'), values.copy()),
    },
    coords={
        'lat': ('lat', numpy.arange(ny, dtype=float), {'units': 'degrees_north', 'standard_name': 'latitude'}),
        'lon': ('lon', numpy.arange(nx, dtype=float) + 100, {'units': 'degrees_east', 'standard_name': 'longitude'}),
    },
)
# Packed, but no _FillValue: all the data are valid
dataset['packed'].encoding.update(dtype=numpy.dtype('int16'), scale_factor=0.5, add_offset=100.0, _FillValue=None)
dataset['plain'].encoding.update(_FillValue=None)

# L shaped region, cell (lat 1, lon 102) is inside the crop but not selected
clip = Polygon([(100.6, 0.6), (101.4, 0.6), (101.4, 1.6), (102.4, 1.6), (102.4, 2.4), (100.6, 2.4)])
selected = numpy.array([[True, False], [True, True]])

problems = []
with tempfile.TemporaryDirectory() as tmp:
    tmp = pathlib.Path(tmp)
    dataset.to_netcdf(tmp / 'in.nc')
    source = xarray.open_dataset(tmp / 'in.nc')
    assert source['packed'].dtype.kind == 'f' and '_FillValue' not in source['packed'].encoding

    work = tmp / 'work'
    work.mkdir()
    clipped = source.ems.clip(clip, work).load()

    for name in ['plain', 'packed']:
        before = source[name].values[1:3, 1:3]
        after = clipped[name].values
        if not numpy.array_equal(after[selected], before[selected]):
            problems.append(f"{name}: selected values changed {before[selected]} -> {after[selected]}")
        for was, now in zip(before[~selected], after[~selected]):
            # Either missing (the variable is floating point in memory),
            # or - if the library decides it can not be masked - left unaltered.
            if not (numpy.isnan(now) or now == was):
                problems.append(
                    f"{name}: the unselected cell held {was}, now holds {now}: "
                    "neither missing nor the original value")

if problems:
    print("C08 violated for a packed variable without _FillValue:")
    for problem in problems:
        print("  -", problem)
    sys.exit(1)
print("ok")
