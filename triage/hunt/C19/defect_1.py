"""
C19 defect 1: a variable that lives on another grid kind (UGRID nodes) is
painted on the faces whenever the two grids happen to have the same size.

A 3x2 block of quads split into triangles has 12 nodes and 12 faces.
make_poly_collection('node_val') / make_quiver(..., 'node_val', 'node_val')
return artists that pair node k's value with face k, although the convention
itself reports that the variable is on the node grid.
"""
import sys

import matplotlib
matplotlib.use('Agg')
import numpy
import xarray
from matplotlib import pyplot

import emsarray  # noqa: F401
from emsarray.conventions.ugrid import UGrid, UGridKind


def make_dataset() -> xarray.Dataset:
    nx, ny = 4, 3
    node_x = numpy.tile(numpy.arange(nx, dtype=float), ny)
    node_y = numpy.repeat(numpy.arange(ny, dtype=float), nx)
    faces = []
    for j in range(ny - 1):
        for i in range(nx - 1):
            a = j * nx + i
            b, c, d = a + 1, a + nx, a + nx + 1
            faces.append([a, b, d])
            faces.append([a, d, c])
    faces = numpy.array(faces, dtype='int32')
    return xarray.Dataset({
        'mesh': xarray.DataArray(0, attrs={
            'cf_role': 'mesh_topology', 'topology_dimension': 2,
            'node_coordinates': 'node_x node_y',
            'face_node_connectivity': 'face_node',
            'face_dimension': 'face',
        }),
        'node_x': ('node', node_x, {'standard_name': 'longitude'}),
        'node_y': ('node', node_y, {'standard_name': 'latitude'}),
        'face_node': (('face', 'three'), faces, {'start_index': 0}),
        'face_val': ('face', numpy.arange(12.0)),
        'node_val': ('node', 100 + numpy.arange(12.0)),
    }, attrs={'Conventions': 'UGRID-1.0'})


def main() -> int:
    dataset = make_dataset()
    convention = dataset.ems
    assert isinstance(convention, UGrid)
    assert convention.grid_size[UGridKind.face] == convention.grid_size[UGridKind.node] == 12
    assert convention.get_grid_kind(dataset['node_val']) is UGridKind.node

    failures = []

    # A node variable has no per-cell value: the only correct outcomes are a refusal,
    # or (never) a collection that carries face values.
    try:
        collection = convention.make_poly_collection('node_val')
    except Exception as exc:
        print("make_poly_collection refused the node variable:", exc)
    else:
        array = numpy.asarray(collection.get_array())
        print("make_poly_collection accepted a NODE variable; patch values:", array)
        print("  clim:", collection.get_clim())
        failures.append(
            "poly collection built from a node variable: face k is coloured with the value of node k")

    figure = pyplot.figure()
    axes = figure.add_subplot()
    try:
        quiver = convention.make_quiver(axes, 'node_val', 'node_val', transform=axes.transData)
    except Exception as exc:
        print("make_quiver refused the node variables:", exc)
    else:
        print("make_quiver accepted NODE variables; arrows at face centres carry U =", numpy.asarray(quiver.U))
        failures.append(
            "quiver built from node variables: the arrow at the centre of face k carries the components of node k")

    for failure in failures:
        print("VIOLATION:", failure)
    return 1 if failures else 0


if __name__ == '__main__':
    sys.exit(main())
