"""
C19 defect 5: a dataset in which no cell has geometry cannot be given a
variable: make_poly_collection(variable) crashes in numpy.nanmin, although the
same call without a variable returns an (empty) collection.

The example is a single row cut out of a curvilinear CF grid without bounds
(`dataset.isel(y=[2])`, a common way to look at one grid line).  The library
can not derive cell outlines for a one-cell-wide strip, drops all polygons with
an InvalidPolygonWarning, and every cell becomes a hole.  The property then
asks for a collection with no patches and no values; instead
"ValueError: zero-size array to reduction operation fmin which has no identity"
escapes from the default colour limit computation.
"""
import sys
import warnings

import matplotlib
matplotlib.use('Agg')
import numpy
import xarray

import emsarray  # noqa: F401


def make_dataset() -> xarray.Dataset:
    jj, ii = numpy.meshgrid(numpy.arange(4), numpy.arange(6), indexing='ij')
    lon = 100 + 1.0 * ii + 0.3 * jj
    lat = -30 + 1.0 * jj + 0.1 * ii
    return xarray.Dataset(
        {'temp': (['y', 'x'], numpy.arange(24, dtype=float).reshape(4, 6))},
        coords={
            'latitude': (['y', 'x'], lat, {'standard_name': 'latitude', 'units': 'degrees_north'}),
            'longitude': (['y', 'x'], lon, {'standard_name': 'longitude', 'units': 'degrees_east'}),
        },
        attrs={'Conventions': 'CF-1.8'},
    )


def main() -> int:
    strip = make_dataset().isel(y=[2])
    convention = strip.ems
    with warnings.catch_warnings():
        warnings.simplefilter('ignore')
        n_geometry = int(convention.mask.sum())
        empty = convention.make_poly_collection()
    print(f"{type(convention).__name__}: {convention.polygons.size} cells, {n_geometry} with geometry; "
          f"geometry-only collection has {len(empty.get_paths())} patches")
    assert n_geometry == 0

    try:
        with warnings.catch_warnings():
            warnings.simplefilter('ignore')
            collection = convention.make_poly_collection('temp')
    except Exception as exc:
        print(f"VIOLATION: make_poly_collection('temp') crashed: {type(exc).__name__}: {exc}")
        return 1

    array = collection.get_array()
    n_values = 0 if array is None else len(array)
    print(f"collection with {len(collection.get_paths())} patches and {n_values} values")
    if len(collection.get_paths()) != 0 or n_values != 0:
        print("VIOLATION: cells without geometry contributed a patch or a value")
        return 1
    return 0


if __name__ == '__main__':
    sys.exit(main())
