"""
C05: when every requested point misses the model, 'drop' and 'fill' crash.

'drop' must remove exactly the missing points (here: all of them, leaving an empty
result) and 'fill' must keep every row with missing data.  Instead both raise
ValueError("Need at least one index to select").
"""
import sys
import warnings

import numpy
import pandas
from shapely.geometry import Point

import emsarray  # noqa: F401
from emsarray.operations import point_extraction
from tests.conventions.test_cfgrid1d import make_dataset

warnings.simplefilter('ignore')

dataset = make_dataset(width=5, height=4)
far_away = [Point(50, 50), Point(60, 60)]
table = pandas.DataFrame({'x': [50.0, 60.0], 'y': [50.0, 60.0], 'name': ['a', 'b']})

failures = []

# Sanity: a mixed list works
mixed = dataset.ems.select_points([Point(0.1, 0.1)] + far_away, missing_points='drop')
if list(mixed['point'].values) != [0]:
    failures.append("mixed hit/miss list is wrong")

try:
    out = dataset.ems.select_points(far_away, missing_points='drop')
    if out.sizes['point'] != 0:
        failures.append(f"'drop' with only misses kept {out.sizes['point']} rows")
except Exception as err:
    failures.append(f"select_points(all misses, missing_points='drop') raised {err!r}")

try:
    out = point_extraction.extract_dataframe(dataset, table, ('x', 'y'), missing_points='drop')
    if out.sizes['point'] != 0:
        failures.append(f"extract_dataframe 'drop' with only misses kept {out.sizes['point']} rows")
except Exception as err:
    failures.append(f"extract_dataframe(all misses, missing_points='drop') raised {err!r}")

try:
    out = point_extraction.extract_dataframe(dataset, table, ('x', 'y'), missing_points='fill')
    if list(out['point'].values) != [0, 1]:
        failures.append(f"'fill' rows are {list(out['point'].values)}, expected [0, 1]")
    elif not numpy.isnan(out['botz'].values).all():
        failures.append("'fill' did not give missing data for the misses")
except Exception as err:
    failures.append(f"extract_dataframe(all misses, missing_points='fill') raised {err!r}")

if failures:
    print("C05 violated:")
    for failure in failures:
        print(" -", failure)
    sys.exit(1)
print("C05 holds")
sys.exit(0)
