"""
C05: selecting by point crashes on a UGRID dataset whose mesh names an edge dimension
that no variable uses, while selecting by index works.

`edge_dimension` on the mesh topology variable is legal without any edge variables
(Mesh2DTopology.edge_count explicitly handles "This dimension may not be defined", and the
test suite builds such a dataset in test_derive_connectivity).  DimensionConvention.grid_shape
looks up dataset.sizes[...] for *every* grid kind, so wind_index() - and with it
get_index_for_point / select_point / select_points / extract_dataframe - dies with KeyError.
"""
import sys
import warnings

import numpy
import pandas
import xarray
from shapely.geometry import Point

import emsarray  # noqa: F401
from emsarray.conventions.ugrid import UGridKind
from emsarray.operations import point_extraction

warnings.simplefilter('ignore')

node_x = numpy.tile(numpy.arange(5.0), 2)
node_y = numpy.repeat([0.0, 1.0], 5)
face_nodes = numpy.array([[i, i + 1, i + 6, i + 5] for i in range(4)])
dataset = xarray.Dataset({
    'mesh': ((), 0, {
        'cf_role': 'mesh_topology', 'topology_dimension': 2,
        'node_coordinates': 'node_x node_y',
        'face_node_connectivity': 'face_nodes',
        'face_dimension': 'face',
        'edge_dimension': 'edge',     # declared, but no variable is defined on it
    }),
    'node_x': ('node', node_x), 'node_y': ('node', node_y),
    'face_nodes': (('face', 'corner'), face_nodes, {'cf_role': 'face_node_connectivity', 'start_index': 0}),
    'depth': ('face', numpy.array([10.0, 11.0, 12.0, 13.0])),
}, attrs={'Conventions': 'UGRID-1.0'})

convention = dataset.ems
failures = []

by_index = convention.select_index((UGridKind.face, 2))['depth'].values
if by_index != 12.0:
    failures.append(f"select_index gave {by_index!r}")

point = Point(2.5, 0.5)   # the centre of face 2
if not convention.polygons[2].contains(point):
    failures.append("test is broken")

try:
    by_point = convention.select_point(point)['depth'].values
    if by_point != 12.0:
        failures.append(f"select_point gave {by_point!r}, expected 12.0")
except Exception as err:
    failures.append(f"select_point raised {err!r} although select_index works (value {by_index!r})")

try:
    values = convention.select_points([point, Point(0.5, 0.5)])['depth'].values
    if values.tolist() != [12.0, 10.0]:
        failures.append(f"select_points gave {values!r}")
except Exception as err:
    failures.append(f"select_points raised {err!r}")

try:
    table = pandas.DataFrame({'x': [2.5, 0.5], 'y': [0.5, 0.5]})
    values = point_extraction.extract_dataframe(dataset, table, ('x', 'y'))['depth'].values
    if values.tolist() != [12.0, 10.0]:
        failures.append(f"extract_dataframe gave {values!r}")
except Exception as err:
    failures.append(f"extract_dataframe raised {err!r}")

if failures:
    print("C05 violated:")
    for failure in failures:
        print(" -", failure)
    sys.exit(1)
print("C05 holds")
sys.exit(0)
