"""
C17 defect 5: passing a per-variable `encoding=` to dataset.ems.to_netcdf() (for example to
compress the big variables) brings back the automatic _FillValue attributes that the
save method exists to suppress.
"""
import pathlib
import sys
import tempfile
import warnings

import netCDF4
import numpy
import xarray

import emsarray  # noqa: F401
from tests.conventions.test_cfgrid1d import make_dataset as make_cfgrid1d
from tests.conventions.test_shoc_standard import make_dataset as make_shoc_standard
from tests.conventions.test_ugrid import make_dataset as make_ugrid

warnings.simplefilter("ignore")


def fill_values(path):
    with netCDF4.Dataset(path) as nc:
        return {name for name, variable in nc.variables.items() if '_FillValue' in variable.ncattrs()}


def main():
    failures = []
    tmp = pathlib.Path(tempfile.mkdtemp())
    for label, dataset, names in [
        ('ShocStandard', make_shoc_standard(j_size=4, i_size=5), ['z_grid', 'u1', 't']),
        ('CFGrid1D', make_cfgrid1d(width=4, height=3), ['lon', 'eta', 'time']),
        ('UGrid', make_ugrid(width=3), ['Mesh2_node_x', 'eta', 't']),
    ]:
        src, plain, out = tmp / f'{label}_src.nc', tmp / f'{label}_plain.nc', tmp / f'{label}_out.nc'
        dataset.ems.to_netcdf(src)
        with xarray.open_dataset(src) as source:
            source.load()
        assert type(source.ems).__name__ == label
        names = [name for name in names if name in source.variables]
        before = fill_values(src)

        source.ems.to_netcdf(plain)
        if fill_values(plain) != before:
            failures.append(f"{label}: plain save changed fill values {fill_values(plain) ^ before}")

        encoding = {name: {'zlib': True, 'complevel': 4} for name in names}
        time_name = source.ems.time_coordinate.name
        if time_name in encoding:
            encoding[time_name].update(
                units=source[time_name].encoding['units'], dtype=source[time_name].encoding['dtype'])
        source.ems.to_netcdf(out, encoding=encoding)
        after = fill_values(out)
        print(label, 'compressed', names, '- new _FillValue attributes:', sorted(after - before))
        if after - before:
            failures.append(
                f"{label}: ems.to_netcdf(path, encoding={{zlib}}) added _FillValue to {sorted(after - before)}, "
                "the source had none")
        with xarray.open_dataset(out) as saved:
            saved.load()
        for name in source.variables:
            if not numpy.array_equal(source[name].values, saved[name].values, equal_nan=source[name].dtype.kind == 'f'):
                failures.append(f"{label}: values of {name} changed")

    if failures:
        print("PROPERTY VIOLATED:")
        for failure in failures:
            print(" -", failure)
        return 1
    print("property holds")
    return 0


if __name__ == '__main__':
    sys.exit(main())
