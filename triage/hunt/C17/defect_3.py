"""
C17 defect 3: a time variable without a 'calendar' attribute (what EMS itself writes:
only `units = "days since 1990-01-01 00:00:00 +10"`) makes fix_time_units_for_ems() raise.
Reached from dataset.ems.to_netcdf() for SHOC datasets opened with decode_times=False.
"""
import pathlib
import re
import sys
import tempfile
import warnings

import netCDF4
import numpy
import xarray

import emsarray  # noqa: F401
from emsarray.utils import fix_time_units_for_ems
from tests.conventions.test_cfgrid2d import make_dataset as make_shoc_simple
from tests.conventions.test_shoc_standard import make_dataset as make_shoc_standard

warnings.simplefilter("ignore")
EMS_FORM = re.compile(r'^\w+ since \d{4}-\d\d-\d\d \d\d:\d\d:\d\d [+-]\d\d:\d\d$')
UNITS = 'days since 1990-01-01 00:00:00 +10'


def main():
    failures = []
    tmp = pathlib.Path(tempfile.mkdtemp())

    for label, time_name, dataset in [
        ('ShocStandard', 't', make_shoc_standard(j_size=4, i_size=5)),
        ('ShocSimple', 'time', make_shoc_simple(j_size=4, i_size=5)),
    ]:
        src, out, direct = tmp / f'{label}_src.nc', tmp / f'{label}_out.nc', tmp / f'{label}_direct.nc'
        dataset.ems.to_netcdf(src)
        # Make the time variable look like the one in a file written by EMS: units, no calendar
        for path in [src, direct]:
            if path == direct:
                dataset.ems.to_netcdf(direct)
            with netCDF4.Dataset(path, 'r+') as nc:
                nc.variables[time_name].units = UNITS
                nc.variables[time_name].delncattr('calendar')

        with xarray.open_dataset(src) as decoded:
            expected = decoded[time_name].values.copy()

        # 1. through the convention, time left undecoded
        with xarray.open_dataset(src, decode_times=False) as source:
            source.load()
        assert type(source.ems).__name__ == label, type(source.ems)
        try:
            source.ems.to_netcdf(out)
        except Exception as err:
            failures.append(
                f"{label}, decode_times=False: dataset.ems.to_netcdf() raised {type(err).__name__}: {err}")
        else:
            with netCDF4.Dataset(out) as nc:
                units = nc.variables[time_name].units
            with xarray.open_dataset(out) as saved:
                if not numpy.array_equal(saved[time_name].values, expected):
                    failures.append(f"{label}: time instants changed")
            if not EMS_FORM.match(units):
                failures.append(f"{label}: units {units!r} not in the EMS form")

        # 2. the file level helper on the same kind of file
        try:
            fix_time_units_for_ems(direct, time_name)
        except Exception as err:
            failures.append(
                f"{label}: fix_time_units_for_ems(path, {time_name!r}) raised {type(err).__name__}: {err}")
        else:
            with netCDF4.Dataset(direct) as nc:
                units = nc.variables[time_name].units
            with xarray.open_dataset(direct) as saved:
                if not numpy.array_equal(saved[time_name].values, expected):
                    failures.append(f"{label}: time instants changed by fix_time_units_for_ems")
            if not EMS_FORM.match(units):
                failures.append(f"{label}: units {units!r} not in the EMS form")

    if failures:
        print("PROPERTY VIOLATED:")
        for failure in failures:
            print(" -", failure)
        return 1
    print("property holds")
    return 0


if __name__ == '__main__':
    sys.exit(main())
