"""
C17 defect 4: UTC offsets with a one digit hour ("+8", "-9", "+9:30", "-3:30", "-0:30")
are silently dropped: the rewritten units say "+00:00" with the same wall clock time,
which is a different reference instant, so every time in the file moves by the offset.
"""
import datetime
import pathlib
import re
import sys
import tempfile
import warnings

import netCDF4
import numpy
import xarray

import emsarray  # noqa: F401
from emsarray.utils import fix_time_units_for_ems, format_time_units_for_ems
from tests.conventions.test_shoc_standard import make_dataset as make_shoc_standard

warnings.simplefilter("ignore")
EMS_FORM = re.compile(r'^\w+ since \d{4}-\d\d-\d\d \d\d:\d\d:\d\d [+-]\d\d:\d\d$')
UNITS_RE = re.compile(
    r'^\s*(?P<period>\w+)\s+since\s+(?P<y>\d+)-(?P<m>\d+)-(?P<d>\d+)'
    r'(?:[ T](?P<H>\d+):(?P<M>\d+)(?::(?P<S>\d+))?)?'
    r'\s*(?:(?P<sign>[+-])(?P<oh>\d{1,2})(?::?(?P<om>\d{2}))?)?\s*$')


def reference_instant(units):
    """An independent reading of '<period> since <date> [<time>] [<offset>]' as a UTC instant"""
    m = UNITS_RE.match(units)
    assert m is not None, units
    g = m.groupdict()
    local = datetime.datetime(
        int(g['y']), int(g['m']), int(g['d']), int(g['H'] or 0), int(g['M'] or 0), int(g['S'] or 0))
    offset = datetime.timedelta(hours=int(g['oh'] or 0), minutes=int(g['om'] or 0))
    if g['sign'] == '-':
        offset = -offset
    return local - offset


def xarray_instant(units):
    decoded = xarray.coding.times.decode_cf_datetime(numpy.array([0]), units, 'proleptic_gregorian')
    return decoded[0].astype('datetime64[s]').astype(datetime.datetime)


def main():
    failures = []
    for units in [
        'days since 1990-01-01 00:00:00 +10',      # control: the documented EMS form
        'days since 1990-01-01 00:00:00 +8',       # Perth
        'days since 1990-01-01 00:00:00 +9:30',    # Darwin / Adelaide
        'hours since 2000-01-01 00:00 -3:30',      # Newfoundland, no seconds
        'seconds since 1990-01-01T00:00:00-9',
        'days since 1990-01-01 00:00:00 +5:45',
        'days since 1990-01-01 12:00:00 -0:30',
    ]:
        expected = reference_instant(units)
        assert expected == xarray_instant(units), (units, expected, xarray_instant(units))
        new_units = format_time_units_for_ems(units)
        got = reference_instant(new_units)
        ok = got == expected and EMS_FORM.match(new_units)
        print(f"{units!r:48} -> {new_units!r:45} {expected}Z -> {got}Z {'ok' if ok else 'WRONG'}")
        if not ok:
            failures.append(
                f"format_time_units_for_ems({units!r}) = {new_units!r}: reference instant "
                f"{expected}Z became {got}Z")

    # The same through the file level helper and through dataset.ems.to_netcdf()
    tmp = pathlib.Path(tempfile.mkdtemp())
    units = 'days since 1990-01-01 00:00:00 +8'
    dataset = make_shoc_standard(j_size=4, i_size=5)
    for path in [tmp / 'a.nc', tmp / 'b.nc']:
        dataset.ems.to_netcdf(path)
        with netCDF4.Dataset(path, 'r+') as nc:
            nc.variables['t'].units = units
    with xarray.open_dataset(tmp / 'a.nc') as decoded:
        expected = decoded['t'].values.copy()

    fix_time_units_for_ems(tmp / 'a.nc', 't')
    with xarray.open_dataset(tmp / 'a.nc') as fixed:
        got = fixed['t'].values.copy()
        new_units = fixed['t'].encoding['units']
    if not numpy.array_equal(expected, got):
        failures.append(
            f"fix_time_units_for_ems: {units!r} -> {new_units!r}, first time {expected[0]} became {got[0]}")

    with xarray.open_dataset(tmp / 'b.nc', decode_times=False) as source:
        source.load()
    source.ems.to_netcdf(tmp / 'c.nc')
    with xarray.open_dataset(tmp / 'c.nc') as saved:
        got = saved['t'].values.copy()
        new_units = saved['t'].encoding['units']
    if not numpy.array_equal(expected, got):
        failures.append(
            f"ShocStandard opened with decode_times=False, ems.to_netcdf(): {units!r} -> {new_units!r}, "
            f"first time {expected[0]} became {got[0]}")

    if failures:
        print("PROPERTY VIOLATED:")
        for failure in failures:
            print(" -", failure)
        return 1
    print("property holds")
    return 0


if __name__ == '__main__':
    sys.exit(main())
