"""
C17 defect 1: a CF dataset that has time bounds can not be saved with
dataset.ems.to_netcdf(): Convention.time_coordinate picks the bounds variable.
"""
import pathlib
import re
import sys
import tempfile
import traceback
import warnings

import netCDF4
import numpy
import xarray

import emsarray  # noqa: F401

warnings.simplefilter("ignore")

EMS_FORM = re.compile(r'^\w+ since \d{4}-\d\d-\d\d \d\d:\d\d:\d\d [+-]\d\d:\d\d$')


def make_source(path):
    # A plain CF grid file; the coordinate variables are defined first, as is usual.
    with netCDF4.Dataset(path, 'w') as nc:
        nc.Conventions = 'CF-1.8'
        nc.createDimension('time', None)
        nc.createDimension('lat', 3)
        nc.createDimension('lon', 4)
        nc.createDimension('nv', 2)
        t = nc.createVariable('time', 'f8', ('time',))
        t.units = 'days since 1990-01-01 00:00:00 +10'
        t.calendar = 'proleptic_gregorian'
        t.standard_name = 'time'
        t.axis = 'T'
        t.bounds = 'time_bnds'
        lat = nc.createVariable('lat', 'f8', ('lat',))
        lat.units = 'degrees_north'
        lat.standard_name = 'latitude'
        lon = nc.createVariable('lon', 'f8', ('lon',))
        lon.units = 'degrees_east'
        lon.standard_name = 'longitude'
        tb = nc.createVariable('time_bnds', 'f8', ('time', 'nv'))
        temp = nc.createVariable('temp', 'f4', ('time', 'lat', 'lon'))
        temp.units = 'degC'
        t[:] = numpy.array([10000., 10001.])
        tb[:] = numpy.array([[9999.5, 10000.5], [10000.5, 10001.5]])
        lat[:] = numpy.array([0., 1., 2.])
        lon[:] = numpy.array([10., 11., 12., 13.])
        temp[:] = numpy.arange(24, dtype='f4').reshape(2, 3, 4)


def main():
    failures = []
    tmp = pathlib.Path(tempfile.mkdtemp())
    src, out = tmp / 'src.nc', tmp / 'out.nc'
    make_source(src)
    with xarray.open_dataset(src) as source:
        source.load()
    print("convention:", type(source.ems).__name__)
    print("variables :", list(source.variables))

    found = source.ems.time_coordinate
    print("time_coordinate ->", found.name, found.dims)
    if found.name != 'time':
        failures.append(f"time_coordinate is {found.name!r} {found.dims}, expected the coordinate 'time'")

    try:
        source.ems.to_netcdf(out)
    except Exception as err:
        traceback.print_exc()
        failures.append(f"dataset.ems.to_netcdf() raised {type(err).__name__}: {err}")
    if out.exists():
        with netCDF4.Dataset(out) as nc:
            units = nc.variables['time'].units
        print("time units left in the saved file:", repr(units))
        if not EMS_FORM.match(units):
            failures.append(f"time units in the saved file are {units!r}, not in the EMS form")
        with xarray.open_dataset(out) as saved:
            saved.load()
        if type(saved.ems) is not type(source.ems):
            failures.append("convention changed")
        for name in source.variables:
            if not numpy.array_equal(source[name].values, saved[name].values):
                failures.append(f"values of {name} changed")

    if failures:
        print("PROPERTY VIOLATED:")
        for failure in failures:
            print(" -", failure)
        return 1
    print("property holds")
    return 0


if __name__ == '__main__':
    sys.exit(main())
