"""
C12 defect 2: ocean_floor() fails when the time coordinate is a scalar.

Selecting one time step (``dataset.isel(time=0)`` / ``dataset.sel(time=...)``) is what the
documentation of ocean_floor() recommends doing first.  xarray keeps the selected
time as a zero-dimensional coordinate, Convention.time_coordinate still finds it, and
utils.dimensions_from_coords() then reads ``coordinate.dims[0]`` of a variable without dimensions.
"""
import sys
import warnings

import numpy
import pandas
import xarray

import emsarray  # noqa: F401
from emsarray.operations.depth import ocean_floor

warnings.simplefilter('ignore')


def build():
    nt, nz, ny, nx = 3, 4, 3, 4
    rng = numpy.random.default_rng(0)
    wet = rng.integers(0, nz + 1, size=(ny, nx))
    values = numpy.full((nt, nz, ny, nx), numpy.nan)
    expected = numpy.full((nt, ny, nx), numpy.nan)
    for t in range(nt):
        for k in range(nz):
            values[t, k][wet > k] = 100 * t + 10 * k
        for j in range(ny):
            for i in range(nx):
                if wet[j, i]:
                    expected[t, j, i] = values[t, wet[j, i] - 1, j, i]
    dataset = xarray.Dataset(
        {'temp': (('time', 'depth', 'lat', 'lon'), values)},
        coords={
            'time': ('time', pandas.date_range('2022-02-08', periods=nt)),
            'depth': ('depth', 0.5 + numpy.arange(nz), {'positive': 'down'}),
            'lat': ('lat', numpy.arange(ny) * 1.0, {'standard_name': 'latitude', 'units': 'degrees_north'}),
            'lon': ('lon', numpy.arange(nx) * 1.0, {'standard_name': 'longitude', 'units': 'degrees_east'}),
        })
    dataset['time'].encoding['units'] = 'days since 1990-01-01'
    return dataset, expected


def main():
    dataset, expected = build()
    failures = []

    # Sanity: a time selection that keeps the dimension works.
    kept = dataset.isel(time=[1]).ems.ocean_floor()
    assert numpy.array_equal(kept['temp'].values, expected[[1]], equal_nan=True)

    cases = [
        ("dataset.isel(time=1).ems.ocean_floor()",
         lambda: dataset.isel(time=1).ems.ocean_floor()),
        ("dataset.sel(time='2022-02-09').ems.ocean_floor()",
         lambda: dataset.sel(time='2022-02-09').ems.ocean_floor()),
        ("ocean_floor(dataset.isel(time=1), ['depth'], non_spatial_variables=['time'])",
         lambda: ocean_floor(dataset.isel(time=1), ['depth'], non_spatial_variables=['time'])),
    ]
    for label, call in cases:
        try:
            result = call()
            got = result['temp'].transpose('lat', 'lon').values
        except Exception as exc:
            failures.append(f"{label}: {type(exc).__name__}: {exc}")
            continue
        if not numpy.array_equal(got, expected[1], equal_nan=True):
            failures.append(f"{label}: wrong values")
        if 'depth' in result.variables or 'depth' in result.dims:
            failures.append(f"{label}: depth was not removed")

    # The same thing on a SHOC standard dataset made by the test helper.
    try:
        from tests.conventions.test_shoc_standard import make_dataset
        shoc = make_dataset(j_size=5, i_size=6, k_size=4, time_size=2)
        try:
            shoc.isel(record=0).ems.ocean_floor()
        except Exception as exc:
            failures.append(f"SHOC standard dataset.isel(record=0).ems.ocean_floor(): {type(exc).__name__}: {exc}")
    except ImportError:
        pass

    if failures:
        print("C12 VIOLATED: ocean floor of a dataset with a scalar time coordinate")
        for failure in failures:
            print("  -", failure)
        return 1
    print("C12 holds for datasets with a scalar time coordinate")
    return 0


if __name__ == '__main__':
    sys.exit(main())
