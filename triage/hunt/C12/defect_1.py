"""
C12 defect 1: ocean_floor() fails on every dask-backed (chunked) dataset.

Ocean model output is normally opened with ``chunks=...`` or ``open_mfdataset``,
which gives dask-backed variables.  The floor indexes computed by
_find_ocean_floor_indexes are then a lazy dask array, and Dataset.isel() refuses
a dask array as a vectorised (pointwise) indexer.
"""
import sys
import warnings

import dask
import numpy
import pandas
import xarray

import emsarray  # noqa: F401  (registers the .ems accessor)
from emsarray.operations.depth import ocean_floor

warnings.simplefilter('ignore')
dask.config.set(scheduler='synchronous')


def build():
    nt, nz, ny, nx = 2, 4, 3, 4
    rng = numpy.random.default_rng(0)
    wet = rng.integers(0, nz + 1, size=(ny, nx))  # number of wet layers per column
    values = numpy.full((nt, nz, ny, nx), numpy.nan)
    expected = numpy.full((nt, ny, nx), numpy.nan)
    for t in range(nt):
        for k in range(nz):
            values[t, k][wet > k] = 100 * t + 10 * k
        for j in range(ny):
            for i in range(nx):
                if wet[j, i]:
                    expected[t, j, i] = values[t, wet[j, i] - 1, j, i]
    dataset = xarray.Dataset(
        {'temp': (('time', 'depth', 'lat', 'lon'), values)},
        coords={
            'time': ('time', pandas.date_range('2022-02-08', periods=nt)),
            'depth': ('depth', 0.5 + numpy.arange(nz), {'positive': 'down'}),
            'lat': ('lat', numpy.arange(ny) * 1.0, {'standard_name': 'latitude', 'units': 'degrees_north'}),
            'lon': ('lon', numpy.arange(nx) * 1.0, {'standard_name': 'longitude', 'units': 'degrees_east'}),
        })
    dataset['time'].encoding['units'] = 'days since 1990-01-01'
    return dataset, expected


def main():
    dataset, expected = build()

    # Sanity: the same dataset held in memory is handled correctly.
    eager = dataset.ems.ocean_floor()
    assert numpy.array_equal(eager['temp'].values, expected, equal_nan=True)

    failures = []
    for label, chunks in [
        ('one chunk per variable', {}),
        ('chunked along time only', {'time': 1}),
        ('chunked along depth', {'depth': 2}),
    ]:
        chunked = dataset.chunk(chunks)
        for how, call in [
            ('dataset.ems.ocean_floor()', lambda ds: ds.ems.ocean_floor()),
            ('operations.depth.ocean_floor()', lambda ds: ocean_floor(
                ds, ['depth'], non_spatial_variables=['time'])),
        ]:
            try:
                result = call(chunked)
                got = result['temp'].transpose('time', 'lat', 'lon').values
            except Exception as exc:
                failures.append(f"{how} on a dataset with {label}: {type(exc).__name__}: {str(exc)[:120]}")
                continue
            if not numpy.array_equal(got, expected, equal_nan=True):
                failures.append(f"{how} on a dataset with {label}: wrong values")

    if failures:
        print("C12 VIOLATED: ocean floor of a dask-backed dataset")
        for failure in failures:
            print("  -", failure)
        return 1
    print("C12 holds for dask-backed datasets")
    return 0


if __name__ == '__main__':
    sys.exit(main())
