"""
C12 defect 3: ocean_floor() fails on a dataset with a single depth layer.

A depth dimension of length one is legitimate (two dimensional / depth averaged model runs
store one layer, and ``dataset.isel(depth=[k])`` keeps the dimension).  The floor of such a
dataset is simply that layer (or missing).  normalize_depth_variables() unpacks the first
two depth values to find the ordering of the axis and fails when there is only one.
"""
import itertools
import sys
import warnings

import numpy
import pandas
import xarray

import emsarray  # noqa: F401
from emsarray.operations.depth import ocean_floor

warnings.simplefilter('ignore')


def build(positive):
    nt, nz, ny, nx = 2, 1, 3, 4
    rng = numpy.random.default_rng(0)
    wet = rng.integers(0, nz + 1, size=(ny, nx))  # 0 or 1 wet layers
    values = numpy.full((nt, nz, ny, nx), numpy.nan)
    for t in range(nt):
        values[t, 0][wet > 0] = 100 * t + rng.random((wet > 0).sum())
    expected = values[:, 0]
    depth = numpy.array([2.5]) * (1 if positive == 'down' else -1)
    dataset = xarray.Dataset(
        {'temp': (('time', 'depth', 'lat', 'lon'), values)},
        coords={
            'time': ('time', pandas.date_range('2022-02-08', periods=nt)),
            'depth': ('depth', depth, {'positive': positive}),
            'lat': ('lat', numpy.arange(ny) * 1.0, {'standard_name': 'latitude', 'units': 'degrees_north'}),
            'lon': ('lon', numpy.arange(nx) * 1.0, {'standard_name': 'longitude', 'units': 'degrees_east'}),
        })
    dataset['time'].encoding['units'] = 'days since 1990-01-01'
    return dataset, expected


def main():
    failures = []
    for positive, via in itertools.product(['down', 'up'], ['accessor', 'function']):
        dataset, expected = build(positive)
        label = f"single layer, positive={positive}, via {via}"
        try:
            if via == 'accessor':
                result = dataset.ems.ocean_floor()
            else:
                result = ocean_floor(dataset, ['depth'], non_spatial_variables=['time'])
            got = result['temp'].transpose('time', 'lat', 'lon').values
        except Exception as exc:
            failures.append(f"{label}: {type(exc).__name__}: {exc}")
            continue
        if not numpy.array_equal(got, expected, equal_nan=True):
            failures.append(f"{label}: wrong values")
        if 'depth' in result.variables or 'depth' in result.dims:
            failures.append(f"{label}: depth was not removed")

    # Also reached by selecting one layer of a multi layer dataset while keeping the dimension
    try:
        from tests.conventions.test_ugrid import make_dataset
        ugrid = make_dataset(width=3, depth_size=1, time_size=2)
        try:
            ugrid.ems.ocean_floor()
        except Exception as exc:
            failures.append(f"UGRID dataset with depth_size=1: {type(exc).__name__}: {exc}")
    except ImportError:
        pass

    if failures:
        print("C12 VIOLATED: ocean floor of a dataset with one depth layer")
        for failure in failures:
            print("  -", failure)
        return 1
    print("C12 holds for datasets with one depth layer")
    return 0


if __name__ == '__main__':
    sys.exit(main())
