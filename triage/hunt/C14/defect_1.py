"""
C14 - triangulate_dataset() raises ValueError when a cell repeats a vertex.

Two legitimate ways to get such a cell:

(a) a UGRID mesh that mixes triangles and quadrilaterals and pads the short
    rows of face_node_connectivity by repeating the last node (a common
    alternative to padding with _FillValue);
(b) a curvilinear CF grid (lon/lat bounds with four corners per cell) whose
    cells collapse to triangles where the grid lines converge, e.g. a polar /
    fan shaped grid: two of the four corners of the innermost cells coincide.

In both cases `dataset.ems.polygons` accepts the cells (they are valid
polygons, no InvalidPolygonWarning) but triangulate_dataset() cannot
triangulate them and the whole dataset is refused.
"""
import sys
import warnings

import numpy
import shapely
import xarray

import emsarray  # noqa: F401
from emsarray.operations.triangulate import triangulate_dataset


def check(dataset, label):
    """Return a list of property violations for this dataset"""
    with warnings.catch_warnings(record=True) as caught:
        warnings.simplefilter('always')
        polygons = dataset.ems.polygons
    dropped = [str(w.message) for w in caught if 'invalid polygon' in str(w.message).lower()]
    if dropped or any(p is None for p in polygons):
        return [f"{label}: test is broken, library rejected the cells: {dropped}"]
    try:
        vertices, triangles, faces = triangulate_dataset(dataset)
    except Exception as exc:
        return [f"{label}: triangulate_dataset raised {type(exc).__name__}: {exc}"]

    problems = []
    if len({tuple(v) for v in vertices.tolist()}) != len(vertices):
        problems.append(f"{label}: duplicate vertices")
    if triangles.min() < 0 or triangles.max() >= len(vertices):
        problems.append(f"{label}: invalid vertex index")
    for index, polygon in enumerate(polygons):
        cell = [shapely.Polygon(vertices[t]) for t in triangles[faces == index]]
        if not cell:
            problems.append(f"{label}: cell {index} has no triangles")
            continue
        area = sum(t.area for t in cell)
        if abs(area - polygon.area) > 1e-9 * polygon.area:
            problems.append(f"{label}: cell {index} area {polygon.area} but triangles sum to {area}")
        if any(t.difference(polygon).area > 1e-9 * polygon.area for t in cell):
            problems.append(f"{label}: cell {index} has a triangle outside the cell")
    return problems


def make_ugrid():
    # Nodes:   3---2---5
    #          |   | /
    #          0---1
    # face 0 is a quadrilateral, face 1 is a triangle padded by repeating its last node
    node_x = numpy.array([0., 1., 1., 0., 2.])
    node_y = numpy.array([0., 0., 1., 1., 1.])
    face_node = numpy.array([[0, 1, 2, 3], [1, 4, 2, 2]], dtype='int32')
    return xarray.Dataset({
        'Mesh2': xarray.DataArray(0, attrs={
            'cf_role': 'mesh_topology', 'topology_dimension': 2,
            'node_coordinates': 'Mesh2_node_x Mesh2_node_y',
            'face_node_connectivity': 'Mesh2_face_nodes'}),
        'Mesh2_node_x': xarray.DataArray(node_x, dims=['nMesh2_node'], attrs={'standard_name': 'longitude'}),
        'Mesh2_node_y': xarray.DataArray(node_y, dims=['nMesh2_node'], attrs={'standard_name': 'latitude'}),
        'Mesh2_face_nodes': xarray.DataArray(
            face_node, dims=['nMesh2_face', 'nMaxMesh2_face_nodes'],
            attrs={'cf_role': 'face_node_connectivity', 'start_index': 0}),
        'eta': xarray.DataArray(numpy.zeros(2), dims=['nMesh2_face']),
    }, attrs={'Conventions': 'UGRID-1.0'})


def make_fan_grid():
    # A fan shaped curvilinear grid: j is the radial direction, i the angular direction.
    # All the cells with j=0 touch the apex of the fan, so two of their corners coincide.
    radius = numpy.array([0., 1., 2.])
    angle = numpy.radians([0., 30., 60., 90.])
    apex = (10., 20.)

    def xy(r, a):
        return apex[0] + r * numpy.cos(a), apex[1] + r * numpy.sin(a)

    j_size, i_size = len(radius) - 1, len(angle) - 1
    lon = numpy.empty((j_size, i_size))
    lat = numpy.empty((j_size, i_size))
    lon_bounds = numpy.empty((j_size, i_size, 4))
    lat_bounds = numpy.empty((j_size, i_size, 4))
    for j in range(j_size):
        for i in range(i_size):
            lon[j, i], lat[j, i] = xy((radius[j] + radius[j + 1]) / 2, (angle[i] + angle[i + 1]) / 2)
            corners = [
                xy(radius[j], angle[i]), xy(radius[j], angle[i + 1]),
                xy(radius[j + 1], angle[i + 1]), xy(radius[j + 1], angle[i])]
            lon_bounds[j, i] = [c[0] for c in corners]
            lat_bounds[j, i] = [c[1] for c in corners]
    return xarray.Dataset(
        data_vars={
            'eta': xarray.DataArray(numpy.zeros((j_size, i_size)), dims=['j', 'i']),
            'lon_bounds': xarray.DataArray(lon_bounds, dims=['j', 'i', 'four']),
            'lat_bounds': xarray.DataArray(lat_bounds, dims=['j', 'i', 'four']),
        },
        coords={
            'lon': xarray.DataArray(lon, dims=['j', 'i'], attrs={
                'standard_name': 'longitude', 'units': 'degrees_east', 'bounds': 'lon_bounds'}),
            'lat': xarray.DataArray(lat, dims=['j', 'i'], attrs={
                'standard_name': 'latitude', 'units': 'degrees_north', 'bounds': 'lat_bounds'}),
        },
        attrs={'Conventions': 'CF-1.8'},
    )


def main():
    problems = []
    for label, dataset in [
        ("UGRID mesh padded by repeating the last node", make_ugrid()),
        ("CF curvilinear fan grid with collapsed cells", make_fan_grid()),
    ]:
        print(f"{label}: convention is {type(dataset.ems).__name__}, "
              f"{len(dataset.ems.polygons)} cells")
        problems += check(dataset, label)

    if problems:
        print("PROPERTY VIOLATED")
        for problem in problems:
            print(" -", problem)
        return 1
    print("property holds")
    return 0


if __name__ == '__main__':
    sys.exit(main())
