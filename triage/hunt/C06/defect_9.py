"""
C06: a CF grid with stored bounds: every cell is the rectangle (1-D) or the four
corners (2-D) given by the bounds variables.  Here the bounds variables carry
the same `units` as their coordinate variable, which CF section 7.1 allows
("... attributes such as units ... must agree with those of its parent").
xarray lists data variables (the bounds) before coordinate variables, whatever
the order in the file.
"""
import sys
import warnings

import numpy
import xarray
from shapely.geometry import Polygon, box

import emsarray  # noqa: F401  (registers the .ems accessor)

failures = []


def run(label, dataset, expected):
    try:
        with warnings.catch_warnings():
            warnings.simplefilter('ignore')
            convention = dataset.ems
            polygons = convention.polygons
    except Exception as exc:
        failures.append(f"{label}: {type(exc).__name__}: {exc}")
        return
    print(f"{label}: convention {type(convention).__name__}")
    wrong = [
        k for k, (got, want) in enumerate(zip(polygons, expected))
        if got is None or not got.equals(want)
    ]
    if wrong or len(polygons) != len(expected):
        failures.append(f"{label}: {len(wrong)} wrong polygons of {len(expected)}")


# 1-D grid
lat_bnds = numpy.array([[10., 11.], [11., 12.]])
lon_bnds = numpy.array([[0., 1.], [1., 2.], [2., 3.]])
for with_units in [False, True]:
    bounds_attrs_lat = {'units': 'degrees_north'} if with_units else {}
    bounds_attrs_lon = {'units': 'degrees_east'} if with_units else {}
    dataset = xarray.Dataset(
        {
            'lat_bnds': (('lat', 'bnds'), lat_bnds, bounds_attrs_lat),
            'lon_bnds': (('lon', 'bnds'), lon_bnds, bounds_attrs_lon),
            'temp': (('lat', 'lon'), numpy.zeros((2, 3))),
        },
        coords={
            'lat': ('lat', lat_bnds.mean(axis=1), {'units': 'degrees_north', 'bounds': 'lat_bnds'}),
            'lon': ('lon', lon_bnds.mean(axis=1), {'units': 'degrees_east', 'bounds': 'lon_bnds'}),
        },
        attrs={'Conventions': 'CF-1.8'},
    )
    expected = [box(x[0], y[0], x[1], y[1]) for y in lat_bnds for x in lon_bnds]
    run(f"1-D grid, bounds variables {'with' if with_units else 'without'} units", dataset, expected)

# 2-D grid
ny, nx = 2, 3
lon, lat = numpy.meshgrid(numpy.arange(nx) + 0.5, numpy.arange(ny) + 10.5)
lon_b = numpy.stack([lon - .5, lon + .5, lon + .5, lon - .5], axis=-1)
lat_b = numpy.stack([lat - .5, lat - .5, lat + .5, lat + .5], axis=-1)
for with_units in [False, True]:
    dataset = xarray.Dataset(
        {
            'lat_bnds': (('y', 'x', 'nv'), lat_b, {'units': 'degrees_north'} if with_units else {}),
            'lon_bnds': (('y', 'x', 'nv'), lon_b, {'units': 'degrees_east'} if with_units else {}),
            'temp': (('y', 'x'), numpy.zeros((ny, nx))),
        },
        coords={
            'lat': (('y', 'x'), lat, {'units': 'degrees_north', 'bounds': 'lat_bnds'}),
            'lon': (('y', 'x'), lon, {'units': 'degrees_east', 'bounds': 'lon_bnds'}),
        },
        attrs={'Conventions': 'CF-1.8'},
    )
    expected = [
        Polygon(list(zip(lon_b[j, i], lat_b[j, i])))
        for j in range(ny) for i in range(nx)
    ]
    run(f"2-D grid, bounds variables {'with' if with_units else 'without'} units", dataset, expected)

if failures:
    print("PROPERTY C06 VIOLATED")
    for failure in failures:
        print(" -", failure)
    sys.exit(1)
print("property holds")
sys.exit(0)
