import numpy, xarray, warnings, shapely
import emsarray
from emsarray.conventions.grid import CFGrid2D
ny, nx = 3, 4
lon_c = numpy.arange(nx)[None, :] + numpy.zeros((ny, 1)); lat_c = numpy.arange(ny)[:, None] + numpy.zeros((1, nx))
def corners(c, d0, d1):
    return numpy.stack([c + a for a in (d0)], axis=-1)
lonb = numpy.stack([lon_c - .5, lon_c + .5, lon_c + .5, lon_c - .5], axis=-1)
latb = numpy.stack([lat_c - .5, lat_c - .5, lat_c + .5, lat_c + .5], axis=-1)
# cell (0, 0): no latitude bounds, longitude bounds far to the west
latb[0, 0] = numpy.nan; lonb[0, 0] = [-7, -6, -6, -7]
ds = xarray.Dataset({
    'lon': (('j', 'i'), lon_c, {'standard_name': 'longitude', 'units': 'degrees_east', 'bounds': 'lon_bnds'}),
    'lat': (('j', 'i'), lat_c, {'standard_name': 'latitude', 'units': 'degrees_north', 'bounds': 'lat_bnds'}),
    'lon_bnds': (('j', 'i', 'v'), lonb), 'lat_bnds': (('j', 'i', 'v'), latb),
    't': (('j', 'i'), numpy.zeros((ny, nx))),
})
c = CFGrid2D(ds)
with warnings.catch_warnings():
    warnings.simplefilter('ignore')
    polys = c.polygons
print('polygon of cell 0:', polys[0])
tb = tuple(float(v) for v in shapely.total_bounds(polys))
print('bounding box of the polygons:', tb)
print('ems.bounds                  :', tuple(float(v) for v in c.bounds))
print('ems.geometry.bounds         :', c.geometry.bounds)
raise SystemExit(0 if tuple(float(v) for v in c.bounds) == tb else 1)
