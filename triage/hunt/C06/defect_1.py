"""
C06: a curvilinear (2-D CF / SHOC simple) grid without stored bounds, with one
isolated cell whose coordinates are missing.  That cell must have no polygon
and mask must be False there.
"""
import sys
import warnings

import numpy
import xarray

from emsarray.conventions.grid import CFGrid2D
from emsarray.conventions.shoc import ShocSimple

failures = []


def check(label, convention, holes, shape):
    polygons = convention.polygons
    mask = convention.mask
    ny, nx = shape
    for (j, i) in holes:
        k = j * nx + i
        if polygons[k] is not None or mask[k]:
            failures.append(
                f"{label}: cell (j={j}, i={i}) has nan longitude/latitude "
                f"but polygons[{k}] = {polygons[k]} and mask[{k}] = {mask[k]}")
    expected_count = ny * nx - len(holes)
    if int(mask.sum()) > expected_count:
        failures.append(
            f"{label}: {int(mask.sum())} cells have polygons, "
            f"only {expected_count} cells have coordinates")


ny, nx = 5, 6
lon, lat = numpy.meshgrid(100 + numpy.arange(nx, dtype=float), -20 + 2 * numpy.arange(ny, dtype=float))

with warnings.catch_warnings():
    warnings.simplefilter('ignore')

    # 1. one isolated missing cell (a small island) in a CF 2-D grid
    lon1, lat1 = lon.copy(), lat.copy()
    lon1[2, 3] = lat1[2, 3] = numpy.nan
    ds = xarray.Dataset({
        'lon': (('y', 'x'), lon1, {'units': 'degrees_east'}),
        'lat': (('y', 'x'), lat1, {'units': 'degrees_north'}),
        'v': (('y', 'x'), numpy.zeros((ny, nx))),
    })
    check('CFGrid2D single hole', CFGrid2D(ds), [(2, 3)], (ny, nx))

    # 2. a one-cell-wide line of missing cells, held as xarray coordinates, SHOC simple names
    lon2, lat2 = lon.copy(), lat.copy()
    lon2[1:4, 2] = lat2[1:4, 2] = numpy.nan
    ds = xarray.Dataset(
        {'v': (('j', 'i'), numpy.zeros((ny, nx)))},
        coords={
            'longitude': (('j', 'i'), lon2, {'standard_name': 'longitude'}),
            'latitude': (('j', 'i'), lat2, {'standard_name': 'latitude'}),
        },
        attrs={'ems_version': 'fake'},
    )
    check('ShocSimple one-wide strip', ShocSimple(ds), [(1, 2), (2, 2), (3, 2)], (ny, nx))

if failures:
    print("PROPERTY C06 VIOLATED")
    for failure in failures:
        print(" -", failure)
    sys.exit(1)
print("property holds")
sys.exit(0)
