"""
C06: cell polygons of a curvilinear CF grid must be the same whatever the
storage order of the two coordinate variables.  longitude is stored as (x, y),
latitude as (y, x); xarray aligns both by dimension name, the cells are the same.
"""
import sys
import warnings

import numpy
import xarray

from emsarray.conventions.grid import CFGrid2D

failures = []


def make(ny, nx, transpose_longitude, with_bounds):
    j, i = numpy.meshgrid(numpy.arange(ny, dtype=float), numpy.arange(nx, dtype=float), indexing='ij')
    # A sheared grid: nothing is symmetric in j and i
    lon = 100 + 1.0 * i + 0.25 * j
    lat = -10 + 0.5 * j + 0.1 * i
    data_vars = {'v': (('y', 'x'), numpy.zeros((ny, nx)))}
    lon_attrs = {'units': 'degrees_east'}
    lat_attrs = {'units': 'degrees_north'}
    lon_var = xarray.DataArray(lon, dims=('y', 'x'))
    if with_bounds:
        def corners(c, dj, di):
            return numpy.stack([
                c - dj - di, c - dj + di, c + dj + di, c + dj - di], axis=-1)
        lon_bnds = xarray.DataArray(corners(lon, 0.125, 0.5), dims=('y', 'x', 'nv'))
        lat_bnds = xarray.DataArray(corners(lat, 0.25, 0.05), dims=('y', 'x', 'nv'))
        if transpose_longitude:
            lon_bnds = lon_bnds.transpose('x', 'y', 'nv')
        data_vars['lon_bnds'] = lon_bnds
        data_vars['lat_bnds'] = lat_bnds
        lon_attrs['bounds'] = 'lon_bnds'
        lat_attrs['bounds'] = 'lat_bnds'
    if transpose_longitude:
        lon_var = lon_var.transpose('x', 'y')
    return xarray.Dataset(data_vars, coords={
        'lon': lon_var.assign_attrs(lon_attrs),
        'lat': xarray.DataArray(lat, dims=('y', 'x'), attrs=lat_attrs),
    })


def polygons_of(dataset):
    with warnings.catch_warnings():
        warnings.simplefilter('ignore')
        convention = CFGrid2D(dataset)
        return convention.polygons, convention.bounds


for ny, nx in [(3, 3), (3, 4)]:
    for with_bounds in [False, True]:
        label = f"{ny}x{nx} {'with' if with_bounds else 'without'} bounds"
        reference, reference_bounds = polygons_of(make(ny, nx, False, with_bounds))
        try:
            polygons, bounds = polygons_of(make(ny, nx, True, with_bounds))
        except Exception as exc:
            failures.append(f"{label}: longitude(x, y) / latitude(y, x): {type(exc).__name__}: {exc}")
            continue
        wrong = [
            k for k, (got, want) in enumerate(zip(polygons, reference))
            if got is None or not got.equals(want)
        ]
        if wrong:
            k = wrong[0]
            failures.append(
                f"{label}: longitude(x, y) / latitude(y, x): {len(wrong)} of {len(reference)} cells differ, "
                f"e.g. cell {k}: {polygons[k]} instead of {reference[k]}")
        if not numpy.allclose(bounds, reference_bounds):
            failures.append(f"{label}: bounds {tuple(bounds)} instead of {tuple(reference_bounds)}")

if failures:
    print("PROPERTY C06 VIOLATED")
    for failure in failures:
        print(" -", failure)
    sys.exit(1)
print("property holds")
sys.exit(0)
