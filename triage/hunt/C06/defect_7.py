"""
C06: a curvilinear CF grid without stored bounds whose 2-D longitude/latitude
variables have an integer dtype (whole degrees, or projected metres stored as
int32).  The polygons must be the same as for the same numbers stored as floats.
"""
import sys
import warnings

import numpy
import xarray

from emsarray.conventions.grid import CFGrid2D

ny, nx = 3, 4
lon, lat = numpy.meshgrid(100 + 2 * numpy.arange(nx), -10 + 2 * numpy.arange(ny))


def make(dtype):
    return xarray.Dataset({
        'lon': (('y', 'x'), lon.astype(dtype), {'units': 'degrees_east'}),
        'lat': (('y', 'x'), lat.astype(dtype), {'units': 'degrees_north'}),
        'v': (('y', 'x'), numpy.zeros((ny, nx))),
    })


with warnings.catch_warnings():
    warnings.simplefilter('ignore')
    reference = CFGrid2D(make('float64')).polygons

failures = []
for dtype in ['int32', 'int64', 'int16']:
    try:
        with warnings.catch_warnings():
            warnings.simplefilter('ignore')
            polygons = CFGrid2D(make(dtype)).polygons
    except Exception as exc:
        failures.append(f"{dtype} coordinates: {type(exc).__name__}: {exc}")
        continue
    if not all(a is not None and a.equals(b) for a, b in zip(polygons, reference)):
        failures.append(f"{dtype} coordinates: polygons differ from the float64 ones")

if failures:
    print("PROPERTY C06 VIOLATED")
    for failure in failures:
        print(" -", failure)
    sys.exit(1)
print("property holds")
sys.exit(0)
