"""
C02 / CFGrid2D (and ShocSimple) without bounds variables: a cell without
geometry (NaN longitude / latitude) that is only one cell wide does not stay
a hole.

When the dataset carries no bounds, CFGrid2DTopology._get_or_make_bounds()
averages the surrounding cell centres with numpy.nanmean.  A corner of the
grid is only NaN when *all four* cells around it are NaN, so a cell whose own
coordinates are missing still gets four finite corners whenever it is one
cell wide (an isolated land cell, a one cell wide spit or island chain).
``polygons[n]`` is then a polygon that was built from the coordinates of the
*neighbours* of n, ``face_centres[n]`` is NaN, and the spatial index reports
position n for points that lie in the hole; select_point() returns data of a
cell that has no location.  The same dataset *with* bounds (NaN bounds for
the hole), and holes two or more cells wide, behave as documented: the hole
is None and keeps its slot.

Exit status 1 = property violated, 0 = property holds.
"""
import sys
import warnings

import numpy
import shapely
import xarray

from emsarray.conventions.grid import CFGrid2D

NY, NX = 5, 6
HOLES = [(2, 2), (0, 4), (3, 0), (4, 4), (4, 5)]  # interior, edge, edge, and a 1x2 strip


def make(with_bounds):
    jj, ii = numpy.meshgrid(numpy.arange(NY + 1), numpy.arange(NX + 1), indexing='ij')
    xg = 100.0 + 1.0 * ii + 0.25 * jj
    yg = -10.0 + 1.0 * jj - 0.15 * ii
    lon = (xg[:-1, :-1] + xg[1:, 1:] + xg[:-1, 1:] + xg[1:, :-1]) / 4
    lat = (yg[:-1, :-1] + yg[1:, 1:] + yg[:-1, 1:] + yg[1:, :-1]) / 4
    lon_bounds = numpy.stack([xg[:-1, :-1], xg[:-1, 1:], xg[1:, 1:], xg[1:, :-1]], axis=-1)
    lat_bounds = numpy.stack([yg[:-1, :-1], yg[:-1, 1:], yg[1:, 1:], yg[1:, :-1]], axis=-1)
    for j, i in HOLES:
        lon[j, i] = lat[j, i] = numpy.nan
        lon_bounds[j, i] = lat_bounds[j, i] = numpy.nan

    lat_attrs = {'standard_name': 'latitude', 'units': 'degrees_north'}
    lon_attrs = {'standard_name': 'longitude', 'units': 'degrees_east'}
    data_vars = {'temp': (('y', 'x'), numpy.arange(NY * NX, dtype=float).reshape(NY, NX))}
    if with_bounds:
        lat_attrs['bounds'] = 'lat_bounds'
        lon_attrs['bounds'] = 'lon_bounds'
        data_vars['lat_bounds'] = (('y', 'x', 'nv'), lat_bounds)
        data_vars['lon_bounds'] = (('y', 'x', 'nv'), lon_bounds)
    return xarray.Dataset(
        data_vars=data_vars,
        coords={'lat': (('y', 'x'), lat, lat_attrs), 'lon': (('y', 'x'), lon, lon_attrs)},
    )


def check(with_bounds):
    label = "with bounds" if with_bounds else "without bounds"
    failures = []
    dataset = make(with_bounds)
    convention = CFGrid2D(dataset)
    with warnings.catch_warnings():
        warnings.simplefilter('ignore')
        polygons = convention.polygons
    centres = convention.face_centres
    lon, lat = dataset['lon'].values, dataset['lat'].values

    for n in range(NY * NX):
        j, i = convention.wind_index(n)
        has_coordinates = bool(numpy.isfinite(lon[j, i]) and numpy.isfinite(lat[j, i]))
        if not has_coordinates:
            if numpy.isfinite(centres[n]).any():
                failures.append(f"{label}: hole {(j, i)} has face centre {centres[n]}")
            if polygons[n] is not None:
                failures.append(
                    f"{label}: cell {n} {(j, i)} has no coordinates (face centre {centres[n].tolist()}) "
                    f"but polygons[{n}] = {polygons[n].wkt}")
                point = polygons[n].representative_point()
                hits = convention.strtree.query(point, predicate='intersects')
                if n in hits:
                    value = convention.select_point(point)['temp'].item()
                    failures.append(
                        f"{label}: the spatial index reports position {n} (a cell without geometry) "
                        f"for {point.wkt}; select_point returned temp={value}")
    if int(convention.mask.sum()) != NY * NX - len(HOLES):
        failures.append(
            f"{label}: {int(convention.mask.sum())} cells have a polygon, "
            f"but only {NY * NX - len(HOLES)} cells have coordinates")
    return failures


def main():
    control = check(with_bounds=True)
    if control:
        print("unexpected: the dataset with bounds fails as well")
    failures = control + check(with_bounds=False)
    for failure in failures[:10]:
        print(failure)
    if failures:
        print(f"... {len(failures)} failures in total")
        print("PROPERTY VIOLATED: cells without geometry do not stay holes")
        return 1
    print("property holds")
    return 0


if __name__ == '__main__':
    sys.exit(main())
