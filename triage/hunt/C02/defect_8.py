"""
C02 / UGRID: ``node_coordinates`` names three variables (longitude, latitude
and the node elevation), which the UGRID conventions allow: "The attribute
node_coordinates points to the auxiliary coordinate variables representing the
node locations (latitude, longitude, and optional elevation or other
coordinates)".

ugrid._split_coord() splits the attribute once (``attr.split(None, 1)``), so
the y coordinate is looked up under the name ``"Mesh2_node_y Mesh2_node_z"``.
ravel(), select_index(), wind_index() work, but ``polygons`` - and with it
``face_centres``, ``strtree``, ``mask``, ``bounds``, get_index_for_point ... -
raise ``KeyError: "No variable named 'Mesh2_node_y Mesh2_node_z'"``.
(With three names in ``face_coordinates`` the face centres given by the
dataset are silently ignored and replaced by polygon centroids.)

Exit status 1 = property violated, 0 = property holds.
"""
import sys
import warnings

import numpy
import shapely
import xarray

from emsarray.conventions.ugrid import UGrid


def make(with_elevation):
    node_x, node_y = [], []
    for j in range(3):
        for i in range(4):
            node_x.append(100.0 + i + 0.2 * j)
            node_y.append(-10.0 + j - 0.1 * i)
    node_x, node_y = numpy.array(node_x), numpy.array(node_y)
    faces = numpy.array([
        [j * 4 + i, j * 4 + i + 1, j * 4 + i + 5, j * 4 + i + 4]
        for j in range(2) for i in range(3)
    ], dtype='int32')
    node_coordinates = 'Mesh2_node_x Mesh2_node_y'
    if with_elevation:
        node_coordinates += ' Mesh2_node_z'
    return xarray.Dataset(
        data_vars={
            'Mesh2': ((), numpy.int32(0), {
                'cf_role': 'mesh_topology',
                'topology_dimension': 2,
                'node_coordinates': node_coordinates,
                'face_node_connectivity': 'Mesh2_face_nodes',
                'face_dimension': 'nMesh2_face',
            }),
            'Mesh2_face_nodes': (
                ('nMesh2_face', 'nMaxMesh2_face_nodes'), faces,
                {'cf_role': 'face_node_connectivity', 'start_index': 0}),
            'Mesh2_node_x': (('nMesh2_node',), node_x, {'standard_name': 'longitude', 'units': 'degrees_east'}),
            'Mesh2_node_y': (('nMesh2_node',), node_y, {'standard_name': 'latitude', 'units': 'degrees_north'}),
            'Mesh2_node_z': (('nMesh2_node',), -numpy.arange(12, dtype=float), {'standard_name': 'altitude', 'units': 'm', 'positive': 'up'}),
            'eta': (('time', 'nMesh2_face'), numpy.arange(12, dtype=float).reshape(2, 6)),
        },
        attrs={'Conventions': 'UGRID-1.0'},
    )


def check(with_elevation):
    label = "node_coordinates with elevation" if with_elevation else "node_coordinates x y"
    failures = []
    dataset = make(with_elevation)
    assert UGrid.check_dataset(dataset) is not None
    convention = UGrid(dataset)
    flat = convention.ravel(dataset['eta'])
    x, y = dataset['Mesh2_node_x'].values, dataset['Mesh2_node_y'].values
    faces = dataset['Mesh2_face_nodes'].values
    try:
        with warnings.catch_warnings():
            warnings.simplefilter('ignore')
            polygons = convention.polygons
            centres = convention.face_centres
    except Exception as exc:
        return [f"{label}: polygons raised {type(exc).__name__}: {exc}"]
    for n in range(6):
        expected = shapely.Polygon(list(zip(x[faces[n]], y[faces[n]])))
        if polygons[n] is None or not polygons[n].equals(expected):
            failures.append(f"{label}: polygons[{n}] = {polygons[n]}, expected {expected.wkt}")
            continue
        if not polygons[n].contains(shapely.Point(centres[n])):
            failures.append(f"{label}: face centre {n} outside its polygon")
        item = convention.get_index_for_point(polygons[n].representative_point())
        if item is None or item.linear_index != n:
            failures.append(f"{label}: get_index_for_point in cell {n} returned {item}")
        elif not numpy.array_equal(convention.select_index(item.index)['eta'].values, flat.values[:, n]):
            failures.append(f"{label}: select_index differs from ravel at {n}")
    return failures


def main():
    control = check(with_elevation=False)
    if control:
        print("unexpected: control failed")
    failures = control + check(with_elevation=True)
    for failure in failures[:6]:
        print(failure[:300])
    if failures:
        print("PROPERTY VIOLATED: no polygons / spatial index for a UGRID mesh that lists the node elevation in node_coordinates")
        return 1
    print("property holds")
    return 0


if __name__ == '__main__':
    sys.exit(main())
