"""
C02 / CFGrid2D: longitude stored with its two dimensions in the other order
than latitude (lat(y, x), lon(x, y)).

xarray addresses data by dimension *name*, so this is the same physical
dataset as one where both coordinates are stored (y, x).  ravel(),
select_index() and face_centres honour the dimension names, but the polygons
are built from the raw ``.values`` of the longitude variable.  Position n of
``polygons`` is then not the cell that position n of ``face_centres`` /
``ravel`` / ``select_index`` denotes (square grids), or polygons can not be
built at all (non square grids).

Exit status 1 = property violated, 0 = property holds.
"""
import sys
import warnings

import numpy
import shapely
import xarray

from emsarray.conventions.grid import CFGrid2D


def make(ny, nx, transpose_lon):
    jj, ii = numpy.meshgrid(numpy.arange(ny), numpy.arange(nx), indexing='ij')
    # A skewed curvilinear grid, so that a transposed grid is not the same grid.
    lon = 100.0 + 1.0 * ii + 0.25 * jj
    lat = -10.0 + 1.0 * jj - 0.15 * ii
    lat_var = (('y', 'x'), lat, {'standard_name': 'latitude', 'units': 'degrees_north'})
    lon_attrs = {'standard_name': 'longitude', 'units': 'degrees_east'}
    if transpose_lon:
        lon_var = (('x', 'y'), lon.T.copy(), lon_attrs)
    else:
        lon_var = (('y', 'x'), lon, lon_attrs)
    return xarray.Dataset(
        data_vars={'temp': (('y', 'x'), numpy.arange(ny * nx, dtype=float).reshape(ny, nx))},
        coords={'lat': lat_var, 'lon': lon_var},
    )


def check(ny, nx):
    failures = []
    reference = CFGrid2D(make(ny, nx, transpose_lon=False))
    convention = CFGrid2D(make(ny, nx, transpose_lon=True))

    # Same dataset as far as xarray is concerned
    assert make(ny, nx, False).equals(make(ny, nx, True).transpose('y', 'x'))

    with warnings.catch_warnings():
        warnings.simplefilter('ignore')
        ref_polygons = reference.polygons
        try:
            polygons = convention.polygons
        except Exception as exc:
            return [f"{ny}x{nx}: polygons can not be built: {type(exc).__name__}: {exc}"]

    centres = convention.face_centres
    if not numpy.array_equal(centres, reference.face_centres):
        failures.append(f"{ny}x{nx}: face centres differ from the reference layout")

    for n in range(ny * nx):
        index = convention.wind_index(n)
        expected, actual = ref_polygons[n], polygons[n]
        if (expected is None) != (actual is None) or (expected is not None and not actual.equals(expected)):
            failures.append(
                f"{ny}x{nx}: cell {n} {index}: polygon is {None if actual is None else actual.wkt}, "
                f"the cell's own polygon is {expected.wkt}")
        if actual is not None and actual.distance(shapely.Point(centres[n])) > 1e-9:
            failures.append(
                f"{ny}x{nx}: cell {n} {index}: face centre {centres[n].tolist()} "
                f"is outside polygons[{n}]")
    return failures


def main():
    failures = check(3, 3) + check(3, 4)
    for failure in failures[:12]:
        print(failure)
    if failures:
        print(f"... {len(failures)} failures in total")
        print("PROPERTY VIOLATED: polygons are not in the linear order of the dataset when lon is stored (x, y)")
        return 1
    print("property holds")
    return 0


if __name__ == '__main__':
    sys.exit(main())
