"""
C02 / UGRID: the mesh topology variable names an ``edge_dimension``, but the
dataset holds no variable on that dimension (no edge connectivity and no edge
data, e.g. after extracting a few face variables from a model output file).

This is a valid UGRID dataset, and Mesh2DTopology copes with it explicitly
(``edge_count`` says "This dimension may not be defined").  The polygons are
built, the STRtree answers queries and ravel() / select_index() work - but the
position <-> native index conversions (wind_index, ravel_index, grid_size) and
everything built on them (get_index_for_point, select_point) raise
``KeyError: 'nMesh2_edge'``, because DimensionConvention.grid_shape looks up
the size of the dimensions of *every* grid kind in ``dataset.sizes``.
So a spatial index hit can not be turned in to the cell it denotes.

Exit status 1 = property violated, 0 = property holds.
"""
import sys

import numpy
import shapely
import xarray

from emsarray.conventions.ugrid import UGrid, UGridKind


def make(edge_dimension_attribute):
    # 2 x 3 squares, nodes on a 3 x 4 lattice
    node_x, node_y = [], []
    for j in range(3):
        for i in range(4):
            node_x.append(100.0 + i + 0.2 * j)
            node_y.append(-10.0 + j - 0.1 * i)
    faces = []
    for j in range(2):
        for i in range(3):
            n = j * 4 + i
            faces.append([n, n + 1, n + 5, n + 4])
    faces = numpy.array(faces, dtype='int32')

    mesh_attrs = {
        'cf_role': 'mesh_topology',
        'topology_dimension': 2,
        'node_coordinates': 'Mesh2_node_x Mesh2_node_y',
        'face_node_connectivity': 'Mesh2_face_nodes',
        'face_dimension': 'nMesh2_face',
    }
    if edge_dimension_attribute:
        mesh_attrs['edge_dimension'] = 'nMesh2_edge'

    return xarray.Dataset(
        data_vars={
            'Mesh2': ((), numpy.int32(0), mesh_attrs),
            'Mesh2_face_nodes': (
                ('nMesh2_face', 'nMaxMesh2_face_nodes'), faces,
                {'cf_role': 'face_node_connectivity', 'start_index': 0}),
            'Mesh2_node_x': (('nMesh2_node',), numpy.array(node_x), {'standard_name': 'longitude'}),
            'Mesh2_node_y': (('nMesh2_node',), numpy.array(node_y), {'standard_name': 'latitude'}),
            'eta': (('time', 'nMesh2_face'), numpy.arange(12, dtype=float).reshape(2, 6)),
        },
        attrs={'Conventions': 'UGRID-1.0'},
    )


def check(dataset, label):
    failures = []
    assert UGrid.check_dataset(dataset) is not None
    convention = UGrid(dataset)

    polygons = convention.polygons
    flat = convention.ravel(dataset['eta'])
    assert len(polygons) == flat.sizes['index'] == 6

    for n, polygon in enumerate(polygons):
        point = polygon.representative_point()
        hits = convention.strtree.query(point, predicate='intersects')
        if list(hits) != [n]:
            failures.append(f"{label}: strtree hits {hits} for a point in cell {n}")
            continue
        # Turn the hit in to the native index, and the native index in to data
        try:
            index = convention.wind_index(int(hits[0]))
        except Exception as exc:
            failures.append(f"{label}: wind_index({n}) raised {type(exc).__name__}: {exc}")
            index = (UGridKind.face, n)
        try:
            back = convention.ravel_index(index)
            if back != n:
                failures.append(f"{label}: ravel_index({index}) = {back}, expected {n}")
        except Exception as exc:
            failures.append(f"{label}: ravel_index({index}) raised {type(exc).__name__}: {exc}")
        selected = convention.select_index(index)['eta'].values
        if not numpy.array_equal(selected, flat.values[:, n]):
            failures.append(f"{label}: select_index({index}) differs from ravel()[..., {n}]")
        try:
            item = convention.get_index_for_point(point)
            if item is None or item.linear_index != n or item.index != (UGridKind.face, n):
                failures.append(f"{label}: get_index_for_point in cell {n} returned {item}")
        except Exception as exc:
            failures.append(f"{label}: get_index_for_point in cell {n} raised {type(exc).__name__}: {exc}")
    try:
        sizes = convention.grid_size
        if sizes[UGridKind.face] != 6:
            failures.append(f"{label}: grid_size {sizes}")
    except Exception as exc:
        failures.append(f"{label}: grid_size raised {type(exc).__name__}: {exc}")
    return failures


def main():
    control = check(make(edge_dimension_attribute=False), "without edge_dimension attribute")
    if control:
        print("unexpected: the control dataset fails as well")
    failures = control + check(make(edge_dimension_attribute=True), "with edge_dimension attribute")
    for failure in failures[:8]:
        print(failure)
    if failures:
        print(f"... {len(failures)} failures in total")
        print("PROPERTY VIOLATED: positions of a UGRID dataset can not be converted to native indexes")
        return 1
    print("property holds")
    return 0


if __name__ == '__main__':
    sys.exit(main())
