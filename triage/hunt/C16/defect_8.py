"""
C16 defect 8: the key depends on the ORDER in which the attributes of a
geometry variable were inserted. Two variables whose attrs dictionaries are
equal (xarray's .identical() is True) get different keys.

Run from the worktree root:
    PYTHONPATH=src:. python seed_out/defect_8.py
Exits 1 when the property is violated, 0 when it holds.
"""
import sys
import warnings

import numpy
import xarray

import emsarray  # noqa: F401
from emsarray.operations.cache import make_cache_key

warnings.simplefilter('ignore')

LON_ATTRS = [('standard_name', 'longitude'), ('units', 'degrees_east'), ('axis', 'X')]
LAT_ATTRS = [('standard_name', 'latitude'), ('units', 'degrees_north'), ('axis', 'Y')]


def build(reverse):
    order = reversed if reverse else list
    lon = xarray.DataArray(numpy.arange(5.0), dims=['lon'], attrs=dict(order(LON_ATTRS)))
    lat = xarray.DataArray(numpy.arange(4.0), dims=['lat'], attrs=dict(order(LAT_ATTRS)))
    return xarray.Dataset(
        {'temp': (('lat', 'lon'), numpy.zeros((4, 5)))},
        coords={'lon': lon, 'lat': lat})


a = build(reverse=False)
b = build(reverse=True)
print("lon attrs a:", a['lon'].attrs)
print("lon attrs b:", b['lon'].attrs)
print("a.identical(b):", a.identical(b))
assert a.identical(b)
assert type(a.ems) is type(b.ems)

key_a, key_b = make_cache_key(a), make_cache_key(b)
print("key a:", key_a)
print("key b:", key_b)
if key_a != key_b:
    print("\nPROPERTY VIOLATED: identical geometry variables (same attributes, other insertion order), different key")
    sys.exit(1)
print("\nproperty holds")
sys.exit(0)
