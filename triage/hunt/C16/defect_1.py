"""
C16 defect 1: the cache key of an UNCHANGED dataset depends on how many
references exist to its attribute values (marshal FLAG_REF), i.e. on the
call history of the program.

Run from the worktree root:
    PYTHONPATH=src:. python seed_out/defect_1.py
Exits 1 when the property is violated, 0 when it holds.
"""
import os
import sys
import tempfile
import warnings

import numpy
import xarray

import emsarray
from emsarray.operations.cache import make_cache_key

warnings.simplefilter('ignore')


def write_cfgrid1d(path):
    lon = xarray.DataArray(numpy.arange(5.0), dims=['lon'], attrs={
        'standard_name': 'longitude', 'units': 'degrees_east'})
    lat = xarray.DataArray(numpy.arange(4.0), dims=['lat'], attrs={
        'standard_name': 'latitude', 'units': 'degrees_north'})
    dataset = xarray.Dataset(
        {'temp': (('time', 'lat', 'lon'), numpy.zeros((2, 4, 5)))},
        coords={'lon': lon, 'lat': lat})
    dataset.to_netcdf(path)


def write_cfgrid2d(path):
    jj, ii = numpy.meshgrid(numpy.arange(3.0), numpy.arange(4.0), indexing='ij')
    dataset = xarray.Dataset({
        'temp': xarray.DataArray(numpy.zeros((3, 4)), dims=['j', 'i'], attrs={'coordinates': 'lon lat'}),
        'lon': xarray.DataArray(ii + 0.1 * jj, dims=['j', 'i'], attrs={'standard_name': 'longitude', 'units': 'degrees_east'}),
        'lat': xarray.DataArray(jj + 0.1 * ii, dims=['j', 'i'], attrs={'standard_name': 'latitude', 'units': 'degrees_north'}),
    })
    dataset.to_netcdf(path)


def write_ugrid(path):
    # Six nodes, two quads. COMPAS style: the mesh names its face dimension.
    node_x = numpy.array([0., 1., 2., 0., 1., 2.])
    node_y = numpy.array([0., 0., 0., 1., 1., 1.])
    face_node = numpy.array([[0, 1, 4, 3], [1, 2, 5, 4]], dtype='int32')
    dataset = xarray.Dataset({
        'Mesh2': xarray.DataArray(numpy.int32(0), attrs={
            'cf_role': 'mesh_topology', 'topology_dimension': numpy.int32(2),
            'node_coordinates': 'Mesh2_node_x Mesh2_node_y',
            'face_node_connectivity': 'Mesh2_face_nodes',
            'face_dimension': 'nMesh2_face',
        }),
        'Mesh2_face_nodes': xarray.DataArray(
            face_node, dims=['nMesh2_face', 'nMaxMesh2_face_nodes'],
            attrs={'cf_role': 'face_node_connectivity', 'start_index': numpy.int32(0)}),
        'Mesh2_node_x': xarray.DataArray(node_x, dims=['nMesh2_node'], attrs={'standard_name': 'longitude'}),
        'Mesh2_node_y': xarray.DataArray(node_y, dims=['nMesh2_node'], attrs={'standard_name': 'latitude'}),
        'eta': xarray.DataArray(numpy.zeros((2, 2)), dims=['record', 'nMesh2_face']),
    }, attrs={'Conventions': 'UGRID-1.0'})
    dataset.to_netcdf(path)


failures = []


def check(label, expected, actual):
    ok = expected == actual
    print(f"{'ok  ' if ok else 'FAIL'} {label}")
    if not ok:
        print(f"       expected {expected}")
        print(f"       got      {actual}")
        failures.append(label)


with tempfile.TemporaryDirectory() as tmp:
    cf1d = os.path.join(tmp, 'cf1d.nc')
    cf2d = os.path.join(tmp, 'cf2d.nc')
    ugrid = os.path.join(tmp, 'ugrid.nc')
    write_cfgrid1d(cf1d)
    write_cfgrid2d(cf2d)
    write_ugrid(ugrid)

    # (a) Reading one attribute value into a local variable changes the key
    dataset = emsarray.open_dataset(cf1d)
    before = make_cache_key(dataset)
    units = dataset['lon'].attrs['units']  # nothing is modified
    after = make_cache_key(dataset)
    check("CFGrid1D: key unchanged after reading lon.attrs['units'] into a variable", before, after)
    del units

    # (b) Making a copy of the dataset changes the key of the original AND of the copy
    dataset = emsarray.open_dataset(cf1d)
    before = make_cache_key(dataset)
    duplicate = dataset.copy()
    check("CFGrid1D: key of the original unchanged after dataset.copy()", before, make_cache_key(dataset))
    check("CFGrid1D: dataset.copy() has the same key as the original had", before, make_cache_key(duplicate))
    del duplicate

    # (c) Same geometry, coordinates held as plain variables instead of xarray coordinates
    dataset = emsarray.open_dataset(cf2d)
    before = make_cache_key(dataset)
    plain = emsarray.open_dataset(cf2d).reset_coords(['lon', 'lat'])
    check("CFGrid2D: same key when lon/lat are plain variables (reset_coords)", before, make_cache_key(plain))

    # (d) Different data variables / time steps, same geometry
    dataset = emsarray.open_dataset(cf2d)
    before = make_cache_key(dataset)
    other = emsarray.open_dataset(cf2d).copy()
    other['temp'] = other['temp'] + 1
    check("CFGrid2D: same key for a copy with different data values", before, make_cache_key(other))

    # (e) Using the library on a UGRID dataset between two calls changes its key
    dataset = emsarray.open_dataset(ugrid)
    before = make_cache_key(dataset)
    dataset.ems.polygons  # caches topology.face_dimension, a second reference to an attribute string
    after = make_cache_key(dataset)
    check("UGrid: key of one dataset unchanged after computing dataset.ems.polygons", before, after)

if failures:
    print(f"\nPROPERTY VIOLATED: {len(failures)} check(s) failed; "
          "the geometry was identical in every comparison")
    sys.exit(1)
print("\nproperty holds")
sys.exit(0)
