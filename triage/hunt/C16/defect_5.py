"""
C16 defect 5: when a geometry variable has encoding['dtype'] (every variable
of a dataset opened from a file has one), hash_geometry hashes THAT name and
never looks at the real dtype of the values. Changing the type of a geometry
variable while keeping the same bytes (float32 -> int32, float64 -> int64)
therefore leaves the key unchanged, for every convention.
(The opposite face of the same line - equal geometry, different key - is
defect 2.)

Run from the worktree root:
    PYTHONPATH=src:. python seed_out/defect_5.py
Exits 1 when the property is violated, 0 when it holds.
"""
import os
import sys
import tempfile
import warnings

import numpy
import xarray

import emsarray
from emsarray.operations.cache import make_cache_key

warnings.simplefilter('ignore')


def write_cfgrid2d(path):
    jj, ii = numpy.meshgrid(numpy.arange(3.0), numpy.arange(4.0), indexing='ij')
    xarray.Dataset({
        'temp': xarray.DataArray(numpy.zeros((3, 4)), dims=['j', 'i'], attrs={'coordinates': 'lon lat'}),
        'lon': xarray.DataArray((ii + 0.5 * jj).astype('float32'), dims=['j', 'i'], attrs={'standard_name': 'longitude'}),
        'lat': xarray.DataArray((jj + 0.5 * ii).astype('float32'), dims=['j', 'i'], attrs={'standard_name': 'latitude'}),
    }).to_netcdf(path)


def write_ugrid(path):
    xarray.Dataset({
        'Mesh2': xarray.DataArray(numpy.int32(0), attrs={
            'cf_role': 'mesh_topology', 'topology_dimension': numpy.int32(2),
            'node_coordinates': 'node_x node_y', 'face_node_connectivity': 'face_node'}),
        'face_node': xarray.DataArray(
            numpy.array([[0, 1, 4, 3], [1, 2, 5, 4]], dtype='int32'), dims=['nface', 'nmax'],
            attrs={'cf_role': 'face_node_connectivity', 'start_index': numpy.int32(0)}),
        'node_x': xarray.DataArray(numpy.array([0., 1., 2., 0., 1., 2.]), dims=['nnode'], attrs={'standard_name': 'longitude'}),
        'node_y': xarray.DataArray(numpy.array([0., 0., 0., 1., 1., 1.]), dims=['nnode'], attrs={'standard_name': 'latitude'}),
        'eta': xarray.DataArray(numpy.zeros((2, 2)), dims=['time', 'nface']),
    }, attrs={'Conventions': 'UGRID-1.0'}).to_netcdf(path)


failures = 0
with tempfile.TemporaryDirectory() as tmp:
    cases = [
        (write_cfgrid2d, 'cfgrid2d.nc', 'lon', 'int32'),
        (write_ugrid, 'ugrid_a.nc', 'node_x', 'int64'),
        (write_ugrid, 'ugrid_b.nc', 'face_node', 'float32'),
    ]
    for writer, filename, name, new_dtype in cases:
        path = os.path.join(tmp, filename)
        writer(path)
        original = emsarray.open_dataset(path)
        edited = emsarray.open_dataset(path)
        edited[name].values = edited[name].values.view(new_dtype)   # same bytes, other type
        key_original, key_edited = make_cache_key(original), make_cache_key(edited)
        print(f"{type(original.ems).__name__}.{name}: dtype {original[name].dtype} -> {edited[name].dtype}, "
              f"first values {original[name].values.ravel()[:2]} -> {edited[name].values.ravel()[:2]}")
        print("    key original:", key_original)
        print("    key edited:  ", key_edited)
        if key_original == key_edited:
            print(f"FAIL: changing the dtype of geometry variable {name!r} did not change the key")
            failures += 1
        original.close()
        edited.close()

if failures:
    print("\nPROPERTY VIOLATED")
    sys.exit(1)
print("\nproperty holds")
sys.exit(0)
