"""
C16 defect 7: numeric attributes read from netCDF files are numpy scalars and
numpy arrays. marshal.dumps() does not know these types and serialises them
through the buffer protocol as an anonymous byte string: their dtype and shape
are lost. Changing an attribute of a geometry variable to another value of
another type with the same bytes leaves the key unchanged.

Run from the worktree root:
    PYTHONPATH=src:. python seed_out/defect_7.py
Exits 1 when the property is violated, 0 when it holds.
"""
import sys
import warnings

import numpy
import xarray

import emsarray  # noqa: F401
from emsarray.operations.cache import make_cache_key

warnings.simplefilter('ignore')


def build(**lon_attrs):
    lon = xarray.DataArray(numpy.arange(5.0), dims=['lon'], attrs={
        'standard_name': 'longitude', 'units': 'degrees_east', **lon_attrs})
    lat = xarray.DataArray(numpy.arange(4.0), dims=['lat'], attrs={
        'standard_name': 'latitude', 'units': 'degrees_north'})
    return xarray.Dataset(
        {'temp': (('lat', 'lon'), numpy.zeros((4, 5)))},
        coords={'lon': lon, 'lat': lat})


pairs = [
    # valid_range [0, 360] as two int32  ->  four int16 [0, 0, 360, 0]
    ('valid_range', numpy.array([0, 360], dtype='int32'), numpy.array([0, 0, 360, 0], dtype='int16')),
    # valid_max 1.0 as float32  ->  1065353216 as int32
    ('valid_max', numpy.float32(1.0), numpy.int32(1065353216)),
    # a two element int32 array  ->  one int64 scalar
    ('valid_range', numpy.array([0, 360], dtype='int32'), numpy.int64(360 << 32)),
    # a number  ->  a byte string
    ('missing_value', numpy.int16(0x4141), b'AA'),
]

failures = 0
for name, before, after in pairs:
    key_before = make_cache_key(build(**{name: before}))
    key_after = make_cache_key(build(**{name: after}))
    same = key_before == key_after
    print(f"lon.attrs[{name!r}]: {before!r} -> {after!r}: key {'UNCHANGED' if same else 'changed'}")
    if same:
        failures += 1

# control: a change of the bytes is noticed
assert make_cache_key(build(valid_max=numpy.float32(1.0))) != make_cache_key(build(valid_max=numpy.float32(2.0)))

if failures:
    print(f"\nPROPERTY VIOLATED: {failures} attribute changes of a geometry variable did not change the key")
    sys.exit(1)
print("\nproperty holds")
sys.exit(0)
