"""
C16 defect 9: for UGRID datasets the inventory of geometry variables depends
on non-geometry content. Mesh2DTopology.two_dimension prefers ANY dimension
that is called 'Two' and has size 2. Adding a data variable that uses such a
dimension (here: time bounds) to a mesh whose edge_node_connectivity uses a
differently named pair dimension makes has_valid_edge_node_connectivity
False, the edge table silently leaves get_all_geometry_names(), and the key
changes - although no geometry variable was touched.

Run from the worktree root:
    PYTHONPATH=src:. python seed_out/defect_9.py
Exits 1 when the property is violated, 0 when it holds.
"""
import sys
import warnings

import numpy
import xarray

import emsarray  # noqa: F401
from emsarray.operations.cache import make_cache_key

warnings.simplefilter('ignore')


def build():
    node_x = numpy.array([0., 1., 2., 0., 1., 2.])
    node_y = numpy.array([0., 0., 0., 1., 1., 1.])
    face_node = numpy.array([[0, 1, 4, 3], [1, 2, 5, 4]], dtype='int32')
    edge_node = numpy.array([[0, 1], [1, 2], [0, 3], [1, 4], [2, 5], [3, 4], [4, 5]], dtype='int32')
    return xarray.Dataset({
        'Mesh2': xarray.DataArray(numpy.int32(0), attrs={
            'cf_role': 'mesh_topology', 'topology_dimension': 2,
            'node_coordinates': 'node_x node_y',
            'face_node_connectivity': 'face_node',
            'edge_node_connectivity': 'edge_node',
        }),
        'face_node': xarray.DataArray(face_node, dims=['nface', 'nmax'], attrs={'cf_role': 'face_node_connectivity', 'start_index': 0}),
        'edge_node': xarray.DataArray(edge_node, dims=['nedge', 'pair'], attrs={'cf_role': 'edge_node_connectivity', 'start_index': 0}),
        'node_x': xarray.DataArray(node_x, dims=['nnode'], attrs={'standard_name': 'longitude'}),
        'node_y': xarray.DataArray(node_y, dims=['nnode'], attrs={'standard_name': 'latitude'}),
        'time': xarray.DataArray(numpy.arange(3.0), dims=['time'], attrs={'units': 'days since 2000-01-01'}),
        'eta': xarray.DataArray(numpy.zeros((3, 2)), dims=['time', 'nface']),
        'u': xarray.DataArray(numpy.zeros((3, 7)), dims=['time', 'nedge']),
    }, attrs={'Conventions': 'UGRID-1.0'})


plain = build()
with_bounds = build()
with_bounds['time_bounds'] = xarray.DataArray(
    numpy.stack([numpy.arange(3.0) - 0.5, numpy.arange(3.0) + 0.5], axis=-1), dims=['time', 'Two'])

names_plain = plain.ems.get_all_geometry_names()
names_bounds = with_bounds.ems.get_all_geometry_names()
print("geometry variables without time_bounds:", names_plain)
print("geometry variables with time_bounds:   ", names_bounds)
for name in names_plain:
    assert plain[name].identical(with_bounds[name])

key_plain, key_bounds = make_cache_key(plain), make_cache_key(with_bounds)
print("key without time_bounds:", key_plain)
print("key with time_bounds:   ", key_bounds)
if key_plain != key_bounds:
    print("\nPROPERTY VIOLATED: adding the data variable time_bounds(time, Two) changed the geometry key")
    sys.exit(1)
print("\nproperty holds")
sys.exit(0)
