"""
C16 defect 4: make_cache_key crashes when a geometry variable carries the
(perfectly ordinary) encoding  {'dtype': 'float32'}  - a dtype given as a
string or as a numpy scalar type instead of a numpy.dtype instance.
xarray accepts all three spellings when it writes the file.

Run from the worktree root:
    PYTHONPATH=src:. python seed_out/defect_4.py
Exits 1 when the property is violated, 0 when it holds.
"""
import os
import sys
import tempfile
import warnings

import numpy
import xarray

import emsarray
from emsarray.operations.cache import make_cache_key

warnings.simplefilter('ignore')


def build(encoding_dtype=None):
    jj, ii = numpy.meshgrid(numpy.arange(3.0), numpy.arange(4.0), indexing='ij')
    dataset = xarray.Dataset({
        'temp': xarray.DataArray(numpy.zeros((3, 4)), dims=['j', 'i']),
        'lon': xarray.DataArray((ii + 0.5 * jj).astype('float32'), dims=['j', 'i'], attrs={'standard_name': 'longitude'}),
        'lat': xarray.DataArray((jj + 0.5 * ii).astype('float32'), dims=['j', 'i'], attrs={'standard_name': 'latitude'}),
    }).set_coords(['lon', 'lat'])
    if encoding_dtype is not None:
        dataset['lon'].encoding['dtype'] = encoding_dtype
        dataset['lat'].encoding['dtype'] = encoding_dtype
    return dataset


failures = 0
reference = make_cache_key(build(numpy.dtype('float32')))
print("key with encoding dtype=numpy.dtype('float32'):", reference)

for label, spelling in [("'float32' (str)", 'float32'), ("numpy.float32 (type)", numpy.float32)]:
    dataset = build(spelling)
    # The encoding is legitimate: xarray writes the file without complaint.
    with tempfile.TemporaryDirectory() as tmp:
        dataset.to_netcdf(os.path.join(tmp, 'out.nc'))
    try:
        key = make_cache_key(dataset)
    except Exception as exc:
        print(f"FAIL encoding dtype={label}: make_cache_key raised {type(exc).__name__}: {exc}")
        failures += 1
        continue
    print(f"key with encoding dtype={label}: {key}")
    if key != reference:
        print("FAIL: same geometry and same encoded type, different key")
        failures += 1

if failures:
    print("\nPROPERTY VIOLATED")
    sys.exit(1)
print("\nproperty holds")
sys.exit(0)
