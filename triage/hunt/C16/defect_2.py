"""
C16 defect 2: the key depends on the private ``encoding['dtype']`` hint of the
geometry variables instead of on their type. The hint is lost whenever xarray
builds a new variable - most prominently in ``xarray.open_mfdataset`` - so the
advertised use case fails: one file of a multi-file dataset and the combined
multi-file dataset (same geometry, more time steps) get different keys as soon
as a geometry variable is stored with a fill value or packed (the in-memory
type then differs from the on-disk type).

Run from the worktree root:
    PYTHONPATH=src:. python seed_out/defect_2.py
Exits 1 when the property is violated, 0 when it holds.
"""
import os
import sys
import tempfile
import warnings

import dask
import numpy
import xarray

import emsarray
from emsarray.operations.cache import make_cache_key

warnings.simplefilter('ignore')
dask.config.set(scheduler='synchronous')


def write(path, first_day):
    # One quad and one triangle: the triangle row is padded with the fill value.
    fill = -999
    node_x = numpy.array([0., 1., 2., 0., 1.])
    node_y = numpy.array([0., 0., 0., 1., 1.])
    face_node = numpy.array([[0, 1, 4, 3], [1, 2, 4, fill]], dtype='int32')
    dataset = xarray.Dataset({
        'Mesh2': xarray.DataArray(numpy.int32(0), attrs={
            'cf_role': 'mesh_topology', 'topology_dimension': numpy.int32(2),
            'node_coordinates': 'node_x node_y',
            'face_node_connectivity': 'face_node',
        }),
        'face_node': xarray.DataArray(
            numpy.ma.masked_equal(face_node, fill).astype('float64').filled(numpy.nan),
            dims=['nface', 'nmax'],
            attrs={'cf_role': 'face_node_connectivity', 'start_index': numpy.int32(0)}),
        'node_x': xarray.DataArray(node_x, dims=['nnode'], attrs={'standard_name': 'longitude'}),
        'node_y': xarray.DataArray(node_y, dims=['nnode'], attrs={'standard_name': 'latitude'}),
        'time': xarray.DataArray(
            numpy.arange(first_day, first_day + 2, dtype='float64'), dims=['time'],
            attrs={'units': 'days since 2000-01-01', 'standard_name': 'time'}),
        'eta': xarray.DataArray(numpy.full((2, 2), float(first_day)), dims=['time', 'nface']),
    }, attrs={'Conventions': 'UGRID-1.0'})
    dataset.to_netcdf(path, unlimited_dims=['time'], encoding={
        'face_node': {'dtype': 'int32', '_FillValue': fill},
    })


failures = 0
with tempfile.TemporaryDirectory() as tmp:
    paths = [os.path.join(tmp, 'day0.nc'), os.path.join(tmp, 'day2.nc')]
    write(paths[0], 0)
    write(paths[1], 2)

    one = emsarray.open_dataset(paths[0])
    two = emsarray.open_dataset(paths[1])
    both = xarray.open_mfdataset(paths, data_vars=['eta'])
    assert type(one.ems) is type(both.ems)
    print("time steps:", one.sizes['time'], two.sizes['time'], both.sizes['time'])

    names = one.ems.get_all_geometry_names()
    assert names == both.ems.get_all_geometry_names()
    for name in names:
        a, b = one[name], both[name]
        assert a.dtype == b.dtype and a.shape == b.shape and a.attrs == b.attrs, name
        assert a.values.tobytes() == b.values.tobytes(), name
        print(f"  {name}: dtype {a.dtype} / {b.dtype}, shape {a.shape} / {b.shape}, "
              f"encoding dtype {a.encoding.get('dtype')} / {b.encoding.get('dtype')}")

    key_one, key_two, key_both = make_cache_key(one), make_cache_key(two), make_cache_key(both)
    print("key file 1:    ", key_one)
    print("key file 2:    ", key_two)
    print("key multi-file:", key_both)
    if not (key_one == key_two == key_both):
        print("FAIL: same geometry variables (names, types, shapes, values, attributes), different keys")
        failures += 1

    # The same thing without open_mfdataset: forget the hint, in place
    again = emsarray.open_dataset(paths[0])
    del again['face_node'].encoding['dtype']
    key_again = make_cache_key(again)
    print("key file 1 without the encoding hint:", key_again)
    if key_again != key_one:
        print("FAIL: removing encoding['dtype'] of a geometry variable changed the key")
        failures += 1

if failures:
    print("\nPROPERTY VIOLATED")
    sys.exit(1)
print("\nproperty holds")
sys.exit(0)
