"""
C16 defect 10: make_cache_key raises NoEdgeDimensionException for a UGRID dataset
opened from a file that has a face_edge_connectivity variable with a
_FillValue but names no edge dimension / edge_node_connectivity (both optional
in UGRID). The same dataset built in memory (no '_FillValue' in the encoding)
gets a key, and the library happily builds its polygons.
UGrid.get_all_geometry_names -> has_valid_face_edge_connectivity ->
self.edge_count raises instead of answering.

Run from the worktree root:
    PYTHONPATH=src:. python seed_out/defect_10.py
Exits 1 when the property is violated, 0 when it holds.
"""
import os
import sys
import tempfile
import warnings

import numpy
import xarray

import emsarray
from emsarray.operations.cache import make_cache_key

warnings.simplefilter('ignore')


def build():
    node_x = numpy.array([0., 1., 2., 0., 1., 2.])
    node_y = numpy.array([0., 0., 0., 1., 1., 1.])
    face_node = numpy.array([[0, 1, 4, 3], [1, 2, 5, 4]], dtype='int32')
    face_edge = numpy.array([[0, 3, 5, 2], [1, 4, 6, 3]], dtype='int32')
    return xarray.Dataset({
        'Mesh2': xarray.DataArray(numpy.int32(0), attrs={
            'cf_role': 'mesh_topology', 'topology_dimension': numpy.int32(2),
            'node_coordinates': 'node_x node_y',
            'face_node_connectivity': 'face_node',
            'face_edge_connectivity': 'face_edge',
        }),
        'face_node': xarray.DataArray(face_node, dims=['nface', 'nmax'], attrs={
            'cf_role': 'face_node_connectivity', 'start_index': numpy.int32(0)}),
        'face_edge': xarray.DataArray(face_edge, dims=['nface', 'nmax'], attrs={
            'cf_role': 'face_edge_connectivity', 'start_index': numpy.int32(0)}),
        'node_x': xarray.DataArray(node_x, dims=['nnode'], attrs={'standard_name': 'longitude'}),
        'node_y': xarray.DataArray(node_y, dims=['nnode'], attrs={'standard_name': 'latitude'}),
        'eta': xarray.DataArray(numpy.zeros((3, 2)), dims=['time', 'nface']),
    }, attrs={'Conventions': 'UGRID-1.0'})


memory = build()
print("in memory: geometry variables", memory.ems.get_all_geometry_names())
print("in memory: key", make_cache_key(memory))

with tempfile.TemporaryDirectory() as tmp:
    path = os.path.join(tmp, 'mesh.nc')
    memory.to_netcdf(path, encoding={'face_node': {'_FillValue': -1}, 'face_edge': {'_FillValue': -1}})
    disk = emsarray.open_dataset(path)
    disk.load()
print("from file: convention", type(disk.ems).__name__, "| polygons:", [p.wkt for p in disk.ems.polygons])
try:
    key = make_cache_key(disk)
except Exception as exc:
    print(f"from file: make_cache_key raised {type(exc).__name__}: {exc!r}")
    print("\nPROPERTY VIOLATED: no key for a dataset the property covers")
    sys.exit(1)
print("from file: key", key)
print("\nproperty holds (a key was produced)")
sys.exit(0)
