"""
C16 defect 3: equal attribute dictionaries give different keys depending on
whether the attribute strings happen to be interned by the interpreter
(marshal writes a different type code for interned strings).
A dataset built in memory from string literals and the same dataset after a
round trip through a netCDF file therefore get different keys.

Run from the worktree root:
    PYTHONPATH=src:. python seed_out/defect_3.py
Exits 1 when the property is violated, 0 when it holds.
"""
import os
import sys
import tempfile
import warnings

import numpy
import xarray

import emsarray
from emsarray.operations.cache import make_cache_key

warnings.simplefilter('ignore')


def build(make_string):
    s = make_string
    lon = xarray.DataArray(numpy.arange(5.0), dims=['lon'], attrs={
        s('standard_name'): s('longitude'), s('units'): s('degrees_east')})
    lat = xarray.DataArray(numpy.arange(4.0), dims=['lat'], attrs={
        s('standard_name'): s('latitude'), s('units'): s('degrees_north')})
    return xarray.Dataset(
        {'temp': (('lat', 'lon'), numpy.zeros((4, 5)))},
        coords={'lon': lon, 'lat': lat})


def fresh(value):
    # A brand new str object: not interned, referenced from nowhere else.
    return value.encode('ascii').decode('ascii')


def interned(value):
    return sys.intern(fresh(value))


def same_geometry(a, b):
    for name in a.ems.get_all_geometry_names():
        x, y = a[name], b[name]
        assert x.dtype == y.dtype and x.shape == y.shape
        assert x.values.tobytes() == y.values.tobytes()
        assert x.attrs == y.attrs
        assert list(x.attrs) == list(y.attrs)
        assert all(type(x.attrs[k]) is type(y.attrs[k]) is str for k in x.attrs)
    assert type(a.ems) is type(b.ems)


failures = 0

# (a) isolated: the only difference is sys.intern() on the attribute strings
plain = build(fresh)
inter = build(interned)
same_geometry(plain, inter)
key_plain, key_inter = make_cache_key(plain), make_cache_key(inter)
print("attrs are equal str->str dicts, values/dtypes/shapes identical")
print("  key, strings not interned:", key_plain)
print("  key, strings interned:    ", key_inter)
if key_plain != key_inter:
    print("FAIL: interning the attribute strings changed the key")
    failures += 1

# (b) the practical consequence: a dataset made in memory (literals are interned)
#     versus the very same dataset written by xarray and opened again
memory = build(lambda value: value)
with tempfile.TemporaryDirectory() as tmp:
    path = os.path.join(tmp, 'grid.nc')
    memory.to_netcdf(path)
    disk = emsarray.open_dataset(path)
    disk.load()
    same_geometry(memory, disk)
    key_memory, key_disk = make_cache_key(memory), make_cache_key(disk)
print("  key, in-memory dataset:   ", key_memory)
print("  key, saved and reopened:  ", key_disk)
if key_memory != key_disk:
    print("FAIL: saving the dataset and opening it again changed the key")
    failures += 1

if failures:
    print("\nPROPERTY VIOLATED")
    sys.exit(1)
print("\nproperty holds")
sys.exit(0)
