"""
C03 - UGRID dataset whose mesh names an edge_dimension that xarray does not
hold (no remaining variable uses it).  The convention still advertises the
edge grid kind, the topology helper can count the edges, but wind() for that
grid kind (and grid_size for EVERY kind) fails with a bare KeyError because
DimensionConvention reads dataset.sizes[...] directly.

The state is produced by the library itself: select_variables() drops the
only variable defined on the edge dimension.
"""
import sys
import warnings

import numpy
import xarray

from emsarray.conventions.ugrid import UGridKind
from tests.conventions.test_ugrid import make_dataset

warnings.simplefilter('ignore')


def main() -> int:
    dataset = make_dataset(width=3)
    # edge_node_connectivity is optional in UGRID; emsarray derives it when needed.
    edge_nodes = dataset['Mesh2'].attrs.pop('edge_node_connectivity')
    dataset = dataset.drop_vars([edge_nodes])
    assert 'nMesh2_edge' in dataset.sizes  # u1 is defined on the edges

    # Keep only the face variables: the edge dimension disappears with `u1`.
    subset = dataset.ems.select_variables(['temp', 'eta'])
    convention = subset.ems
    print("mesh edge_dimension attribute:", subset['Mesh2'].attrs.get('edge_dimension'))
    print("dimensions held by xarray:", dict(subset.sizes))
    print("grid kinds:", sorted(kind.name for kind in convention.grid_kinds))

    if UGridKind.edge not in convention.grid_kinds:
        print("edge grid kind not advertised, nothing to wind")
        return 0

    failures = []
    edge_count = convention.topology.edge_count
    print("topology.edge_count:", edge_count)
    linear = xarray.DataArray(numpy.arange(2 * edge_count).reshape(2, edge_count), dims=['time', 'index'])
    try:
        wound = convention.wind(linear, grid_kind=UGridKind.edge)
        flat = convention.ravel(wound)
        if flat.dims != linear.dims or not numpy.array_equal(flat.values, linear.values):
            failures.append(f"ravel(wind(x)) != x: {flat.dims} {flat.shape}")
    except Exception as err:
        failures.append(f"wind(grid_kind=edge) raised {type(err).__name__}: {err}")

    try:
        face_size = convention.grid_size[UGridKind.face]
        assert face_size == subset.sizes['nMesh2_face']
    except Exception as err:
        failures.append(f"grid_size[face] raised {type(err).__name__}: {err}")

    if failures:
        print("PROPERTY VIOLATED:")
        for failure in failures:
            print("  -", failure)
        return 1
    print("edge data can be wound and flattened")
    return 0


if __name__ == '__main__':
    sys.exit(main())
