"""
C03 - ravel() with a custom linear dimension name that collides with a
dimension the variable keeps is not refused: it returns an array with two
dimensions of the same name.  wind() then converts "last axis" / "axis=-1"
to that name and back to a position with tuple.index(), finds the FIRST
dimension of that name and winds the wrong axis.  When the sizes happen to
agree the result is silently wrong.
"""
import sys
import warnings

import numpy
import xarray

from tests.conventions.test_cfgrid2d import make_dataset

warnings.simplefilter('ignore')


def main() -> int:
    dataset = make_dataset(j_size=3, i_size=4)
    convention = dataset.ems
    grid_dims = list(convention.grid_dimensions[convention.default_grid_kind])
    grid_size = convention.grid_size[convention.default_grid_kind]  # 12

    # A variable with one extra dimension 'k' whose length equals the grid size.
    values = numpy.arange(grid_size * grid_size, dtype=float).reshape(grid_size, 3, 4)
    variable = xarray.DataArray(values, dims=['k', *grid_dims])

    try:
        flat = convention.ravel(variable, linear_dimension='k')
    except ValueError as err:
        print("ravel refused the colliding name, which is fine:", err)
        return 0

    print("ravel(linear_dimension='k') returned dims", flat.dims, "shape", flat.shape)
    failures = []
    if len(set(flat.dims)) != len(flat.dims):
        failures.append(f"ravel returned duplicate dimension names {flat.dims!r} instead of refusing")

    for label, kwargs in [("default position", {}), ("axis=-1", {'axis': -1}), ("axis=1", {'axis': 1})]:
        try:
            wound = convention.wind(flat, **kwargs)
        except Exception as err:
            failures.append(f"wind({label}) raised {type(err).__name__}: {err}")
            continue
        expected_dims = ('k', *grid_dims)
        if wound.dims != expected_dims or not numpy.array_equal(wound.values, values):
            same = wound.shape == values.shape and numpy.array_equal(wound.values, values)
            failures.append(
                f"wind({label}) wound the wrong axis: dims {wound.dims!r} shape {wound.shape}, "
                f"expected dims {expected_dims!r} shape {values.shape}; values equal: {same}")

    if failures:
        print("PROPERTY VIOLATED:")
        for failure in failures:
            print("  -", failure)
        return 1
    print("round trip is exact")
    return 0


if __name__ == '__main__':
    sys.exit(main())
