"""
C03 - ravel() crashes for a variable that has a zero length extra dimension
(an unlimited record dimension with no records yet, an empty time selection).
wind() handles the same layout, so ravel is not the inverse of wind there.
"""
import sys
import warnings

import numpy
import xarray

from tests.conventions.test_cfgrid1d import make_dataset as make_cfgrid1d
from tests.conventions.test_cfgrid2d import make_dataset as make_cfgrid2d
from tests.conventions.test_shoc_standard import make_dataset as make_shoc
from tests.conventions.test_ugrid import make_dataset as make_ugrid

warnings.simplefilter('ignore')


def main() -> int:
    datasets = {
        'CFGrid1D': make_cfgrid1d(width=4, height=3),
        'CFGrid2D': make_cfgrid2d(j_size=3, i_size=4),
        'ShocStandard': make_shoc(j_size=3, i_size=4),
        'UGrid': make_ugrid(width=3),
    }
    failures = []
    for name, dataset in datasets.items():
        convention = dataset.ems
        for kind, grid_dims in convention.grid_dimensions.items():
            grid_dims = list(grid_dims)
            grid_shape = [dataset.sizes[dim] for dim in grid_dims]
            grid_size = int(numpy.prod(grid_shape))
            for extra_dims, extra_shape in [(['time'], [0]), (['time', 'depth'], [0, 5]), (['time', 'depth'], [2, 0])]:
                # winding empty linear data works ...
                linear = xarray.DataArray(
                    numpy.zeros(extra_shape + [grid_size]), dims=extra_dims + ['index'])
                wound = convention.wind(linear, grid_kind=kind)
                assert wound.dims == tuple(extra_dims + grid_dims)
                assert wound.shape == tuple(extra_shape + grid_shape)
                # ... but flattening the result again does not
                try:
                    flat = convention.ravel(wound)
                except Exception as err:
                    failures.append(
                        f"{name} {kind.name} {dict(zip(extra_dims, extra_shape))}: "
                        f"ravel raised {type(err).__name__}: {err}")
                    continue
                if flat.dims != linear.dims or flat.shape != linear.shape:
                    failures.append(
                        f"{name} {kind.name}: ravel returned {flat.dims} {flat.shape}, "
                        f"expected {linear.dims} {linear.shape}")

    if failures:
        print("PROPERTY VIOLATED: ravel(wind(x)) is not the identity for empty extra dimensions")
        for failure in failures:
            print("  -", failure)
        return 1
    print("ravel handles zero length extra dimensions")
    return 0


if __name__ == '__main__':
    sys.exit(main())
