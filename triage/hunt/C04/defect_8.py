"""
C04 - UGRID dataset whose one-based connectivity declares `start_index = 1.0`
as a floating point attribute (what MATLAB's ncwriteatt and several other
writers produce for any numeric attribute).  The library accepts the value as
a valid start index, but then every point lookup raises IndexError.
The same file with an integer typed attribute works.
"""
import pathlib
import sys
import tempfile
import warnings

import numpy
import xarray
from shapely.geometry import Point, Polygon

import emsarray

warnings.simplefilter('ignore')

NODE_X = numpy.array([0., 1., 2., 0., 1., 2., 3.])
NODE_Y = numpy.array([0., 0., 0., 1., 1., 1., .5])
FILL = -999
FACE_NODE_ZERO = numpy.array([[0, 1, 4, 3], [1, 2, 5, 4], [2, 6, 5, FILL]], dtype='int32')
H = numpy.array([10., 20., 30.])
TRUE_CELLS = [
    Polygon([(NODE_X[n], NODE_Y[n]) for n in row if n != FILL])
    for row in FACE_NODE_ZERO
]
QUERIES = [
    Point(0.5, 0.5), Point(1.5, 0.5), Point(2.4, 0.5),   # interiors
    Point(1., 0.5), Point(1., 1.), Point(2., 0.),         # shared edge, shared vertices
    Point(-0.001, 0.5), Point(2.9, 0.9), Point(50., 50.),  # outside
]


def make(start_index) -> xarray.Dataset:
    face_node = numpy.where(FACE_NODE_ZERO == FILL, FILL, FACE_NODE_ZERO + 1).astype('int32')
    return xarray.Dataset({
        'mesh': ((), numpy.int32(0), {
            'cf_role': 'mesh_topology', 'topology_dimension': numpy.int32(2),
            'node_coordinates': 'node_x node_y',
            'face_node_connectivity': 'face_node', 'face_dimension': 'face',
        }),
        'face_node': (('face', 'nmax'), face_node, {
            'cf_role': 'face_node_connectivity', 'start_index': start_index}),
        'node_x': ('node', NODE_X), 'node_y': ('node', NODE_Y),
        'h': ('face', H),
    }, attrs={'Conventions': 'UGRID-1.0'})


def check(label: str, dataset: xarray.Dataset) -> list[str]:
    failures = []
    try:
        convention = dataset.ems
        for point in QUERIES:
            hits = [k for k, cell in enumerate(TRUE_CELLS) if cell.intersects(point)]
            expected = min(hits) if hits else None
            item = convention.get_index_for_point(point)
            got = None if item is None else int(item.linear_index)
            if got != expected:
                failures.append(f"{label}: {point.wkt} is in cell {expected}, lookup returned {got}")
            elif item is not None:
                value = float(convention.select_point(point)['h'].values)
                if value != H[expected] or not item.polygon.equals(TRUE_CELLS[expected]):
                    failures.append(f"{label}: {point.wkt} returned the wrong polygon or data")
    except Exception as exc:
        failures.append(f"{label}: raised {type(exc).__name__}: {exc}")
    return failures


failures = []
with tempfile.TemporaryDirectory() as temp_dir:
    for label, start_index in [
        ("start_index = 1 (int32 attribute)", numpy.int32(1)),
        ("start_index = 1.0 (float64 attribute)", numpy.float64(1.0)),
    ]:
        # In memory, integer connectivity with a _FillValue attribute
        in_memory = make(start_index)
        in_memory['face_node'].attrs['_FillValue'] = FILL
        failures += check(label + ", in memory", in_memory)

        # Through a netCDF file, connectivity decoded by xarray to float with NaN
        on_disk = make(start_index)
        on_disk['face_node'].encoding['_FillValue'] = FILL
        path = pathlib.Path(temp_dir) / f"ugrid_{type(start_index).__name__}.nc"
        on_disk.to_netcdf(path)
        with emsarray.open_dataset(path) as reopened:
            reopened.load()
            failures += check(label + ", from netCDF", reopened)

if failures:
    print("C04 violated:")
    for failure in failures:
        print("  -", failure)
    sys.exit(1)
print("C04 holds for UGRID datasets with a floating point start_index attribute")
sys.exit(0)
