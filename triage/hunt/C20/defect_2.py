"""
C20 defect 2: ``emsarray extract-points --missing-points fill`` writes ``True`` for a
boolean variable at every point that missed the model, where the library call
(extract_dataframe(..., missing_points='fill')) returns a missing value there.

Run from the worktree root:
    PYTHONPATH=src:. python seed_out/defect_2.py
Exit status 1 = property violated, 0 = property holds.
"""
import os
import pathlib
import subprocess
import sys
import tempfile
import warnings

import numpy
import pandas
import xarray

warnings.filterwarnings('ignore')

import emsarray  # noqa: E402
from emsarray.operations import point_extraction  # noqa: E402
from emsarray.utils import to_netcdf_with_fixes  # noqa: E402
from tests.conventions.test_cfgrid1d import make_dataset  # noqa: E402

failures = []
with tempfile.TemporaryDirectory() as tmp_name:
    tmp = pathlib.Path(tmp_name)

    dataset = make_dataset(width=6, height=5)
    shape = (dataset.sizes['lat'], dataset.sizes['lon'])
    # A wet / dry style flag on the cell grid.
    wet = (numpy.arange(shape[0] * shape[1]).reshape(shape) % 2 == 0)
    dataset['wet'] = (('lat', 'lon'), wet, {'long_name': 'cell is wet'})
    in_path = tmp / 'in.nc'
    to_netcdf_with_fixes(dataset, in_path)
    dataset = emsarray.open_dataset(in_path)
    assert dataset['wet'].dtype == bool

    # Two points inside the model, the third one far outside it
    csv_path = tmp / 'points.csv'
    pandas.DataFrame({'lon': [0.1, 0.2, 5.0], 'lat': [0.1, 0.2, 5.0]}).to_csv(csv_path, index=False)
    table = pandas.read_csv(csv_path)

    expected = point_extraction.extract_dataframe(
        dataset, table, ('lon', 'lat'), missing_points='fill').load()

    out_path = tmp / 'out.nc'
    proc = subprocess.run(
        [sys.executable, '-m', 'emsarray', 'extract-points',
         str(in_path), str(csv_path), str(out_path), '--missing-points', 'fill'],
        capture_output=True, text=True, env={**os.environ, 'DASK_SCHEDULER': 'synchronous'})
    print("exit status:", proc.returncode)
    if proc.returncode != 0:
        print(proc.stderr[-2000:])
        failures.append("extract-points --missing-points fill failed")
    else:
        actual = xarray.open_dataset(out_path).load()
        print("library  'wet':", expected['wet'].values.tolist())
        print("cli file 'wet':", actual['wet'].values.tolist())
        lib_missing = pandas.isnull(expected['wet'].values)
        cli_missing = pandas.isnull(actual['wet'].values.astype(object))
        if not numpy.array_equal(lib_missing, cli_missing):
            failures.append(
                "the point that missed the model is missing in the library result "
                f"but holds {actual['wet'].values[2]!r} in the file written by the command")
        for name in expected.data_vars:
            if name == 'wet':
                continue
            try:
                xarray.testing.assert_identical(expected[name], actual[name])
            except AssertionError as err:
                failures.append(f"variable {name!r} differs: {err}")

if failures:
    print("PROPERTY VIOLATED:")
    for failure in failures:
        print(" -", failure)
    sys.exit(1)
print("property holds")
sys.exit(0)
