"""
C20 defect 1: a CF dataset that carries time bounds (``time:bounds = "time_bnds"``)
makes ``emsarray extract-points`` (and, for some variable orders, ``emsarray clip``)
write the output file and then die with an uncaught AttributeError, exit status 3.
The library call for the same inputs (extract_dataframe / Convention.clip) works.

Run from the worktree root:
    PYTHONPATH=src:. python seed_out/defect_1.py
Exit status 1 = property violated, 0 = property holds.
"""
import os
import pathlib
import subprocess
import sys
import tempfile
import warnings

import numpy
import pandas
import xarray

warnings.filterwarnings('ignore')

import dask  # noqa: E402

dask.config.set(scheduler='synchronous')

import emsarray  # noqa: E402
from emsarray.operations import point_extraction  # noqa: E402
from emsarray.utils import to_netcdf_with_fixes  # noqa: E402
from shapely.geometry import box  # noqa: E402
from tests.conventions.test_cfgrid1d import make_dataset as make_cfgrid1d  # noqa: E402
from tests.conventions.test_ugrid import make_dataset as make_ugrid  # noqa: E402


def cli(*argv: str) -> subprocess.CompletedProcess:
    return subprocess.run(
        [sys.executable, '-m', 'emsarray', *argv],
        capture_output=True, text=True, env={**os.environ, 'DASK_SCHEDULER': 'synchronous'})


def add_time_bounds(dataset: xarray.Dataset, *, bounds_first: bool) -> xarray.Dataset:
    time = dataset.ems.time_coordinate
    time_dim = time.dims[0]
    bounds = xarray.DataArray(
        numpy.stack([time.values, time.values + numpy.timedelta64(1, 'h')], axis=1),
        dims=[time_dim, 'nv'])
    dataset = dataset.copy()
    dataset[time.name].attrs['bounds'] = 'time_bnds'
    if bounds_first:
        attrs = dataset.attrs
        dataset = xarray.Dataset({'time_bnds': bounds}).merge(dataset)
        dataset.attrs = attrs
    else:
        dataset['time_bnds'] = bounds
    return dataset


failures = []

with tempfile.TemporaryDirectory() as tmp_name:
    tmp = pathlib.Path(tmp_name)

    # ---- extract-points on a CF grid with time bounds -----------------------
    in_path = tmp / 'cfgrid1d.nc'
    to_netcdf_with_fixes(
        add_time_bounds(make_cfgrid1d(width=6, height=5), bounds_first=False), in_path)
    dataset = emsarray.open_dataset(in_path)
    print("time coordinate the library finds:", dataset.ems.time_coordinate.name)

    csv_path = tmp / 'points.csv'
    pandas.DataFrame({'lon': [0.2, 0.3], 'lat': [0.1, 0.3]}).to_csv(csv_path, index=False)
    expected = point_extraction.extract_dataframe(
        dataset, pandas.read_csv(csv_path), ('lon', 'lat')).load()

    out_path = tmp / 'points.nc'
    proc = cli('extract-points', str(in_path), str(csv_path), str(out_path))
    print("extract-points exit status:", proc.returncode, "- output file exists:", out_path.exists())
    if proc.returncode != 0:
        print(proc.stderr.strip().splitlines()[-1])
        failures.append(
            "extract-points failed (and left an output file behind: %s) "
            "although extract_dataframe() succeeds" % out_path.exists())
    else:
        actual = xarray.open_dataset(out_path).load()
        try:
            xarray.testing.assert_identical(expected, actual)
        except AssertionError as err:
            failures.append(f"extract-points output differs from the library: {err}")

    # ---- clip on a UGRID mesh where the bounds variable is stored first ------
    in_path = tmp / 'ugrid.nc'
    to_netcdf_with_fixes(
        add_time_bounds(make_ugrid(width=4), bounds_first=True), in_path)
    dataset = emsarray.open_dataset(in_path)
    geometry = box(0.1, -6.0, 2.5, -2.0)
    with tempfile.TemporaryDirectory() as work_dir:
        expected = dataset.ems.clip(geometry, work_dir=work_dir).load()

    out_path = tmp / 'clipped.nc'
    proc = cli('clip', str(in_path), '0.1,-6.0,2.5,-2.0', str(out_path))
    print("clip exit status:", proc.returncode, "- output file exists:", out_path.exists())
    if proc.returncode != 0:
        print(proc.stderr.strip().splitlines()[-1])
        failures.append(
            "clip failed (and left an output file behind: %s) "
            "although Convention.clip() succeeds" % out_path.exists())
    else:
        actual = xarray.open_dataset(out_path).load()
        try:
            xarray.testing.assert_identical(expected, actual)
        except AssertionError as err:
            failures.append(f"clip output differs from the library: {err}")

if failures:
    print("PROPERTY VIOLATED:")
    for failure in failures:
        print(" -", failure)
    sys.exit(1)
print("property holds")
sys.exit(0)
