"""
C20 defect 3: a bounds argument whose first number is negative ('-1.5,-8,3,2') is
not taken as the clip geometry by ``emsarray clip``: the command refuses to run,
complaining about an unrelated argument, although the same four numbers denote
a perfectly good bounding box (and are accepted as soon as the first is positive).

Run from the worktree root:
    PYTHONPATH=src:. python seed_out/defect_3.py
Exit status 1 = property violated, 0 = property holds.
"""
import os
import pathlib
import subprocess
import sys
import tempfile
import warnings

import xarray

warnings.filterwarnings('ignore')

import dask  # noqa: E402

dask.config.set(scheduler='synchronous')

import emsarray  # noqa: E402
from emsarray.cli.utils import geometry_argument  # noqa: E402
from emsarray.utils import to_netcdf_with_fixes  # noqa: E402
from shapely.geometry import box  # noqa: E402
from tests.conventions.test_ugrid import make_dataset  # noqa: E402

failures = []
with tempfile.TemporaryDirectory() as tmp_name:
    tmp = pathlib.Path(tmp_name)
    in_path = tmp / 'in.nc'
    to_netcdf_with_fixes(make_dataset(width=4), in_path)
    dataset = emsarray.open_dataset(in_path)
    print("dataset bounds:", tuple(float(b) for b in dataset.ems.bounds))

    for bounds in ['0.5,-8,3,2', '-1.5,-8,3,2', '-.5,-8,3,2', '-1,-8,3,2']:
        numbers = tuple(map(float, bounds.split(',')))
        # The grammar itself is fine with the string ...
        assert geometry_argument(bounds).equals(box(*numbers))
        with tempfile.TemporaryDirectory() as work_dir:
            expected = dataset.ems.clip(box(*numbers), work_dir=work_dir).load()

        # ... but the command is not.
        out_path = tmp / 'out.nc'
        if out_path.exists():
            out_path.unlink()
        proc = subprocess.run(
            [sys.executable, '-m', 'emsarray', 'clip', str(in_path), bounds, str(out_path)],
            capture_output=True, text=True, env={**os.environ, 'DASK_SCHEDULER': 'synchronous'})
        print(f"emsarray clip in.nc {bounds} out.nc -> exit status {proc.returncode}")
        if proc.returncode != 0:
            print("   ", proc.stderr.strip().splitlines()[-1])
            failures.append(
                f"bounds {bounds!r} were not taken as the clip geometry "
                f"(library clip to box{numbers} keeps {expected.sizes['nMesh2_face']} faces)")
            continue
        actual = xarray.open_dataset(out_path).load()
        try:
            xarray.testing.assert_identical(expected, actual)
        except AssertionError as err:
            failures.append(f"bounds {bounds!r}: output differs from the library: {err}")

if failures:
    print("PROPERTY VIOLATED:")
    for failure in failures:
        print(" -", failure)
    sys.exit(1)
print("property holds")
sys.exit(0)
