"""
C20 defect 5: a CSV table in which *every* point misses the model makes
``emsarray extract-points --missing-points fill`` crash with an uncaught ValueError
(exit status 3, traceback), although that policy exists precisely so that points
outside the model are not an error: the result should hold every row of the table with
filled data. The same table works as soon as a single point hits the model.
('--missing-points drop' crashes the same way; it is reported but not counted, because an
empty point dimension cannot be written by the netCDF library of this environment anyway.)

Run from the worktree root:
    PYTHONPATH=src:. python seed_out/defect_5.py
Exit status 1 = property violated, 0 = property holds.
"""
import os
import pathlib
import subprocess
import sys
import tempfile
import warnings

import numpy
import pandas
import xarray

warnings.filterwarnings('ignore')

from emsarray.utils import to_netcdf_with_fixes  # noqa: E402
from tests.conventions.test_cfgrid1d import make_dataset as make_cfgrid1d  # noqa: E402
from tests.conventions.test_ugrid import make_dataset as make_ugrid  # noqa: E402


def cli(*argv: str) -> subprocess.CompletedProcess:
    return subprocess.run(
        [sys.executable, '-m', 'emsarray', *argv],
        capture_output=True, text=True,
        env={**os.environ, 'DASK_SCHEDULER': 'synchronous'})


failures = []
with tempfile.TemporaryDirectory() as tmp_name:
    tmp = pathlib.Path(tmp_name)
    datasets = {
        'cfgrid1d': (make_cfgrid1d(width=6, height=5), (0.2, 0.2)),
        'ugrid': (make_ugrid(width=4), (0.5, -5.0)),
    }
    for name, (dataset, inside) in datasets.items():
        in_path = tmp / f'{name}.nc'
        to_netcdf_with_fixes(dataset, in_path)

        tables = {
            # one hit, two misses: the policies work
            'one hit': pandas.DataFrame({
                'station': ['a', 'b', 'c'], 'lon': [inside[0], 500., 600.], 'lat': [inside[1], 0., 0.]}),
            # only misses
            'no hit': pandas.DataFrame({
                'station': ['b', 'c'], 'lon': [500., 600.], 'lat': [0., 0.]}),
        }
        for table_name, table in tables.items():
            csv_path = tmp / 'points.csv'
            table.to_csv(csv_path, index=False)
            hits = int((table['lon'] < 100).sum())
            for policy in ['drop', 'fill']:
                out_path = tmp / 'out.nc'
                if out_path.exists():
                    out_path.unlink()
                proc = cli('extract-points', str(in_path), str(csv_path), str(out_path),
                           '--missing-points', policy)
                label = f"{name}, {table_name}, --missing-points {policy}"
                if proc.returncode != 0:
                    print(f"{label}: exit status {proc.returncode}: {proc.stderr.strip().splitlines()[-1]}")
                    if policy == 'fill':
                        failures.append(f"{label}: the command crashed instead of applying the policy")
                    continue
                out = xarray.open_dataset(out_path).load()
                expected_rows = hits if policy == 'drop' else len(table)
                print(f"{label}: exit status 0, {out.sizes['point']} rows")
                if out.sizes['point'] != expected_rows:
                    failures.append(f"{label}: expected {expected_rows} rows, got {out.sizes['point']}")
                elif policy == 'fill':
                    missed = numpy.flatnonzero(table['lon'].values > 100)
                    if not numpy.isnan(out['eta'].isel(point=missed).values).all():
                        failures.append(f"{label}: rows that missed are not filled")

if failures:
    print("PROPERTY VIOLATED:")
    for failure in failures:
        print(" -", failure)
    sys.exit(1)
print("property holds")
sys.exit(0)
