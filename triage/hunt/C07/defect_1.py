"""
C07 - UGRID clip mask on a dataset whose connectivity is stored as floating
point numbers with an ordinary (non NaN) _FillValue, opened with
mask_and_scale=False.

The library itself writes such files: clipping a UGRID dataset whose
face_node_connectivity is held as float+NaN in memory (any dataset that was
built in memory from a masked array, e.g. the library's own test fixtures)
produces a file with ``double Mesh2_face_nodes`` and ``_FillValue = 999.``.
Feeding that file back in with ``mask_and_scale=False`` (a mode that
Mesh2DTopology._to_index_array explicitly claims to support) makes
make_clip_mask() crash, or - with a negative fill value - silently use the
last node of the mesh as the missing fourth corner of every triangle.

Exit status 1 when the property is violated, 0 when it holds.
"""
import os
import sys
import tempfile
import warnings

import dask
import numpy
import xarray
from shapely.geometry import Point, box

import emsarray  # noqa: F401
from emsarray.conventions.ugrid import UGrid

dask.config.set(scheduler='synchronous')
warnings.simplefilter('ignore')

failures = []


def mesh(fill_value: float) -> xarray.Dataset:
    """Two triangles and two squares in a row; 4 columns wide connectivity,
    stored as float64 with an explicit, finite _FillValue attribute -
    exactly what xarray hands over for a ``double`` connectivity variable
    when the file is opened with mask_and_scale=False."""
    #  5---6---7---8---9
    #  | / | / |   |   |      faces: 0,1 triangles / 2,3 triangles / 4 square / 5 square
    #  0---1---2---3---4
    node_x = numpy.array([0, 1, 2, 3, 4, 0, 1, 2, 3, 4], dtype=float)
    node_y = numpy.array([0, 0, 0, 0, 0, 1, 1, 1, 1, 1], dtype=float)
    F = fill_value
    face_node = numpy.array([
        [0, 1, 6, F],
        [0, 6, 5, F],
        [1, 2, 7, F],
        [1, 7, 6, F],
        [2, 3, 8, 7],
        [3, 4, 9, 8],
    ], dtype=numpy.float64)
    return xarray.Dataset({
        'Mesh2': xarray.DataArray(numpy.int32(0), attrs={
            'cf_role': 'mesh_topology', 'topology_dimension': 2,
            'node_coordinates': 'Mesh2_node_x Mesh2_node_y',
            'face_node_connectivity': 'Mesh2_face_nodes',
            'face_dimension': 'nMesh2_face',
        }),
        'Mesh2_face_nodes': xarray.DataArray(
            face_node, dims=['nMesh2_face', 'nMaxMesh2_face_nodes'],
            attrs={'cf_role': 'face_node_connectivity', 'start_index': 0,
                   '_FillValue': numpy.float64(fill_value)}),
        'Mesh2_node_x': xarray.DataArray(node_x, dims=['nMesh2_node']),
        'Mesh2_node_y': xarray.DataArray(node_y, dims=['nMesh2_node']),
        'eta': xarray.DataArray(numpy.arange(6.0), dims=['nMesh2_face']),
    }, attrs={'Conventions': 'UGRID-1.0'})


def expected_mask(size, kept):
    out = numpy.full(size, numpy.nan)
    out[sorted(kept)] = numpy.arange(len(kept))
    return out


# --- Part A: connectivity held as float with a finite _FillValue attribute ---
# The clip point lies inside triangle 0 only. Faces sharing a node with it: 1, 2, 3.
clip_point = Point(0.7, 0.2)
for fill_value in (999.0, -1.0):
    dataset = mesh(fill_value)
    UGrid(dataset).bind()
    for buffer, faces, nodes in [
        (0, [0], [0, 1, 6]),
        (1, [0, 1, 2, 3], [0, 1, 2, 5, 6, 7]),
    ]:
        label = f"A: float connectivity, _FillValue={fill_value}, buffer={buffer}"
        try:
            mask = dataset.ems.make_clip_mask(clip_point, buffer=buffer)
        except Exception as exc:
            failures.append(f"{label}: make_clip_mask raised {type(exc).__name__}: {exc}")
            continue
        got_faces = mask['new_face_index'].values
        got_nodes = mask['new_node_index'].values
        if not numpy.array_equal(got_faces, expected_mask(6, faces), equal_nan=True):
            failures.append(f"{label}: faces {got_faces} != {expected_mask(6, faces)}")
        if not numpy.array_equal(got_nodes, expected_mask(10, nodes), equal_nan=True):
            failures.append(f"{label}: nodes {got_nodes} != {expected_mask(10, nodes)}")

# --- Part B: the library's own clip output, fed back in ---
from tests.conventions.test_ugrid import make_dataset  # noqa: E402

numpy.random.seed(0)
original = make_dataset(width=3, height=3, make_edges=True)
with tempfile.TemporaryDirectory() as work_dir, tempfile.TemporaryDirectory() as out_dir:
    clipped = original.ems.clip(box(0.5, -1, 2.2, 1.2), work_dir=work_dir, buffer=0)
    path = os.path.join(out_dir, 'clipped.nc')
    clipped.ems.to_netcdf(path)

    decoded = xarray.open_dataset(path).load()
    raw = xarray.open_dataset(path, mask_and_scale=False).load()
    decoded.close()
    raw.close()

geometry = Point(1.5, 0.3)
for buffer in (0, 1, 2):
    label = f"B: clipped file reopened with mask_and_scale=False, buffer={buffer}"
    reference = decoded.ems.make_clip_mask(geometry, buffer=buffer)
    try:
        mask = raw.ems.make_clip_mask(geometry, buffer=buffer)
    except Exception as exc:
        failures.append(
            f"{label}: make_clip_mask raised {type(exc).__name__}: {exc} "
            f"(connectivity dtype {raw['Mesh2_face_nodes'].dtype}, "
            f"_FillValue {raw['Mesh2_face_nodes'].attrs.get('_FillValue')!r})")
        continue
    for name in reference.data_vars:
        if not numpy.array_equal(reference[name].values, mask[name].values, equal_nan=True):
            failures.append(f"{label}: {name} differs from the mask of the decoded file")

if failures:
    print("C07 violated:")
    for failure in failures:
        print("  -", failure)
    sys.exit(1)
print("C07 holds for float connectivity with a finite _FillValue")
sys.exit(0)
