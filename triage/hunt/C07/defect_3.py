"""
C07 - curvilinear CF grid (CFGrid2D) where the two coordinate variables are
stored with different dimension orders: latitude(y, x) and longitude(x, y).
CF allows every variable to order its dimensions as it likes, and xarray
aligns them by name. The cell polygons are however built from the raw
``.values`` of both variables, assuming both are (y, x). Without bounds
variables:

* on a square grid the clip mask is silently wrong (the cell that contains
  the clip point is not marked, other cells are), and
* on a non-square grid make_clip_mask() raises
  ``ValueError: all input arrays must have the same shape``.

The reference is the very same grid with longitude stored as (y, x).
Exit status 1 when the property is violated, 0 when it holds.
"""
import sys
import warnings

import numpy
import xarray
from shapely.geometry import LineString, Point, box

import emsarray  # noqa: F401
from emsarray.conventions.grid import CFGrid2D

warnings.simplefilter('ignore')


def make(ny: int, nx: int, transpose_longitude: bool) -> xarray.Dataset:
    j, i = numpy.meshgrid(numpy.arange(ny), numpy.arange(nx), indexing='ij')
    lon = xarray.DataArray(
        100.0 + 2.0 * i + 0.5 * j, dims=['y', 'x'],
        attrs={'units': 'degrees_east', 'standard_name': 'longitude'})
    lat = xarray.DataArray(
        -40.0 + 2.0 * j + 0.25 * i, dims=['y', 'x'],
        attrs={'units': 'degrees_north', 'standard_name': 'latitude'})
    if transpose_longitude:
        lon = lon.transpose('x', 'y')
    dataset = xarray.Dataset({
        'lat': lat, 'lon': lon,
        'temp': xarray.DataArray(numpy.arange(float(ny * nx)).reshape(ny, nx), dims=['y', 'x']),
    }).set_coords(['lat', 'lon'])
    CFGrid2D(dataset).bind()
    return dataset


failures = []
for ny, nx in [(4, 4), (3, 5)]:
    reference = make(ny, nx, transpose_longitude=False)
    transposed = make(ny, nx, transpose_longitude=True)
    # Both datasets describe the same cells
    assert float(transposed['lon'].sel(y=1, x=2)) == float(reference['lon'].sel(y=1, x=2))

    cell_12 = Point(float(reference['lon'].sel(y=1, x=2)), float(reference['lat'].sel(y=1, x=2)))
    geometries = [
        cell_12,
        box(cell_12.x - 1.5, cell_12.y - 1.5, cell_12.x + 1.5, cell_12.y + 1.5),
        LineString([(100, -40), (100 + 2 * nx, -40 + 2 * ny)]),
    ]
    for geometry in geometries:
        for buffer in range(0, 3):
            label = f"{ny}x{nx} grid, {geometry.geom_type}, buffer={buffer}"
            expected = reference.ems.make_clip_mask(geometry, buffer=buffer)['cell_mask'].transpose('y', 'x').values
            try:
                got = transposed.ems.make_clip_mask(geometry, buffer=buffer)['cell_mask'].transpose('y', 'x').values
            except Exception as exc:
                failures.append(f"{label}: make_clip_mask raised {type(exc).__name__}: {exc}")
                continue
            if not numpy.array_equal(got, expected):
                failures.append(
                    f"{label}: mask differs from the same grid with longitude(y, x)\n"
                    f"got\n{got.astype(int)}\nexpected\n{expected.astype(int)}")

if failures:
    print(f"C07 violated ({len(failures)} cases), e.g.:")
    for failure in failures[:3] + failures[-2:]:
        print("  -", failure)
    sys.exit(1)
print("C07 holds when latitude and longitude order their dimensions differently")
sys.exit(0)
