"""
C07 - a curvilinear CF grid (CFGrid2D) whose two dimensional latitude and
longitude variables are stored as integers (whole degrees) and which has no
bounds variables can not be clipped at all: make_clip_mask() raises
``ValueError: cannot convert float NaN to integer`` while it builds the cell
polygons. The same grid stored as floats works.

Exit status 1 when the property is violated, 0 when it holds.
"""
import sys
import warnings

import numpy
import xarray
from shapely.geometry import LineString, Point, box

import emsarray  # noqa: F401
from emsarray.conventions.grid import CFGrid2D

warnings.simplefilter('ignore')


def make(dtype) -> xarray.Dataset:
    # A sheared 4 x 5 grid of whole-degree cell centres
    j, i = numpy.meshgrid(numpy.arange(4), numpy.arange(5), indexing='ij')
    lon = (100 + 2 * i + 1 * j).astype(dtype)
    lat = (-40 + 2 * j).astype(dtype)
    dataset = xarray.Dataset({
        'lat': xarray.DataArray(lat, dims=['y', 'x'], attrs={
            'units': 'degrees_north', 'standard_name': 'latitude'}),
        'lon': xarray.DataArray(lon, dims=['y', 'x'], attrs={
            'units': 'degrees_east', 'standard_name': 'longitude'}),
        'temp': xarray.DataArray(numpy.arange(20.0).reshape(4, 5), dims=['y', 'x']),
    }).set_coords(['lat', 'lon'])
    CFGrid2D(dataset).bind()
    return dataset


floats = make(numpy.float64)
geometries = [
    Point(104.5, -37.0),
    box(101.5, -39.5, 104.5, -36.5),
    LineString([(100, -40), (111, -34)]),
    box(90, -50, 120, -20),
]

failures = []
for dtype in (numpy.int32, numpy.int64, numpy.int16):
    ints = make(dtype)
    for geometry in geometries:
        for buffer in range(0, 3):
            expected = floats.ems.make_clip_mask(geometry, buffer=buffer)['cell_mask'].values
            label = f"{numpy.dtype(dtype).name} coordinates, {geometry.geom_type}, buffer={buffer}"
            try:
                got = ints.ems.make_clip_mask(geometry, buffer=buffer)['cell_mask'].values
            except Exception as exc:
                failures.append(f"{label}: make_clip_mask raised {type(exc).__name__}: {exc}")
                continue
            if not numpy.array_equal(got, expected):
                failures.append(f"{label}: mask differs from the float-typed grid\n{got.astype(int)}\n{expected.astype(int)}")

if failures:
    print(f"C07 violated ({len(failures)} cases), e.g.:")
    for failure in failures[:6]:
        print("  -", failure)
    sys.exit(1)
print("C07 holds for integer typed curvilinear coordinates")
sys.exit(0)
