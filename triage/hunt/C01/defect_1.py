"""
C01 - UGRID dataset whose mesh topology names an ``edge_dimension`` that no
variable uses.  A netCDF file may define the dimension without any variable
on it (xarray then does not report it), or the edge variables may have been
dropped while the mesh attributes were kept.  ``Mesh2DTopology.edge_count``
copes with this (it derives the edges), but ``grid_shape`` / ``grid_size`` /
``ravel_index`` / ``wind_index`` raise ``KeyError`` - for *every* grid kind,
faces and nodes included.

Exit status 1 when the property is violated, 0 when it holds.
"""
import os
import sys
import tempfile
import warnings

import netCDF4
import numpy
import xarray

import emsarray  # noqa: F401  (registers the .ems accessor)
from emsarray.conventions.ugrid import UGrid, UGridKind

warnings.simplefilter('ignore')

# Two quads side by side: 6 nodes, 2 faces, 7 edges
#   3---4---5
#   | 0 | 1 |
#   0---1---2
NODE_X = numpy.array([0., 1., 2., 0., 1., 2.])
NODE_Y = numpy.array([0., 0., 0., 1., 1., 1.])
FACE_NODES = numpy.array([[0, 1, 4, 3], [1, 2, 5, 4]], dtype='i4')
N_EDGES = 7


def write_file(path):
    with netCDF4.Dataset(path, 'w') as nc:
        nc.Conventions = 'UGRID-1.0'
        nc.createDimension('nMesh2_node', 6)
        nc.createDimension('nMesh2_face', 2)
        nc.createDimension('nMaxMesh2_face_nodes', 4)
        # The edge dimension is declared, but nothing is stored on it
        nc.createDimension('nMesh2_edge', N_EDGES)
        mesh = nc.createVariable('Mesh2', 'i4', ())
        mesh.cf_role = 'mesh_topology'
        mesh.topology_dimension = numpy.int32(2)
        mesh.node_coordinates = 'Mesh2_node_x Mesh2_node_y'
        mesh.face_node_connectivity = 'Mesh2_face_nodes'
        mesh.face_dimension = 'nMesh2_face'
        mesh.edge_dimension = 'nMesh2_edge'
        v = nc.createVariable('Mesh2_node_x', 'f8', ('nMesh2_node',))
        v.standard_name = 'longitude'
        v[:] = NODE_X
        v = nc.createVariable('Mesh2_node_y', 'f8', ('nMesh2_node',))
        v.standard_name = 'latitude'
        v[:] = NODE_Y
        v = nc.createVariable('Mesh2_face_nodes', 'i4', ('nMesh2_face', 'nMaxMesh2_face_nodes'))
        v.cf_role = 'face_node_connectivity'
        v.start_index = numpy.int32(0)
        v[:] = FACE_NODES
        v = nc.createVariable('eta', 'f8', ('nMesh2_face',))
        v[:] = [1.5, 2.5]


def check(dataset):
    """Return a list of violations of the bijection property."""
    problems = []
    convention = dataset.ems
    if not isinstance(convention, UGrid):
        return [f"dataset was not recognised as UGRID but as {type(convention).__name__}"]
    try:
        grid_kinds = convention.grid_kinds
        grid_size = convention.grid_size
    except Exception as err:
        return [f"grid_size raised {type(err).__name__}: {err}"]

    expected = {UGridKind.face: 2, UGridKind.node: 6, UGridKind.edge: N_EDGES}
    for kind in grid_kinds:
        size = grid_size[kind]
        if size != expected[kind]:
            problems.append(f"grid_size[{kind.name}] is {size}, expected {expected[kind]}")
        for linear in range(size):
            try:
                native = convention.wind_index(linear, grid_kind=kind)
                back = convention.ravel_index(native)
            except Exception as err:
                problems.append(f"{kind.name} linear index {linear}: {type(err).__name__}: {err}")
                continue
            if back != linear or native != (kind, linear):
                problems.append(f"{kind.name} linear index {linear} -> {native} -> {back}")
        for linear in (-2, -1, size, size + 1):
            try:
                native = convention.wind_index(linear, grid_kind=kind)
                problems.append(f"{kind.name} out-of-range linear index {linear} accepted -> {native}")
            except (ValueError, IndexError):
                pass
    return problems


def main():
    problems = []
    with tempfile.TemporaryDirectory() as tmp:
        path = os.path.join(tmp, 'ugrid_unused_edge_dimension.nc')
        write_file(path)
        dataset = xarray.open_dataset(path)
        dataset.load()
        print("dimensions seen by xarray:", dict(dataset.sizes))
        topology = dataset.ems.topology
        print("topology.has_edge_dimension:", topology.has_edge_dimension,
              " topology.edge_count:", topology.edge_count)
        problems += [f"[file] {p}" for p in check(dataset)]
        # Even the face grid can not be addressed
        try:
            print("ravel_index((face, 1)) =", dataset.ems.ravel_index((UGridKind.face, 1)))
        except Exception as err:
            problems.append(f"[file] ravel_index((face, 1)) raised {type(err).__name__}: {err}")
        dataset.close()

    if problems:
        print("PROPERTY C01 VIOLATED:")
        for problem in problems:
            print("  -", problem)
        return 1
    print("property C01 holds")
    return 0


if __name__ == '__main__':
    sys.exit(main())
