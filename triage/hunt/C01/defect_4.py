"""
C01 - configuration: ``CFGrid1D(dataset, latitude=...)`` (or ``longitude=...``
alone, same for ``CFGrid2D``) silently ignores the coordinate name it is given.

The constructor documents ``latitude`` and ``longitude`` as two independent
optional overrides ("By default the coordinate variables are found by
introspecting the dataset. You can use this parameter to override this
behaviour"), but it only honours them when *both* are passed.  A dataset with
two latitude axes and one longitude axis (staggered 1-D grids: ``lat`` for
tracers, ``lat_v`` for v-velocity) needs only ``latitude='lat_v'`` - and gets
the grid of ``lat``: wrong grid_size, valid indexes of the requested grid are
rejected, and linear indexes are decoded over the wrong shape.

Exit status 1 when the property is violated, 0 when it holds.
"""
import itertools
import sys
import warnings

import numpy
import xarray

import emsarray  # noqa: F401
from emsarray.conventions.grid import CFGrid1D, CFGridKind

warnings.simplefilter('ignore')

N_LAT, N_LAT_V, N_LON = 3, 4, 5


def make_dataset():
    lat = xarray.DataArray(
        numpy.arange(N_LAT) * 1.0, dims=['lat'],
        attrs={'units': 'degrees_north', 'standard_name': 'latitude'})
    lat_v = xarray.DataArray(
        numpy.arange(N_LAT_V) * 1.0 - 0.5, dims=['lat_v'],
        attrs={'units': 'degrees_north', 'standard_name': 'latitude'})
    lon = xarray.DataArray(
        numpy.arange(N_LON) * 1.0 + 100, dims=['lon'],
        attrs={'units': 'degrees_east', 'standard_name': 'longitude'})
    temp = xarray.DataArray(numpy.zeros((N_LAT, N_LON)), dims=['lat', 'lon'])
    v = xarray.DataArray(
        numpy.arange(N_LAT_V * N_LON, dtype=float).reshape(N_LAT_V, N_LON),
        dims=['lat_v', 'lon'])
    return xarray.Dataset(
        {'temp': temp, 'v': v},
        coords={'lat': lat, 'lat_v': lat_v, 'lon': lon},
        attrs={'Conventions': 'CF-1.8'})


def check(convention, label, expected_dims, expected_shape):
    problems = []
    kind = CFGridKind.face
    size = int(numpy.prod(expected_shape))
    dims = tuple(convention.grid_dimensions[kind])
    print(f"{label}: latitude {convention.topology.latitude_name!r}, "
          f"longitude {convention.topology.longitude_name!r}, grid dimensions {dims}, "
          f"grid size {convention.grid_size[kind]}")
    if dims != expected_dims:
        problems.append(f"{label}: grid dimensions {dims}, expected {expected_dims}")
    if convention.grid_size[kind] != size:
        problems.append(f"{label}: grid_size {convention.grid_size[kind]}, expected {size}")
    for linear in range(size):
        expected = tuple(int(i) for i in numpy.unravel_index(linear, expected_shape))
        try:
            native = tuple(convention.wind_index(linear))
            back = convention.ravel_index(native)
        except Exception as err:
            problems.append(f"{label}: linear index {linear} rejected ({type(err).__name__})")
            continue
        if native != expected or back != linear:
            problems.append(f"{label}: linear index {linear} -> {native} -> {back}, expected {expected}")
    for native in itertools.product(*[range(n) for n in expected_shape]):
        expected = int(numpy.ravel_multi_index(native, expected_shape))
        try:
            linear = convention.ravel_index(native)
        except Exception as err:
            problems.append(f"{label}: native index {native} rejected ({type(err).__name__})")
            continue
        if linear != expected:
            problems.append(f"{label}: native index {native} -> {linear}, expected {expected}")
    return problems


def main():
    problems = []

    # Both names given: works
    convention = CFGrid1D(make_dataset(), latitude='lat_v', longitude='lon')
    problems += check(convention, "latitude='lat_v', longitude='lon'", ('lat_v', 'lon'), (N_LAT_V, N_LON))

    # Only the ambiguous one given: the argument is dropped on the floor
    convention = CFGrid1D(make_dataset(), latitude='lat_v')
    problems += check(convention, "latitude='lat_v'", ('lat_v', 'lon'), (N_LAT_V, N_LON))

    if problems:
        print("PROPERTY C01 VIOLATED:")
        for problem in problems:
            print("  -", problem)
        return 1
    print("property C01 holds")
    return 0


if __name__ == '__main__':
    sys.exit(main())
