"""
C01 - CF grid datasets whose bounds variables carry ``units`` (CF section 7.1
allows this, GFDL / CMIP style files do it).

``CFGridTopology.latitude_name`` / ``longitude_name`` take the *first* variable
of ``dataset.variables`` with latitude/longitude units.  ``xarray.open_dataset``
lists data variables before coordinate variables, so ``lat_bnds(lat, bnds)``
wins over ``lat(lat)``:

* 1-D grid: the dataset is taken for a CFGrid2D whose grid is ``(lat, bnds)``;
  grid_size is ``nlat * 2`` instead of ``nlat * nlon``; valid linear / native
  indexes are rejected, and native indexes address ``bnds`` instead of ``lon``.
* 2-D grid (``vertices_latitude(j, i, 4)``): no convention is found at all.

Exit status 1 when the property is violated, 0 when it holds.
"""
import itertools
import os
import sys
import tempfile
import warnings

import netCDF4
import numpy
import xarray

import emsarray  # noqa: F401

warnings.simplefilter('ignore')

NY, NX = 3, 5


def write_1d(path):
    lat = numpy.arange(NY) * 1.0 - 10
    lon = numpy.arange(NX) * 1.0 + 100
    with netCDF4.Dataset(path, 'w') as nc:
        nc.Conventions = 'CF-1.8'
        nc.createDimension('lat', NY)
        nc.createDimension('lon', NX)
        nc.createDimension('bnds', 2)
        v = nc.createVariable('lat', 'f8', ('lat',))
        v.units = 'degrees_north'
        v.standard_name = 'latitude'
        v.bounds = 'lat_bnds'
        v[:] = lat
        v = nc.createVariable('lon', 'f8', ('lon',))
        v.units = 'degrees_east'
        v.standard_name = 'longitude'
        v.bounds = 'lon_bnds'
        v[:] = lon
        v = nc.createVariable('lat_bnds', 'f8', ('lat', 'bnds'))
        v.units = 'degrees_north'
        v[:] = numpy.stack([lat - .5, lat + .5], axis=-1)
        v = nc.createVariable('lon_bnds', 'f8', ('lon', 'bnds'))
        v.units = 'degrees_east'
        v[:] = numpy.stack([lon - .5, lon + .5], axis=-1)
        v = nc.createVariable('temp', 'f8', ('lat', 'lon'))
        v[:] = numpy.arange(NY * NX).reshape(NY, NX)


def write_2d(path):
    jj, ii = numpy.meshgrid(numpy.arange(NY) * 1., numpy.arange(NX) * 1., indexing='ij')
    with netCDF4.Dataset(path, 'w') as nc:
        nc.Conventions = 'CF-1.8'
        nc.createDimension('j', NY)
        nc.createDimension('i', NX)
        nc.createDimension('vertices', 4)
        v = nc.createVariable('latitude', 'f8', ('j', 'i'))
        v.units = 'degrees_north'
        v.standard_name = 'latitude'
        v.bounds = 'vertices_latitude'
        v[:] = jj - 10
        v = nc.createVariable('longitude', 'f8', ('j', 'i'))
        v.units = 'degrees_east'
        v.standard_name = 'longitude'
        v.bounds = 'vertices_longitude'
        v[:] = ii + 100
        v = nc.createVariable('vertices_latitude', 'f8', ('j', 'i', 'vertices'))
        v.units = 'degrees_north'
        v[:] = numpy.stack([jj - .5, jj - .5, jj + .5, jj + .5], axis=-1) - 10
        v = nc.createVariable('vertices_longitude', 'f8', ('j', 'i', 'vertices'))
        v.units = 'degrees_east'
        v[:] = numpy.stack([ii - .5, ii + .5, ii + .5, ii - .5], axis=-1) + 100
        v = nc.createVariable('tos', 'f8', ('j', 'i'))
        v.coordinates = 'latitude longitude'
        v[:] = numpy.arange(NY * NX).reshape(NY, NX)


def check(dataset, label, expected_dims):
    problems = []
    try:
        convention = dataset.ems
    except Exception as err:
        return [f"{label}: dataset.ems raised {type(err).__name__}: {err}"]
    kind = convention.default_grid_kind
    print(f"{label}: convention {type(convention).__name__}, "
          f"grid dimensions {list(convention.grid_dimensions[kind])}, "
          f"grid size {convention.grid_size[kind]}")
    if tuple(convention.grid_dimensions[kind]) != expected_dims:
        problems.append(
            f"{label}: face grid is defined on {tuple(convention.grid_dimensions[kind])}, "
            f"the horizontal grid of the dataset is {expected_dims}")
    if convention.grid_size[kind] != NY * NX:
        problems.append(
            f"{label}: grid_size is {convention.grid_size[kind]}, "
            f"the dataset has {NY} x {NX} = {NY * NX} cells")
    # every cell of the dataset must be addressable, in row-major order
    rejected_linear = []
    for linear in range(NY * NX):
        try:
            native = convention.wind_index(linear)
            if convention.ravel_index(native) != linear or tuple(native) != (linear // NX, linear % NX):
                problems.append(f"{label}: linear {linear} -> {native}, expected {(linear // NX, linear % NX)}")
        except Exception:
            rejected_linear.append(linear)
    if rejected_linear:
        problems.append(f"{label}: in-range linear indexes rejected: {rejected_linear}")
    rejected_native = []
    for native in itertools.product(range(NY), range(NX)):
        try:
            if convention.ravel_index(native) != native[0] * NX + native[1]:
                problems.append(
                    f"{label}: native {native} -> {convention.ravel_index(native)}, "
                    f"expected {native[0] * NX + native[1]}")
        except Exception:
            rejected_native.append(native)
    if rejected_native:
        problems.append(f"{label}: in-range native indexes rejected: {rejected_native}")
    return problems


def main():
    problems = []
    with tempfile.TemporaryDirectory() as tmp:
        path = os.path.join(tmp, 'cf1d_bounds_units.nc')
        write_1d(path)
        dataset = xarray.open_dataset(path)
        dataset.load()
        print("variable order:", list(dataset.variables))
        problems += check(dataset, 'CF 1-D', ('lat', 'lon'))
        dataset.close()

        path = os.path.join(tmp, 'cf2d_vertices_units.nc')
        write_2d(path)
        dataset = xarray.open_dataset(path)
        dataset.load()
        print("variable order:", list(dataset.variables))
        problems += check(dataset, 'CF 2-D', ('j', 'i'))
        dataset.close()

    if problems:
        print("PROPERTY C01 VIOLATED:")
        for problem in problems:
            print("  -", problem)
        return 1
    print("property C01 holds")
    return 0


if __name__ == '__main__':
    sys.exit(main())
