"""
C01 - out-of-range (negative) native indexes are wrapped onto another cell by
``selector_for_index`` / ``select_index`` / ``select_indexes``, while
``ravel_index`` rejects the very same index.

``ravel_index((-1, 0))`` raises ValueError (the index is outside the grid), but
``select_index((-1, 0))`` silently returns the data of the *last* row, i.e. of
native index ``(ny - 1, 0)``; ``(face, -1)`` on a UGRID dataset returns the
last face.  Indexes beyond the upper end are rejected (IndexError), so only
negative ones wrap.

Exit status 1 when the property is violated, 0 when it holds.
"""
import sys
import warnings

import numpy
import xarray

import emsarray  # noqa: F401
from emsarray.conventions.ugrid import UGridKind

warnings.simplefilter('ignore')


def make_cf1d(ny, nx):
    lat = xarray.DataArray(
        numpy.arange(ny) * 1.0, dims=['lat'],
        attrs={'units': 'degrees_north', 'standard_name': 'latitude'})
    lon = xarray.DataArray(
        numpy.arange(nx) * 1.0 + 100, dims=['lon'],
        attrs={'units': 'degrees_east', 'standard_name': 'longitude'})
    cell = xarray.DataArray(numpy.arange(ny * nx).reshape(ny, nx), dims=['lat', 'lon'])
    return xarray.Dataset(
        {'cell': cell}, coords={'lat': lat, 'lon': lon}, attrs={'Conventions': 'CF-1.8'})


def make_ugrid():
    # Two quads side by side: 6 nodes, 2 faces
    mesh = xarray.DataArray(numpy.int32(0), attrs={
        'cf_role': 'mesh_topology', 'topology_dimension': 2,
        'node_coordinates': 'node_x node_y', 'face_node_connectivity': 'face_nodes',
        'face_dimension': 'face',
    })
    return xarray.Dataset({
        'mesh': mesh,
        'node_x': xarray.DataArray([0., 1., 2., 0., 1., 2.], dims=['node']),
        'node_y': xarray.DataArray([0., 0., 0., 1., 1., 1.], dims=['node']),
        'face_nodes': xarray.DataArray(
            numpy.array([[0, 1, 4, 3], [1, 2, 5, 4]], dtype='i4'), dims=['face', 'max_nodes'],
            attrs={'cf_role': 'face_node_connectivity', 'start_index': 0}),
        'cell': xarray.DataArray(numpy.arange(2), dims=['face']),
        'vertex': xarray.DataArray(numpy.arange(6), dims=['node']),
    }, attrs={'Conventions': 'UGRID-1.0'})


def probe(dataset, label, variable, index):
    """An out-of-range index must be rejected by ravel_index and by select_index."""
    problems = []
    convention = dataset.ems
    try:
        linear = convention.ravel_index(index)
        problems.append(f"{label}: ravel_index({index}) accepted -> {linear}")
    except (ValueError, IndexError, KeyError):
        pass
    try:
        selected = convention.select_index(index)
    except (ValueError, IndexError, KeyError):
        return problems
    value = int(selected[variable].values)
    problems.append(
        f"{label}: ravel_index({index}) rejects the index as outside the grid, but "
        f"select_index({index}) silently returned the cell with linear index {value}")
    return problems


def main():
    problems = []
    ny, nx = 3, 4
    cf = make_cf1d(ny, nx)
    print("CF 1-D grid size:", cf.ems.grid_size)
    for index in [(-1, 0), (0, -1), (-ny, -nx), (ny, 0), (0, nx), (-ny - 1, 0)]:
        problems += probe(cf, 'CF 1-D', 'cell', index)

    ugrid = make_ugrid()
    print("UGRID grid size:", ugrid.ems.grid_size)
    for index in [(UGridKind.face, -1), (UGridKind.face, 2), (UGridKind.face, -3)]:
        problems += probe(ugrid, 'UGRID', 'cell', index)
    for index in [(UGridKind.node, -6), (UGridKind.node, 6)]:
        problems += probe(ugrid, 'UGRID', 'vertex', index)

    if problems:
        print("PROPERTY C01 VIOLATED:")
        for problem in problems:
            print("  -", problem)
        return 1
    print("property C01 holds")
    return 0


if __name__ == '__main__':
    sys.exit(main())
