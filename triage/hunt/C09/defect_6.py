"""
C09 - UGRID mesh with face_node_connectivity and face_edge_connectivity (with a
_FillValue, as any mesh mixing triangles and quadrilaterals needs) but without
edge_node_connectivity, edge_face_connectivity or an edge_dimension attribute.
All of these are optional in UGRID.  The dataset opens and has polygons, and
selecting a subset of its data variables must leave the geometry identical.
Exits 1 when select_variables fails or changes a polygon.
"""
import pathlib
import sys
import tempfile
import traceback
import warnings

import dask
import numpy
import xarray

import emsarray  # noqa: F401
from emsarray.conventions.ugrid import Mesh2DTopology, UGrid
from emsarray.utils import to_netcdf_with_fixes
from tests.conventions.test_ugrid import make_dataset

dask.config.set(scheduler='synchronous')
warnings.simplefilter('ignore')


def build(path: pathlib.Path, with_fill_value: bool) -> xarray.Dataset:
    # Number the edges with the help of a copy that has edges
    face_edge = numpy.ma.masked_array(Mesh2DTopology(make_dataset(width=4, make_edges=True)).face_edge_array)
    dataset = make_dataset(width=4, make_edges=False)
    values = numpy.ma.filled(face_edge, -1).astype('int32')
    variable = xarray.DataArray(
        values, dims=['nMesh2_face', 'nMaxMesh2_face_nodes'],
        attrs={'cf_role': 'face_edge_connectivity', 'start_index': 0})
    if with_fill_value:
        variable.encoding['_FillValue'] = numpy.int32(-1)
    else:
        variable.attrs['_FillValue'] = numpy.int32(-1)  # understood by emsarray, but not put in encoding
    dataset['Mesh2_face_edges'] = variable
    mesh = dataset['Mesh2'].copy()
    mesh.attrs = {**dataset['Mesh2'].attrs, 'face_edge_connectivity': 'Mesh2_face_edges'}
    dataset['Mesh2'] = mesh
    if not with_fill_value:
        return dataset
    to_netcdf_with_fixes(dataset, path)
    return xarray.open_dataset(path).load()


def check(label: str, dataset: xarray.Dataset) -> list[str]:
    convention = dataset.ems
    assert isinstance(convention, UGrid)
    assert not convention.topology.has_edge_dimension
    polygons = convention.polygons
    assert len(polygons) == dataset.sizes['nMesh2_face'] and all(p is not None for p in polygons)
    try:
        subset = convention.select_variables(['eta'])
    except Exception as exc:
        frames = [f"{f.name}:{f.lineno}" for f in traceback.extract_tb(exc.__traceback__) if 'emsarray' in f.filename]
        return [f"{label}: select_variables(['eta']) raised {type(exc).__name__} {exc} (at {' > '.join(frames[-3:])})"]
    problems = []
    if not isinstance(subset.ems, UGrid):
        problems.append(f"{label}: subset is not UGRID")
    elif not all(a.equals_exact(b, 0) for a, b in zip(subset.ems.polygons, polygons)):
        problems.append(f"{label}: polygons changed")
    if 'Mesh2_face_edges' not in subset.variables:
        problems.append(f"{label}: face_edge_connectivity was dropped")
    if 'temp' in subset.variables or 'eta' not in subset.variables:
        problems.append(f"{label}: wrong data variables {list(subset.data_vars)}")
    return problems


def main() -> int:
    with tempfile.TemporaryDirectory() as tmp_name:
        tmp = pathlib.Path(tmp_name)
        control = check('control (fill value not in encoding)', build(tmp / 'control.nc', with_fill_value=False))
        assert not control, control
        problems = check('from file', build(tmp / 'input.nc', with_fill_value=True))

    if problems:
        print("C09 violated: select_variables fails on a mesh with face_edge_connectivity and no edge dimension")
        for problem in problems:
            print(" -", problem)
        return 1
    print("ok")
    return 0


if __name__ == '__main__':
    sys.exit(main())
