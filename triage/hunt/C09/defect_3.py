"""
C09 - UGRID connectivity whose missing entries are marked by a `_FillValue` *attribute*
on an integer array: a dataset built in memory, or a file opened with mask_and_scale=False.
Mesh2DTopology._to_index_array supports this representation explicitly, so polygons work.
Clipping such a dataset must give a valid UGRID dataset.  Exits 1 when it does not.
"""
import pathlib
import sys
import tempfile
import traceback
import warnings

import dask
import numpy
import xarray
from shapely.geometry import box

import emsarray  # noqa: F401
from emsarray.conventions.ugrid import UGrid
from emsarray.utils import to_netcdf_with_fixes
from tests.conventions.test_ugrid import make_dataset

dask.config.set(scheduler='synchronous')
warnings.simplefilter('ignore')

CLIP = box(2.1, 0.1, 2.9, 1.9)


def integer_face_nodes(dataset: xarray.Dataset) -> xarray.DataArray:
    """face_node_connectivity as int32, with 999999 where a triangle has no fourth node"""
    face_node = dataset['Mesh2_face_nodes']
    values = numpy.nan_to_num(face_node.values, nan=999999).astype('int32')
    return xarray.DataArray(values, dims=face_node.dims, attrs=dict(face_node.attrs))


def in_memory() -> xarray.Dataset:
    dataset = make_dataset(width=4, make_edges=True)
    face_node = integer_face_nodes(dataset)
    face_node.attrs['_FillValue'] = numpy.int32(999999)
    dataset['Mesh2_face_nodes'] = face_node
    return dataset


def on_disk(path: pathlib.Path) -> None:
    dataset = make_dataset(width=4, make_edges=True)
    face_node = integer_face_nodes(dataset)
    face_node.encoding['_FillValue'] = numpy.int32(999999)
    dataset['Mesh2_face_nodes'] = face_node
    to_netcdf_with_fixes(dataset, path)


def check(label: str, dataset: xarray.Dataset, tmp: pathlib.Path) -> list[str]:
    convention = dataset.ems
    assert isinstance(convention, UGrid)
    polygons = convention.polygons
    assert all(p is not None for p in polygons), "the input itself is fine"
    faces = numpy.sort(convention.strtree.query(CLIP, predicate='intersects'))
    work = tmp / f'work-{label}'
    work.mkdir()
    try:
        clipped = convention.clip(CLIP, work)
        out = tmp / f'clipped-{label}.nc'
        clipped.ems.to_netcdf(out)
        result = xarray.open_dataset(out).load()
    except Exception as exc:
        frames = [f"{f.name}:{f.lineno}" for f in traceback.extract_tb(exc.__traceback__) if 'emsarray' in f.filename]
        return [f"{label}: clip raised {type(exc).__name__}: {str(exc).splitlines()[0][:150]} (at {' > '.join(frames[-3:])})"]
    if not isinstance(result.ems, UGrid):
        return [f"{label}: output is not a UGRID dataset"]
    new_polygons = result.ems.polygons
    if len(new_polygons) != len(faces) or not all(
            new.equals_exact(polygons[old], 0) for new, old in zip(new_polygons, faces)):
        return [f"{label}: polygons of the output differ from the selected polygons"]
    return []


def main() -> int:
    problems = []
    with tempfile.TemporaryDirectory() as tmp_name:
        tmp = pathlib.Path(tmp_name)
        problems += check('in-memory', in_memory(), tmp)

        path = tmp / 'input.nc'
        on_disk(path)
        problems += check('mask_and_scale=False', xarray.open_dataset(path, mask_and_scale=False).load(), tmp)
        # control: the same file opened normally
        control = check('control', xarray.open_dataset(path).load(), tmp)
        assert not control, control

    if problems:
        print("C09 violated: connectivity with a _FillValue attribute can not be clipped")
        for problem in problems:
            print(" -", problem)
        return 1
    print("ok")
    return 0


if __name__ == '__main__':
    sys.exit(main())
