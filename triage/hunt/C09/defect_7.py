"""
C09 - UGRID dataset built in memory whose connectivity variables say how they are to be
written with encoding = {'dtype': 'int32', '_FillValue': -1}.  xarray accepts a dtype name
(or a numpy scalar type) in encoding['dtype'] - the test helpers of the library set
encoding["dtype"] = "float32" for their time variable in the same way - and the dataset
can be saved as it is.  Clipping it must work and keep the integer type.  Exits 1 if not.
"""
import pathlib
import sys
import tempfile
import traceback
import warnings

import dask
import numpy
import xarray
from shapely.geometry import box

import emsarray  # noqa: F401
from emsarray.conventions.ugrid import UGrid
from tests.conventions.test_ugrid import make_dataset

dask.config.set(scheduler='synchronous')
warnings.simplefilter('ignore')

CLIP = box(2.1, 0.1, 2.9, 1.9)


def check(label: str, dtype_spec, tmp: pathlib.Path) -> list[str]:
    dataset = make_dataset(width=4, make_edges=True)
    for name in ['Mesh2_face_nodes', 'Mesh2_edge_nodes']:
        # float with nan for "no node", written as integers
        dataset[name].encoding.update({'dtype': dtype_spec, '_FillValue': -1})
    convention = dataset.ems
    assert isinstance(convention, UGrid)
    # The input can be saved, and comes back as int32
    convention.to_netcdf(tmp / f'input-{label}.nc')
    with xarray.open_dataset(tmp / f'input-{label}.nc') as saved:
        assert saved['Mesh2_face_nodes'].encoding['dtype'] == numpy.dtype('int32')

    polygons = convention.polygons
    faces = numpy.sort(convention.strtree.query(CLIP, predicate='intersects'))
    work = tmp / f'work-{label}'
    work.mkdir()
    try:
        clipped = convention.clip(CLIP, work)
        out = tmp / f'clipped-{label}.nc'
        clipped.ems.to_netcdf(out)
        result = xarray.open_dataset(out).load()
    except Exception as exc:
        frames = [f"{f.name}:{f.lineno}" for f in traceback.extract_tb(exc.__traceback__) if 'emsarray' in f.filename]
        return [f"encoding dtype {dtype_spec!r}: clip raised {type(exc).__name__}: {exc} (at {' > '.join(frames[-2:])})"]
    problems = []
    new_polygons = result.ems.polygons
    if len(new_polygons) != len(faces) or not all(
            new.equals_exact(polygons[old], 0) for new, old in zip(new_polygons, faces)):
        problems.append(f"encoding dtype {dtype_spec!r}: polygons differ")
    if result['Mesh2_face_nodes'].encoding.get('dtype') != numpy.dtype('int32'):
        problems.append(f"encoding dtype {dtype_spec!r}: integer type not kept")
    return problems


def main() -> int:
    problems = []
    with tempfile.TemporaryDirectory() as tmp_name:
        tmp = pathlib.Path(tmp_name)
        control = check('control', numpy.dtype('int32'), tmp)
        assert not control, control
        problems += check('name', 'int32', tmp)
        problems += check('type', numpy.int32, tmp)

    if problems:
        print("C09 violated: clip fails when encoding['dtype'] of a connectivity variable is not a numpy.dtype instance")
        for problem in problems:
            print(" -", problem)
        return 1
    print("ok")
    return 0


if __name__ == '__main__':
    sys.exit(main())
