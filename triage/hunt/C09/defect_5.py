"""
C09 - UGRID connectivity stored as an unsigned 16 bit integer (uint16, _FillValue 65535).
Such a variable can index up to 65535 nodes.  As soon as the mesh has 250 quadrilateral
faces (face_count * max_node_count >= 1000) clipping fails, while the same mesh stored
as int16 clips fine.  The output must keep the integer type.  Exits 1 on a violation.
"""
import pathlib
import sys
import tempfile
import traceback
import warnings

import dask
import numpy
import xarray
from shapely.geometry import box

import emsarray  # noqa: F401
from emsarray.conventions.ugrid import UGrid
from emsarray.utils import to_netcdf_with_fixes
from tests.conventions.test_ugrid import make_dataset

dask.config.set(scheduler='synchronous')
warnings.simplefilter('ignore')

CLIP = box(2.1, 0.1, 2.9, 1.9)


def build(path: pathlib.Path, dtype: str, width: int) -> xarray.Dataset:
    dataset = make_dataset(width=width, make_edges=True)
    fill = numpy.iinfo(dtype).max
    for name in ['Mesh2_face_nodes', 'Mesh2_edge_nodes']:
        variable = dataset[name]
        values = numpy.nan_to_num(numpy.asarray(variable.values, dtype=float), nan=fill).astype(dtype)
        new = xarray.DataArray(values, dims=variable.dims, attrs=dict(variable.attrs))
        new.encoding['_FillValue'] = numpy.array(fill, dtype=dtype)[()]
        dataset[name] = new
    to_netcdf_with_fixes(dataset, path)
    return xarray.open_dataset(path).load()


def check(label: str, dataset: xarray.Dataset, tmp: pathlib.Path) -> list[str]:
    convention = dataset.ems
    assert isinstance(convention, UGrid)
    polygons = convention.polygons
    faces = numpy.sort(convention.strtree.query(CLIP, predicate='intersects'))
    dtype = dataset['Mesh2_face_nodes'].encoding['dtype']
    work = tmp / f'work-{label}'
    work.mkdir()
    try:
        clipped = convention.clip(CLIP, work)
        out = tmp / f'clipped-{label}.nc'
        clipped.ems.to_netcdf(out)
        result = xarray.open_dataset(out).load()
    except Exception as exc:
        frames = [f"{f.name}:{f.lineno}" for f in traceback.extract_tb(exc.__traceback__) if 'emsarray' in f.filename]
        return [f"{label}: clip raised {type(exc).__name__}: {str(exc).splitlines()[0][:150]} (at {' > '.join(frames[-2:])})"]
    problems = []
    new_polygons = result.ems.polygons
    if len(new_polygons) != len(faces) or not all(
            new.equals_exact(polygons[old], 0) for new, old in zip(new_polygons, faces)):
        problems.append(f"{label}: polygons of the output differ from the selected polygons")
    for name in ['Mesh2_face_nodes', 'Mesh2_edge_nodes']:
        new_dtype = result[name].encoding.get('dtype', result[name].dtype)
        if numpy.dtype(new_dtype) != numpy.dtype(dtype):
            problems.append(f"{label}: {name} changed type from {dtype} to {new_dtype}")
    return problems


def main() -> int:
    problems = []
    with tempfile.TemporaryDirectory() as tmp_name:
        tmp = pathlib.Path(tmp_name)
        # controls: a small uint16 mesh, and the larger mesh as int16
        for label, dtype, width in [('uint16-56-faces', 'uint16', 4), ('int16-264-faces', 'int16', 12)]:
            control = check(label, build(tmp / f'{label}.nc', dtype, width), tmp)
            assert not control, control
        dataset = build(tmp / 'uint16.nc', 'uint16', 12)
        print(f"mesh: {dataset.sizes['nMesh2_face']} faces, {dataset.sizes['nMesh2_node']} nodes, "
              f"sensible_fill_value={dataset.ems.topology.sensible_fill_value}")
        problems += check('uint16-264-faces', dataset, tmp)

    if problems:
        print("C09 violated: a mesh with uint16 connectivity can not be clipped")
        for problem in problems:
            print(" -", problem)
        return 1
    print("ok")
    return 0


if __name__ == '__main__':
    sys.exit(main())
