"""
C09 - clipping a dataset whose variables still carry their CF encoding as *attributes*
(`_FillValue` / `missing_value` after mask_and_scale=False, time `units` after
decode_times=False, or an in-memory dataset with a `missing_value` attribute such as
the one made by the library's own SHOC simple test helper).

The clipped dataset must be saveable and reopen as the same convention.
Exits 1 when saving the clipped dataset fails.
"""
import pathlib
import sys
import tempfile
import traceback
import warnings

import dask
import xarray
from shapely.geometry import box

import emsarray  # noqa: F401
from emsarray.utils import to_netcdf_with_fixes
from tests.conventions.test_cfgrid1d import make_dataset as make_cfgrid1d
from tests.conventions.test_cfgrid2d import make_dataset as make_shoc_simple

dask.config.set(scheduler='synchronous')
warnings.simplefilter('ignore')


def check(label: str, dataset: xarray.Dataset, geometry, tmp: pathlib.Path) -> list[str]:
    convention = dataset.ems
    # the input itself can be saved
    convention.to_netcdf(tmp / f'input-{label}.nc')
    selected = {
        convention.polygons[i].wkb
        for i in convention.strtree.query(geometry, predicate='intersects')}
    work = tmp / f'work-{label}'
    work.mkdir()
    stage = 'clip'
    try:
        clipped = convention.clip(geometry, work)
        stage = 'save'
        out = tmp / f'clipped-{label}.nc'
        clipped.ems.to_netcdf(out)
        stage = 'reopen'
        result = xarray.open_dataset(out).load()
    except Exception as exc:
        frames = [f"{f.name}:{f.lineno}" for f in traceback.extract_tb(exc.__traceback__) if 'emsarray' in f.filename]
        return [f"{label}: {stage} raised {type(exc).__name__}: {str(exc).splitlines()[0][:140]} (at {' > '.join(frames[-2:])})"]
    if type(result.ems) is not type(convention):
        return [f"{label}: reopened as {type(result.ems).__name__}, not {type(convention).__name__}"]
    kept = {p.wkb for p in result.ems.polygons if p is not None}
    if not selected <= kept:
        return [f"{label}: selected polygons missing from the output"]
    return []


def main() -> int:
    problems = []
    with tempfile.TemporaryDirectory() as tmp_name:
        tmp = pathlib.Path(tmp_name)

        grid = make_cfgrid1d(width=8, height=10, bounds=True)
        grid['eta'] = grid['eta'].where(grid['eta'] > -0.2)
        grid['eta'].encoding['_FillValue'] = -999.
        path = tmp / 'grid.nc'
        to_netcdf_with_fixes(grid, path)
        geometry = box(0.25, 0.35, 0.55, 0.75)

        control = check('control', xarray.open_dataset(path), geometry, tmp)
        assert not control, control
        problems += check('mask_and_scale=False', xarray.open_dataset(path, mask_and_scale=False), geometry, tmp)
        problems += check('decode_times=False', xarray.open_dataset(path, decode_times=False), geometry, tmp)

        # The SHOC simple dataset of tests/conventions/test_cfgrid2d.py, used in memory:
        # botz has attrs['missing_value'] = -99.
        shoc = make_shoc_simple(j_size=8, i_size=9, include_bounds=True)
        problems += check('in-memory missing_value', shoc, box(0.45, 0.45, 0.75, 0.65), tmp)

    if problems:
        print("C09 violated: the clipped dataset can not be saved")
        for problem in problems:
            print(" -", problem)
        return 1
    print("ok")
    return 0


if __name__ == '__main__':
    sys.exit(main())
