"""
C15 defect 1: write_geojson() silently rounds every coordinate to 6 decimal places.

The property demands that reading the exported file back yields the cells
"with identical coordinates".  to_geojson() hands the shapely polygons to
geojson.Feature() without a precision, so the geojson package applies its
default of 6 decimals.  Any grid whose cell corners are not multiples of 1e-6
(a 1/3 degree grid, float32 coordinates, an unstructured mesh) comes back moved.
"""
import json
import os
import sys
import tempfile
import warnings

import numpy
import shapely
import shapely.geometry
import xarray

import emsarray  # noqa: F401 - registers the .ems accessor
from emsarray.operations import geometry

warnings.simplefilter('ignore')


def cfgrid1d_thirds() -> xarray.Dataset:
    # A regular 1/3 degree grid: cell edges fall on sixths of a degree
    lon = 140 + numpy.arange(6) / 3
    lat = -40 + numpy.arange(4) / 3
    return xarray.Dataset(
        {'eta': (('lat', 'lon'), numpy.zeros((4, 6)))},
        coords={
            'lon': ('lon', lon, {'standard_name': 'longitude', 'units': 'degrees_east'}),
            'lat': ('lat', lat, {'standard_name': 'latitude', 'units': 'degrees_north'}),
        },
    )


def cfgrid1d_float32() -> xarray.Dataset:
    # Coordinates stored as 32 bit floats, as most model output does
    lon = (140 + numpy.arange(6) * 0.1).astype(numpy.float32)
    lat = (-40 + numpy.arange(4) * 0.1).astype(numpy.float32)
    return xarray.Dataset(
        {'eta': (('lat', 'lon'), numpy.zeros((4, 6)))},
        coords={
            'lon': ('lon', lon, {'standard_name': 'longitude', 'units': 'degrees_east'}),
            'lat': ('lat', lat, {'standard_name': 'latitude', 'units': 'degrees_north'}),
        },
    )


def ugrid_triangles() -> xarray.Dataset:
    from tests.conventions.test_ugrid import make_dataset
    return make_dataset(width=3)


def main() -> int:
    failures = 0
    for name, make in [
        ('CFGrid1D, 1/3 degree grid', cfgrid1d_thirds),
        ('CFGrid1D, float32 coordinates', cfgrid1d_float32),
        ('UGRID, triangular mesh', ugrid_triangles),
    ]:
        dataset = make()
        expected = [(i, p) for i, p in enumerate(dataset.ems.polygons) if p is not None]
        with tempfile.TemporaryDirectory() as tmp:
            path = os.path.join(tmp, 'out.geojson')
            geometry.write_geojson(dataset, path)
            with open(path) as f:
                features = json.load(f)['features']

        if len(features) != len(expected):
            print(f"{name}: {len(features)} features for {len(expected)} polygons")
            failures += 1
            continue

        moved = []
        worst = 0.0
        for feature, (linear_index, polygon) in zip(features, expected):
            actual = shapely.geometry.shape(feature['geometry'])
            a = numpy.array(actual.exterior.coords)
            e = numpy.array(polygon.exterior.coords)
            if a.shape != e.shape or not numpy.array_equal(a, e):
                moved.append(linear_index)
                if a.shape == e.shape:
                    worst = max(worst, float(numpy.abs(a - e).max()))
        if moved:
            failures += 1
            i = moved[0]
            print(f"{name}: {len(moved)} of {len(expected)} cells do not come back "
                  f"with identical coordinates (largest shift {worst:.3g})")
            print(f"    dataset polygon {i}: {dataset.ems.polygons[i].wkt}")
            print(f"    geojson feature  {i}: "
                  f"{shapely.geometry.shape(features[[e[0] for e in expected].index(i)]['geometry']).wkt}")
        else:
            print(f"{name}: ok")

    if failures:
        print("PROPERTY VIOLATED: GeoJSON export does not round-trip the cell coordinates")
        return 1
    print("property holds")
    return 0


if __name__ == '__main__':
    sys.exit(main())
