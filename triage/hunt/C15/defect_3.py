"""
C15 defect 3: write_shapefile() crashes when `prj` is an opened file handle.

The docstring says shp, shx, dbf and prj may each be a "str or pathlib.Path or
opened file handle".  Handles work for shp/shx/dbf (pyshp deals with them) but
the prj handle goes through emsarray's own `_maybe_open()`, which tests
`isinstance(path_or_file, typing.IO)`.  No real file object is an instance of
typing.IO, so the handle is passed to open() and a TypeError escapes after the
three other components were already written.
"""
import io
import json
import os
import sys
import tempfile
import warnings

import shapefile
import shapely
import shapely.geometry

import emsarray  # noqa: F401 - registers the .ems accessor
from emsarray.operations import geometry

warnings.simplefilter('ignore')


def read_back(dataset, reader) -> list[str]:
    problems = []
    expected = [(i, p) for i, p in enumerate(dataset.ems.polygons) if p is not None]
    shapes = reader.shapes()
    records = reader.records()
    if len(shapes) != len(expected):
        problems.append(f"{len(shapes)} shapes for {len(expected)} polygons")
    for shape, record, (linear_index, polygon) in zip(shapes, records, expected):
        actual = shapely.geometry.shape(shape.__geo_interface__)
        if not actual.equals(polygon):
            problems.append(f"shape for polygon {linear_index} differs")
            break
        if json.loads(record['index']) != json.loads(json.dumps(dataset.ems.wind_index(linear_index))):
            problems.append(f"index for polygon {linear_index} differs: {record['index']}")
            break
    return problems


def main() -> int:
    from tests.conventions.test_shoc_standard import make_dataset
    dataset = make_dataset(j_size=4, i_size=5, corner_size=1)
    failures = 0

    # 1. in-memory handles for all four components
    shp, shx, dbf, prj = io.BytesIO(), io.BytesIO(), io.BytesIO(), io.StringIO()
    try:
        geometry.write_shapefile(dataset, shp=shp, shx=shx, dbf=dbf, prj=prj)
    except Exception as exc:
        failures += 1
        print(f"in-memory handles: write_shapefile raised {exc!r}")
    else:
        problems = read_back(dataset, shapefile.Reader(shp=shp, shx=shx, dbf=dbf))
        if not prj.getvalue():
            problems.append("nothing was written to the prj handle")
        if problems:
            failures += 1
            print("in-memory handles:", problems)
        else:
            print("in-memory handles: ok")

    # 2. a target path plus a real, opened text file for the projection
    with tempfile.TemporaryDirectory() as tmp:
        target = os.path.join(tmp, 'cells.shp')
        prj_path = os.path.join(tmp, 'projection.prj')
        try:
            with open(prj_path, 'w') as prj_file:
                geometry.write_shapefile(dataset, target, prj=prj_file)
        except Exception as exc:
            failures += 1
            print(f"target + opened prj file: write_shapefile raised {exc!r}")
        else:
            problems = read_back(dataset, shapefile.Reader(target))
            if os.path.getsize(prj_path) == 0:
                problems.append("nothing was written to the prj file")
            if problems:
                failures += 1
                print("target + opened prj file:", problems)
            else:
                print("target + opened prj file: ok")

        # 3. control: the same call with prj given as a path works
        target = os.path.join(tmp, 'control.shp')
        geometry.write_shapefile(dataset, target, prj=os.path.join(tmp, 'control_projection.prj'))
        print("control (prj as a path):", read_back(dataset, shapefile.Reader(target)) or "ok")

    if failures:
        print("PROPERTY VIOLATED: a documented way of exporting a Shapefile raises instead of writing it")
        return 1
    print("property holds")
    return 0


if __name__ == '__main__':
    sys.exit(main())
