"""
C15 defect 2: write_wkt() silently rounds every coordinate to 6 decimal places.

write_wkt() calls shapely.to_wkt() with its default rounding_precision=6,
so the MultiPolygon that is read back does not have the coordinates of
dataset.ems.polygons.  write_wkb() of the same dataset is exact.
"""
import os
import sys
import tempfile
import warnings

import numpy
import shapely
import xarray

import emsarray  # noqa: F401 - registers the .ems accessor
from emsarray.operations import geometry

warnings.simplefilter('ignore')


def cfgrid1d_thirds() -> xarray.Dataset:
    lon = 140 + numpy.arange(6) / 3
    lat = -40 + numpy.arange(4) / 3
    return xarray.Dataset(
        {'eta': (('lat', 'lon'), numpy.zeros((4, 6)))},
        coords={
            'lon': ('lon', lon, {'standard_name': 'longitude', 'units': 'degrees_east'}),
            'lat': ('lat', lat, {'standard_name': 'latitude', 'units': 'degrees_north'}),
        },
    )


def shoc_standard() -> xarray.Dataset:
    from tests.conventions.test_shoc_standard import make_dataset
    return make_dataset(j_size=5, i_size=7, corner_size=2)


def ugrid_triangles() -> xarray.Dataset:
    from tests.conventions.test_ugrid import make_dataset
    return make_dataset(width=3)


def compare(name, fmt, geoms, expected) -> bool:
    if len(geoms) != len(expected):
        print(f"{name} [{fmt}]: {len(geoms)} polygons read back, expected {len(expected)}")
        return False
    moved = []
    worst = 0.0
    for n, (actual, (linear_index, polygon)) in enumerate(zip(geoms, expected)):
        a = numpy.array(actual.exterior.coords)
        e = numpy.array(polygon.exterior.coords)
        if a.shape != e.shape or not numpy.array_equal(a, e):
            moved.append(n)
            if a.shape == e.shape:
                worst = max(worst, float(numpy.abs(a - e).max()))
    if moved:
        n = moved[0]
        print(f"{name} [{fmt}]: {len(moved)} of {len(expected)} cells do not come back "
              f"with identical coordinates (largest shift {worst:.3g})")
        print(f"    dataset polygon {expected[n][0]}: {expected[n][1].wkt}")
        print(f"    read back               : {geoms[n].wkt}")
        return False
    print(f"{name} [{fmt}]: ok")
    return True


def main() -> int:
    failures = 0
    for name, make in [
        ('CFGrid1D, 1/3 degree grid', cfgrid1d_thirds),
        ('SHOC standard with holes', shoc_standard),
        ('UGRID, triangular mesh', ugrid_triangles),
    ]:
        dataset = make()
        expected = [(i, p) for i, p in enumerate(dataset.ems.polygons) if p is not None]
        with tempfile.TemporaryDirectory() as tmp:
            wkt_path = os.path.join(tmp, 'out.wkt')
            wkb_path = os.path.join(tmp, 'out.wkb')
            geometry.write_wkt(dataset, wkt_path)
            geometry.write_wkb(dataset, wkb_path)
            with open(wkt_path) as f:
                from_wkt = shapely.from_wkt(f.read())
            with open(wkb_path, 'rb') as f:
                from_wkb = shapely.from_wkb(f.read())

        # WKB is shown for comparison: it is exact
        if not compare(name, 'wkb', list(from_wkb.geoms), expected):
            failures += 1
        if not compare(name, 'wkt', list(from_wkt.geoms), expected):
            failures += 1

    if failures:
        print("PROPERTY VIOLATED: WKT export does not round-trip the cell coordinates")
        return 1
    print("property holds")
    return 0


if __name__ == '__main__':
    sys.exit(main())
