"""
C15 defect 4: the `linear_index` attribute of every Shapefile record is empty.

write_shapefile() declares a dbf field called 'linear_index' (12 characters) and
fills the records by keyword: writer.record(name=..., linear_index=i, index=...).
dBase field names hold at most 10 characters.  The installed pyshp (3.x)
shortens the name to 'linear_ind' when the field is declared, so the keyword
'linear_index' matches no field and the value is dropped: every record is
written with an empty (NULL) linear index.  The property requires each feature
to record the cell's linear index.

NOTE: this depends on the pyshp version.  pyshp 2.3 only shortened the name while
writing the header, so the keyword still matched.  pyproject.toml allows
'pyshp >=2.3', which includes the 3.x releases this was reproduced with.
"""
import json
import os
import sys
import tempfile
import warnings

import shapefile

import emsarray  # noqa: F401 - registers the .ems accessor
from emsarray.operations import geometry

warnings.simplefilter('ignore')


def main() -> int:
    from tests.conventions.test_cfgrid1d import make_dataset as make_cfgrid1d
    from tests.conventions.test_shoc_standard import make_dataset as make_shoc
    from tests.conventions.test_ugrid import make_dataset as make_ugrid

    failures = 0
    print("pyshp version", shapefile.__version__)
    for name, dataset in [
        ('CFGrid1D', make_cfgrid1d(width=4, height=3)),
        ('SHOC standard with holes', make_shoc(j_size=4, i_size=5, corner_size=1)),
        ('UGRID', make_ugrid(width=3)),
    ]:
        expected = [i for i, p in enumerate(dataset.ems.polygons) if p is not None]
        with tempfile.TemporaryDirectory() as tmp:
            target = os.path.join(tmp, 'cells.shp')
            geometry.write_shapefile(dataset, target)
            with shapefile.Reader(target) as reader:
                field_names = [f[0] for f in reader.fields if f[0] != 'DeletionFlag']
                records = [list(r) for r in reader.records()]

        # Field 1 is the linear index whatever the dbf calls it (names are cut to 10 characters)
        actual = [r[1] for r in records]
        native = [json.loads(r[2]) for r in records]
        expected_native = [json.loads(json.dumps(dataset.ems.wind_index(i))) for i in expected]
        if native != expected_native:
            failures += 1
            print(f"{name}: native indexes differ")
        if actual != expected:
            failures += 1
            print(f"{name}: fields {field_names}; linear indexes read back {actual[:5]}... "
                  f"expected {expected[:5]}...")
        else:
            print(f"{name}: ok")

    if failures:
        print("PROPERTY VIOLATED: Shapefile records do not carry the linear index of their cell")
        return 1
    print("property holds")
    return 0


if __name__ == '__main__':
    sys.exit(main())
