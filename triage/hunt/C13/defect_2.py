"""
C13 defect 2: when the same depth coordinate is listed more than once
(by name twice, or once by name and once as a data array) the sign is
flipped once per mention, because the sign test reads the *input* dataset
while the flip is applied to the working copy.

Run as: cd /tmp/hunt_C13 && PYTHONPATH=src:. python seed_out/defect_2.py
"""
import sys
import warnings

import numpy
import xarray

from emsarray.operations.depth import normalize_depth_variables

failures = []


def make(with_attr):
    attrs = {'positive': 'up'} if with_attr else {}
    return xarray.Dataset(
        data_vars={'temp': (('k', 'x'), numpy.arange(6.).reshape(3, 2))},
        coords={
            'depth': ('k', numpy.array([-1., -2., -3.]), {**attrs, 'bounds': 'depth_bnds'}),
        },
    ).assign({
        'depth_bnds': (('k', 'nv'), numpy.array([[-.5, -1.5], [-1.5, -2.5], [-2.5, -3.5]])),
    })


for with_attr in (True, False):
    dataset = make(with_attr)
    forms = {
        "['depth', 'depth']": lambda: ['depth', 'depth'],
        "['depth', dataset['depth']]": lambda: ['depth', dataset['depth']],
        # e.g. every coordinate the convention found plus the one the user cares about
        "list(ems.depth_coordinates) + ['depth']": lambda: [dataset['depth']] + ['depth'],
    }
    with warnings.catch_warnings():
        warnings.simplefilter('ignore')
        expected = normalize_depth_variables(dataset, ['depth'], positive_down=True)
    assert list(expected['depth'].values) == [1., 2., 3.]

    for label, form in forms.items():
        with warnings.catch_warnings():
            warnings.simplefilter('ignore')
            out = normalize_depth_variables(dataset, form(), positive_down=True)
        depth = out['depth']
        # positive: down means that depths below the surface are positive numbers.
        if depth.attrs.get('positive') != 'down' or not numpy.all(depth.values > 0):
            failures.append(
                f"positive attr in input: {with_attr}; depth_coordinates={label}: "
                f"positive={depth.attrs.get('positive')!r} but values={depth.values} "
                f"bounds[0]={out['depth_bnds'].values[0]}")
        elif not out.identical(expected):
            failures.append(f"{label}: differs from the single mention result")

# The same root cause breaks idempotence when the coordinates are handed over
# as data arrays: the arrays found on the first dataset are reused for the second call.
dataset = make(True)
coordinates = [dataset['depth']]   # e.g. dataset.ems.depth_coordinates, kept in a variable
once = normalize_depth_variables(dataset, coordinates, positive_down=True)
twice = normalize_depth_variables(once, coordinates, positive_down=True)
if not twice.identical(once):
    failures.append(
        f"normalising the normalised dataset again with the same list of data arrays: "
        f"positive={twice['depth'].attrs.get('positive')!r} values={twice['depth'].values} "
        f"(after the first call: {once['depth'].values})")

if failures:
    print("C13 violated: attribute and values disagree after normalising")
    for failure in failures:
        print("  -", failure)
    sys.exit(1)
print("ok")
sys.exit(0)
