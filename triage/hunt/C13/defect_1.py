"""
C13 defect 1: a depth coordinate without a 'positive' attribute whose values
include the surface (0) is guessed to be 'positive: up' although every other
value is positive, so the sign and the ordering come out the wrong way round.

Run as: cd /tmp/hunt_C13 && PYTHONPATH=src:. python seed_out/defect_1.py
"""
import sys
import warnings

import numpy
import xarray

from emsarray.operations.depth import normalize_depth_variables

failures = []

# Depth in metres below the surface, no 'positive' attribute (a very common
# CF violation that the library says it handles by looking at the values).
for depths in ([0., 5.], [0., 10.], [5., 0.], [-1., 0., 1., 2.]):
    depths = numpy.array(depths)
    n = len(depths)
    dataset = xarray.Dataset(
        data_vars={'temp': (('depth', 'x'), numpy.arange(n * 2.).reshape(n, 2))},
        coords={'depth': ('depth', depths, {'units': 'm', 'axis': 'Z'})},
    )
    # The physical depth (metres below the surface) each row of temp belongs to.
    # No value is negative except possibly one 'above surface' level, so these
    # are depths below the surface: positive is down.
    truth = {float(d): dataset['temp'].sel(depth=d).values for d in depths}

    with warnings.catch_warnings(record=True) as caught:
        warnings.simplefilter('always')
        out = normalize_depth_variables(
            dataset, ['depth'], positive_down=True, deep_to_shallow=False)
    guess = [str(w.message) for w in caught]

    out_depths = out['depth'].values
    # Requested: positive down, so depth below the surface == value.
    if out['depth'].attrs.get('positive') != 'down':
        failures.append(f"{depths}: attribute is {out['depth'].attrs.get('positive')!r}")
    if sorted(out_depths) != sorted(depths):
        failures.append(
            f"{depths}: asked for positive down, input already is positive down, "
            f"but the values became {out_depths} (warning: {guess})")
    # Requested: shallow to deep, i.e. depth below surface increasing.
    # Take the sign the output claims (positive: down) at its word.
    if not numpy.all(numpy.diff(out_depths) > 0):
        failures.append(
            f"{depths}: asked for shallow-to-deep with positive down, got {out_depths}")

    # Ordering only, sign untouched
    with warnings.catch_warnings():
        warnings.simplefilter('ignore')
        out = normalize_depth_variables(dataset, ['depth'], deep_to_shallow=False)
    if not numpy.array_equal(out['depth'].values, numpy.sort(depths)):
        failures.append(
            f"{depths}: deep_to_shallow=False alone gives {out['depth'].values}, "
            f"the deepest layer comes first")

if failures:
    print("C13 violated: sign of an attribute-less depth coordinate containing 0 is guessed wrongly")
    for failure in failures:
        print("  -", failure)
    sys.exit(1)
print("ok")
sys.exit(0)
