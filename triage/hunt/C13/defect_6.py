"""
C13 defect 6: a depth coordinate whose bounds variable repeats the
coordinate's own attributes (CF 7.1 allows units, standard_name, axis and
positive on a boundary variable as long as they agree with the coordinate)
cannot be normalised through the accessor: Convention.depth_coordinates takes
the bounds variable for another depth coordinate and the operation refuses it.

Run as: cd /tmp/hunt_C13 && PYTHONPATH=src:. python seed_out/defect_6.py
"""
import sys
import warnings

import numpy
import xarray

import emsarray  # noqa: F401
from tests.conventions.test_cfgrid1d import make_dataset

failures = []

for bounds_attrs in (
    {'positive': 'up'},
    {'standard_name': 'depth', 'units': 'm'},
    {'axis': 'Z'},
):
    dataset = make_dataset(width=3, height=4, depth=5)
    dataset['depth'] = dataset['depth'].astype(float)
    dataset['depth'].attrs.update({
        'positive': 'up', 'units': 'm', 'standard_name': 'depth', 'axis': 'Z',
        'bounds': 'depth_bnds'})
    levels = dataset['depth'].values          # -4 .. 0
    dataset['depth_bnds'] = (
        ('depth', 'nv'), numpy.stack([levels - 0.5, levels + 0.5], axis=1), bounds_attrs)

    found = [c.name for c in dataset.ems.depth_coordinates]
    try:
        with warnings.catch_warnings():
            warnings.simplefilter('ignore')
            out = dataset.ems.normalize_depth_variables(positive_down=True, deep_to_shallow=False)
    except Exception as err:
        failures.append(
            f"bounds attrs {bounds_attrs}: depth coordinates found {found}; "
            f"{type(err).__name__}: {err}")
        continue
    if out['depth'].values.tolist() != [0., 1., 2., 3., 4.] \
            or out['depth_bnds'].values[0].tolist() != [0.5, -0.5]:
        failures.append(f"bounds attrs {bounds_attrs}: wrong result {out['depth'].values} {out['depth_bnds'].values}")

if failures:
    print("C13 violated: a depth coordinate with CF conformant bounds is refused")
    for failure in failures:
        print("  -", failure)
    sys.exit(1)
print("ok")
sys.exit(0)
