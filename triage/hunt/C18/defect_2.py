"""
C18 defect 2: a closed path (a loop whose last vertex equals its first vertex,
for example a circuit around an island or a survey box) gets nonsense distances.
Every segment is placed at or beyond the far end of the path, segments overlap,
their lengths do not add up to the path length, and they are not listed in path
order.

Run from the worktree root:
    PYTHONPATH=src:. python seed_out/defect_2.py
Exit status 1 = property violated, 0 = property holds.
"""
import sys
import types


class _Units:
    def __init__(self, units=None):
        self.units = units

    def formatted(self):
        return str(self.units)


# emsarray.transect imports cfunits, which needs a system library that is absent
sys.modules.setdefault('cfunits', types.SimpleNamespace(Units=_Units))

import numpy  # noqa: E402
import pyproj  # noqa: E402
import shapely  # noqa: E402
import xarray  # noqa: E402

import emsarray  # noqa: E402,F401
from emsarray.transect import Transect  # noqa: E402

GEOD = pyproj.Geod(ellps='WGS84')


def make_grid(nx=6, ny=6, nk=3, x0=0.0, y0=-3.0):
    """A regular 1 degree lon/lat grid, cell edges on whole degrees."""
    lon = x0 + numpy.arange(nx) + 0.5
    lat = y0 + numpy.arange(ny) + 0.5
    depth = 5.0 + 10.0 * numpy.arange(nk)
    values = numpy.arange(nk * ny * nx, dtype=float).reshape(nk, ny, nx)
    return xarray.Dataset(
        data_vars={'temp': (('k', 'lat', 'lon'), values)},
        coords={
            'lon': ('lon', lon, {'standard_name': 'longitude', 'units': 'degrees_east'}),
            'lat': ('lat', lat, {'standard_name': 'latitude', 'units': 'degrees_north'}),
            'depth': ('k', depth, {'standard_name': 'depth', 'positive': 'down', 'units': 'm'}),
        },
    )


def metres(coords):
    xs, ys = zip(*coords)
    return GEOD.line_length(xs, ys)


class Path:
    """Independent bookkeeping of distances along a polyline, leg by leg."""

    def __init__(self, line):
        self.coords = [c[:2] for c in line.coords]
        self.legs = [
            shapely.LineString([a, b])
            for a, b in zip(self.coords[:-1], self.coords[1:])]
        self.leg_metres = [metres(leg.coords) for leg in self.legs]
        self.leg_start = [0.0]
        for length in self.leg_metres:
            self.leg_start.append(self.leg_start[-1] + length)
        self.total = self.leg_start[-1]

    def candidates(self, point):
        """All distances along the path at which the path passes through `point`."""
        out = []
        for k, leg in enumerate(self.legs):
            if leg.distance(point) < 1e-9:
                out.append(self.leg_start[k] + metres([self.coords[k], point.coords[0][:2]]))
        return out


def check(label, dataset, line):
    problems = []
    path = Path(line)
    transect = Transect(dataset, line)
    segments = transect.segments
    tolerance = 0.03 * path.total + 3000.0

    print(f"[{label}] path {line.wkt}")
    print(f"    path length {path.total:.0f} m, vertices at "
          f"{[round(d) for d in path.leg_start]} m; {len(segments)} segments")

    mids = []
    for s in segments:
        piece_m = metres(s.intersection.coords)
        middle = s.intersection.interpolate(0.5, normalized=True)
        where = path.candidates(middle)
        print(f"      cell {s.linear_index!s:>3} {s.start_distance:10.0f} .. {s.end_distance:10.0f} m"
              f"   true middle at {[round(w) for w in where]} m, true length {piece_m:.0f} m")
        if s.start_distance > s.end_distance:
            problems.append(f"cell {s.linear_index}: start after end")
        if s.end_distance > path.total + tolerance:
            problems.append(
                f"cell {s.linear_index}: segment ends at {s.end_distance:.0f} m, "
                f"beyond the end of the path at {path.total:.0f} m")
        if abs((s.end_distance - s.start_distance) - piece_m) > tolerance / 5:
            problems.append(
                f"cell {s.linear_index}: segment is {s.end_distance - s.start_distance:.0f} m long "
                f"by its distances but its geometry is {piece_m:.0f} m long")
        if not any(s.start_distance - tolerance / 5 <= w <= s.end_distance + tolerance / 5 for w in where):
            problems.append(
                f"cell {s.linear_index}: [{s.start_distance:.0f}, {s.end_distance:.0f}] does not contain "
                f"the middle of its own geometry, which is {[round(w) for w in where]} m along the path")
        # Where the path passes through that point more than once,
        # give the library the benefit of the doubt.
        centre = (s.start_distance + s.end_distance) / 2
        mids.append(min(where, key=lambda w: abs(w - centre)) if where else float('nan'))

    # listed in path order
    for (a, ma), (b, mb) in zip(zip(segments, mids), zip(segments[1:], mids[1:])):
        if mb < ma - tolerance / 5:
            problems.append(
                f"not in path order: cell {a.linear_index} (really {ma:.0f} m along) is listed "
                f"before cell {b.linear_index} (really {mb:.0f} m along)")
            break

    # lengths add up to the length of the path inside the model
    inside = dataset.ems.geometry.intersection(line)
    pieces = list(inside.geoms) if hasattr(inside, 'geoms') else [inside]
    expected = sum(metres(p.coords) for p in pieces if p.geom_type == 'LineString')
    got = sum(s.end_distance - s.start_distance for s in segments)
    print(f"    path inside the model {expected:.0f} m, segments add up to {got:.0f} m")
    if abs(expected - got) > tolerance:
        problems.append(f"segment lengths add up to {got:.0f} m, expected {expected:.0f} m")

    shown = problems[:6]
    for problem in shown:
        print(f"    VIOLATION: {problem}")
    if len(problems) > len(shown):
        print(f"    ... and {len(problems) - len(shown)} more")
    return problems


def main():
    dataset = make_grid()
    failures = []

    # A closed triangular circuit, entirely inside the model.
    failures += check(
        "closed circuit", dataset,
        shapely.LineString([(0.5, -2.4), (4.4, -2.6), (4.6, 1.5), (0.5, -2.4)]))

    # Control: the same circuit stopped just short of closing.  Holds before and after a repair.
    control = check(
        "control, open circuit", dataset,
        shapely.LineString([(0.5, -2.4), (4.4, -2.6), (4.6, 1.5), (0.7, -2.3)]))
    if control:
        print("control case failed: the checker and the library disagree on a plain path")
        failures += control

    if failures:
        print(f"\nC18 VIOLATED: {len(failures)} problem(s)")
        return 1
    print("\nC18 holds for closed paths")
    return 0


if __name__ == '__main__':
    sys.exit(main())
