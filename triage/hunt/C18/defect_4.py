"""
C18 defect 4: Transect.prepare_data_array_for_transect() accepts a variable that
is NOT defined on the cells (SHOC velocity on the left cell edges, UGRID variable
on mesh edges) and picks from it with the *cell* linear indexes of the segments.
The two kinds of grid are numbered differently, so each segment silently gets
the value of an edge that belongs to some other cell.  (plot_on_figure() and
animate_on_figure() go through the same method.)

The property holds if, for every segment, the prepared values are the values of
that segment's cell -- for an edge variable, of one of the cell's own edges --
or if the library refuses the variable with an exception.

Run from the worktree root:
    PYTHONPATH=src:. python seed_out/defect_4.py
Exit status 1 = property violated, 0 = property holds.
"""
import sys
import types


class _Units:
    def __init__(self, units=None):
        self.units = units

    def formatted(self):
        return str(self.units)


# emsarray.transect imports cfunits, which needs a system library that is absent
sys.modules.setdefault('cfunits', types.SimpleNamespace(Units=_Units))

import numpy  # noqa: E402
import shapely  # noqa: E402

import emsarray  # noqa: E402,F401
from emsarray.transect import Transect  # noqa: E402

# Dataset builders from the library's own test suite (found relative to the cwd)
sys.path.insert(0, '.')
from tests.conventions import test_shoc_standard, test_ugrid  # noqa: E402


def number_the_values(dataset, name):
    """Give every element of the variable a distinct value so it can be traced."""
    variable = dataset[name]
    values = numpy.arange(variable.size, dtype=float).reshape(variable.shape)
    dataset[name] = variable.copy(data=values)


def run(label, dataset, line, depth_name, variable_name, own_values):
    """own_values(segment) -> list of arrays (..., depth) acceptable for that segment."""
    print(f"[{label}] variable {variable_name!r} {dataset[variable_name].dims}")
    transect = Transect(dataset, line, depth=depth_name)
    segments = transect.segments
    print(f"    {len(segments)} segments, cells {[int(s.linear_index) for s in segments]}")
    try:
        prepared = transect.prepare_data_array_for_transect(dataset[variable_name])
    except Exception as err:
        print(f"    refused with {type(err).__name__}: {err}")
        return []

    problems = []
    depth_dimension = dataset[depth_name].dims[0]
    if prepared.dims[-2] != depth_dimension or prepared.shape[-1] != len(segments):
        problems.append(f"prepared data has dimensions {prepared.dims} {prepared.shape}")
        return problems
    for position, segment in enumerate(segments):
        got = prepared.isel({prepared.dims[-1]: position}).values
        acceptable = own_values(segment)
        if not any(numpy.array_equal(got, want) for want in acceptable):
            problems.append(
                f"segment {position} in cell {segment.index}: prepared values "
                f"{got.ravel()[:3]}... are not those of the cell, expected one of "
                f"{[w.ravel()[:3].tolist() for w in acceptable]}...")
    for problem in problems[:4]:
        print(f"    VIOLATION: {problem}")
    if len(problems) > 4:
        print(f"    ... and {len(problems) - 4} more of {len(segments)} segments")
    if not problems:
        print("    every segment got values of its own cell")
    return problems


def main():
    failures = []

    # ---- SHOC standard (Arakawa C grid): temp on faces, u1 on left edges
    shoc = test_shoc_standard.make_dataset(j_size=5, i_size=6)
    shoc['z_centre'].attrs['positive'] = 'up'
    for name in ('temp', 'u1'):
        number_the_values(shoc, name)
    bounds = shoc.ems.bounds
    line = shapely.LineString([
        (bounds[0] + 0.1 * (bounds[2] - bounds[0]), bounds[1] + 0.45 * (bounds[3] - bounds[1])),
        (bounds[0] + 0.9 * (bounds[2] - bounds[0]), bounds[1] + 0.55 * (bounds[3] - bounds[1])),
    ])

    def shoc_face(segment):
        kind, j, i = segment.index
        return [shoc['temp'].isel(j_centre=j, i_centre=i).values]

    def shoc_left(segment):
        # The left and right edges of cell (j, i) are u1[j, i] and u1[j, i + 1]
        kind, j, i = segment.index
        return [
            shoc['u1'].isel(j_left=j, i_left=i).values,
            shoc['u1'].isel(j_left=j, i_left=i + 1).values,
        ]

    control = run("SHOC, control", shoc, line, 'z_centre', 'temp', shoc_face)
    if control:
        print("control case failed")
    failures += control
    failures += run("SHOC, edge variable", shoc, line, 'z_centre', 'u1', shoc_left)

    # ---- UGRID: temp on faces, u1 on edges
    ugrid = test_ugrid.make_dataset(width=3, height=4)
    ugrid['Mesh2_layers'].attrs['positive'] = 'up'
    for name in ('temp', 'u1'):
        number_the_values(ugrid, name)
    bounds = ugrid.ems.bounds
    line = shapely.LineString([
        (bounds[0] + 0.1 * (bounds[2] - bounds[0]), bounds[1] + 0.15 * (bounds[3] - bounds[1])),
        (bounds[0] + 0.8 * (bounds[2] - bounds[0]), bounds[1] + 0.9 * (bounds[3] - bounds[1])),
    ])
    topology = ugrid.ems.topology
    face_node = topology.face_node_array
    edge_node = topology.edge_node_array

    def ugrid_face(segment):
        kind, face = segment.index
        return [ugrid['temp'].isel(nMesh2_face=face).values]

    def ugrid_edges(segment):
        kind, face = segment.index
        nodes = set(face_node[face].compressed().tolist())
        edges = [e for e, pair in enumerate(edge_node) if set(pair.tolist()) <= nodes]
        return [ugrid['u1'].isel(nMesh2_edge=e).values for e in edges]

    control = run("UGRID, control", ugrid, line, 'Mesh2_layers', 'temp', ugrid_face)
    if control:
        print("control case failed")
    failures += control
    failures += run("UGRID, edge variable", ugrid, line, 'Mesh2_layers', 'u1', ugrid_edges)

    if failures:
        print(f"\nC18 VIOLATED: {len(failures)} segment(s) were given values of other cells")
        return 1
    print("\nC18 holds: variables that are not on cells are refused or paired with their own cell")
    return 0


if __name__ == '__main__':
    sys.exit(main())
