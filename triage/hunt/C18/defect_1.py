"""
C18 defect 1: a path that runs along cell edges is counted once for EACH of the
two cells sharing the edge, so the segments overlap and their lengths add up to
twice the length of the path inside the model.

Run from the worktree root:
    PYTHONPATH=src:. python seed_out/defect_1.py
Exit status 1 = property violated, 0 = property holds.
"""
import sys
import types


class _Units:
    def __init__(self, units=None):
        self.units = units

    def formatted(self):
        return str(self.units)


# emsarray.transect imports cfunits, which needs a system library that is absent
sys.modules.setdefault('cfunits', types.SimpleNamespace(Units=_Units))

import numpy  # noqa: E402
import pyproj  # noqa: E402
import shapely  # noqa: E402
import xarray  # noqa: E402

import emsarray  # noqa: E402,F401
from emsarray.transect import Transect  # noqa: E402

GEOD = pyproj.Geod(ellps='WGS84')


def make_grid(nx=6, ny=6, nk=3, x0=0.0, y0=-3.0):
    """A regular 1 degree lon/lat grid, cell edges on whole degrees."""
    lon = x0 + numpy.arange(nx) + 0.5
    lat = y0 + numpy.arange(ny) + 0.5
    depth = 5.0 + 10.0 * numpy.arange(nk)
    values = numpy.arange(nk * ny * nx, dtype=float).reshape(nk, ny, nx)
    return xarray.Dataset(
        data_vars={'temp': (('k', 'lat', 'lon'), values)},
        coords={
            'lon': ('lon', lon, {'standard_name': 'longitude', 'units': 'degrees_east'}),
            'lat': ('lat', lat, {'standard_name': 'latitude', 'units': 'degrees_north'}),
            'depth': ('k', depth, {'standard_name': 'depth', 'positive': 'down', 'units': 'm'}),
        },
    )


def metres(geometry):
    """Geodesic length of a LineString in lon/lat (independent of the library)."""
    xs, ys = zip(*geometry.coords)
    return GEOD.line_length(xs, ys)


def check(label, dataset, line):
    problems = []
    transect = Transect(dataset, line)
    segments = transect.segments

    inside = dataset.ems.geometry.intersection(line)
    pieces = list(inside.geoms) if hasattr(inside, 'geoms') else [inside]
    expected_m = sum(metres(piece) for piece in pieces if piece.geom_type == 'LineString')
    expected_deg = inside.length

    got_m = sum(s.end_distance - s.start_distance for s in segments)
    got_deg = sum(s.intersection.length for s in segments)
    tolerance = 0.03 * expected_m + 3000.0

    print(f"[{label}] path {line.wkt}")
    print(f"    {len(segments)} segments")
    for s in segments:
        print(f"      cell {s.linear_index!s:>3} {s.index!s:<28} "
              f"{s.start_distance:10.0f} .. {s.end_distance:10.0f} m   {s.intersection.wkt}")
    print(f"    length of the path inside the model : {expected_m:10.0f} m ({expected_deg:.6f} degrees)")
    print(f"    sum of the segment lengths          : {got_m:10.0f} m ({got_deg:.6f} degrees)")

    if abs(got_m - expected_m) > tolerance:
        problems.append(
            f"segment lengths add up to {got_m:.0f} m, "
            f"the path inside the model is {expected_m:.0f} m long")
    if abs(got_deg - expected_deg) > 1e-6:
        problems.append(
            f"segment geometries add up to {got_deg:.6f} degrees, "
            f"the path inside the model is {expected_deg:.6f} degrees long")
    for before, after in zip(segments[:-1], segments[1:]):
        if after.start_distance < before.end_distance - tolerance / 10:
            problems.append(
                f"segments of cells {before.linear_index} and {after.linear_index} overlap: "
                f"[{before.start_distance:.0f}, {before.end_distance:.0f}] and "
                f"[{after.start_distance:.0f}, {after.end_distance:.0f}]")
            break

    # The values handed to the plot must be one column per stretch of path
    prepared = transect.prepare_data_array_for_transect(dataset['temp'])
    n_distinct = len({(round(s.start_distance), round(s.end_distance)) for s in segments})
    if prepared.shape[-1] != n_distinct:
        problems.append(
            f"{prepared.shape[-1]} columns of values were prepared "
            f"for {n_distinct} distinct stretches of path")

    for problem in problems:
        print(f"    VIOLATION: {problem}")
    return problems


def main():
    dataset = make_grid()
    failures = []

    # (a) A straight path along the row of cell edges at latitude -1.
    failures += check(
        "along a row of edges", dataset,
        shapely.LineString([(0.5, -1.0), (5.5, -1.0)]))

    # (b) A path that cuts across cells, then follows a column of edges, then cuts across again.
    failures += check(
        "partly along edges", dataset,
        shapely.LineString([(0.4, -2.6), (3.0, -1.5), (3.0, 1.5), (5.6, 2.3)]))

    # (c) Control: the same shape moved off the edges. Must hold before and after any repair.
    control = check(
        "control, off the edges", dataset,
        shapely.LineString([(0.4, -2.6), (3.1, -1.5), (3.1, 1.5), (5.6, 2.3)]))
    if control:
        print("control case failed: the checker and the library disagree on a plain path")
        failures += control

    if failures:
        print(f"\nC18 VIOLATED: {len(failures)} problem(s)")
        return 1
    print("\nC18 holds for paths along cell edges")
    return 0


if __name__ == '__main__':
    sys.exit(main())
