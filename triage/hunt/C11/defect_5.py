"""
C11 defect 5: a dataset with the UGRID Conventions marker AND a 2-D mesh topology
variable is not handled by UGrid when another mesh topology variable (a 1-D network,
as written by e.g. D-Flow FM: "mesh1d" next to "mesh2d") comes first in the dataset.

Only the FIRST variable with cf_role="mesh_topology" is looked at.  The outcome
therefore depends on the variable order (the two datasets below are identical() for
xarray) and, because of the 1-D node coordinates, the dataset is silently bound to
CFGrid1D instead.
"""
import sys

import numpy
import xarray

import emsarray  # noqa: F401
from emsarray.conventions import UGrid, get_dataset_convention
from tests.conventions.test_ugrid import make_dataset as make_ugrid_dataset


def main():
    base = make_ugrid_dataset(width=3)
    assert get_dataset_convention(base) is UGrid

    mesh1d = xarray.DataArray(numpy.int32(0), attrs={
        'cf_role': 'mesh_topology',
        'topology_dimension': 1,
        'node_coordinates': 'Mesh2_node_x Mesh2_node_y',
        'edge_node_connectivity': 'Mesh2_edge_nodes',
    })

    # 2-D mesh first, 1-D network last
    network_last = base.assign(mesh1d=mesh1d)
    # 1-D network first, 2-D mesh second. Same content.
    network_first = xarray.Dataset({'mesh1d': mesh1d}, attrs=base.attrs)
    network_first = network_first.assign({name: base[name] for name in base.data_vars})
    network_first = network_first.assign_coords(base.coords)
    assert network_first.identical(network_last)

    failed = False
    for label, dataset in [('2-D mesh first', network_last), ('1-D network first', network_first)]:
        convention_class = get_dataset_convention(dataset)
        name = None if convention_class is None else convention_class.__name__
        meshes = [
            (str(n), int(v.attrs['topology_dimension'])) for n, v in dataset.data_vars.items()
            if v.attrs.get('cf_role') == 'mesh_topology']
        print(f"{label}: Conventions={dataset.attrs['Conventions']!r} meshes={meshes} -> {name}")
        if convention_class is not UGrid:
            failed = True
            print("  VIOLATION: UGRID marker and a 2-D mesh variable are present, expected UGrid")
            continue
        mesh_variable = dataset.ems.topology.mesh_variable
        if mesh_variable.attrs.get('topology_dimension') != 2:
            failed = True
            print(f"  VIOLATION: UGrid bound, but it uses the mesh variable {mesh_variable.name!r} "
                  f"with topology_dimension={mesh_variable.attrs.get('topology_dimension')}")

    return 1 if failed else 0


if __name__ == '__main__':
    sys.exit(main())
