"""
C11 defect 2: a plain CF grid with ONE-dimensional latitude / longitude coordinates is
bound to CFGrid2D when its (CF-legal) bounds variables carry a `units` attribute and
happen to be stored before the coordinates - which is what
`xarray.Dataset(data_vars=..., coords=...)` always produces.

The bounds variable lat_bnds(lat, nv) is then taken to be "the latitude", it has two
dimensions, so CFGrid1D rejects the dataset and CFGrid2D claims it.
The same content with the coordinates stored first is CFGrid1D.
"""
import sys

import numpy
import xarray

import emsarray  # noqa: F401
from emsarray.conventions import CFGrid1D, get_dataset_convention


def make_dataset():
    lat = numpy.array([-10., -9., -8.])
    lon = numpy.array([100., 101., 102., 103.])

    def bounds(values):
        return numpy.stack([values - .5, values + .5], axis=-1)

    return xarray.Dataset(
        data_vars={
            # CF 7.1: a boundary variable may carry units, they must agree with the parent
            'lat_bnds': (('lat', 'nv'), bounds(lat), {'units': 'degrees_north'}),
            'lon_bnds': (('lon', 'nv'), bounds(lon), {'units': 'degrees_east'}),
            'temp': (('lat', 'lon'), numpy.zeros((3, 4))),
        },
        coords={
            'lat': ('lat', lat, {
                'units': 'degrees_north', 'standard_name': 'latitude', 'bounds': 'lat_bnds'}),
            'lon': ('lon', lon, {
                'units': 'degrees_east', 'standard_name': 'longitude', 'bounds': 'lon_bnds'}),
        },
        attrs={'Conventions': 'CF-1.8'},
    )


def main():
    failed = False

    dataset = make_dataset()
    # Same content, coordinates inserted first
    reordered = xarray.Dataset(coords=dataset.coords, attrs=dataset.attrs).assign(
        {name: dataset[name] for name in dataset.data_vars})
    assert dataset.identical(reordered)

    for label, ds in [('data_vars first', dataset), ('coords first', reordered)]:
        convention_class = get_dataset_convention(ds)
        name = None if convention_class is None else convention_class.__name__
        print(f"{label}: variables {list(ds.variables)} -> {name}")
        if convention_class is not CFGrid1D:
            failed = True
            print("  VIOLATION: lat(lat) and lon(lon) are one dimensional, expected CFGrid1D")
            if convention_class is not None:
                topology = ds.ems.topology
                print(f"  bound convention {type(ds.ems).__name__} uses latitude={topology.latitude_name!r} "
                      f"dims {topology.latitude.dims}, longitude={topology.longitude_name!r} "
                      f"dims {topology.longitude.dims}")

    if failed:
        return 1
    print("OK")
    return 0


if __name__ == '__main__':
    sys.exit(main())
