"""
C11 defect 7 (minor, internal API): State.bind_convention does not refuse a second
attachment although its docstring promises "If the Dataset is already bound, an error
is raised".  Only Convention.bind() checks.  After a second State.bind_convention the
dataset has two different "bound" conventions: `dataset.ems` (cached by xarray's
accessor machinery) keeps returning the first, the State reports the second.
"""
import sys

import emsarray  # noqa: F401
from emsarray.conventions import CFGrid1D
from emsarray.state import State
from tests.conventions.test_cfgrid1d import make_dataset


def main():
    dataset = make_dataset(width=4, height=3)
    first = dataset.ems          # autodetect + bind
    state = State.get(dataset)
    assert state.is_bound() and state.convention is first

    second = CFGrid1D(dataset)
    try:
        second.bind()
    except ValueError:
        pass
    else:
        print("VIOLATION: Convention.bind() accepted a second attachment")
        return 1

    try:
        state.bind_convention(second)
    except Exception as err:
        print(f"OK: second attachment refused: {type(err).__name__}: {err}")
        return 0

    print("VIOLATION: State.bind_convention() silently attached a second convention")
    print("  dataset.ems is first             :", dataset.ems is first)
    print("  State.get(dataset).convention is :", "first" if State.get(dataset).convention is first else "second")
    print("  -> dataset.ems and the dataset state disagree about the bound convention:",
          dataset.ems is not State.get(dataset).convention)
    return 1


if __name__ == '__main__':
    sys.exit(main())
