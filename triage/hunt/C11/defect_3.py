"""
C11 defect 3: CFGrid1D claims datasets whose latitude and longitude share ONE dimension.

The property says UGRID is chosen "only with its Conventions marker and a 2-D mesh
variable" and that "a dataset nothing matches is refused".  A UGRID near-miss (the
Conventions attribute removed, or the cf_role / topology_dimension attribute removed,
or the mesh variable removed) is not refused: its node coordinates
Mesh2_node_x(nMesh2_node) / Mesh2_node_y(nMesh2_node) make CFGrid1D match, and
dataset.ems becomes a CFGrid1D "axis aligned grid" of nMesh2_node x nMesh2_node cells.
The same happens for any list-of-points dataset lat(station), lon(station).
"""
import sys

import numpy
import xarray

import emsarray  # noqa: F401
from emsarray.conventions import UGrid, get_dataset_convention
from tests.conventions.test_ugrid import make_dataset as make_ugrid_dataset


def near_misses():
    dataset = make_ugrid_dataset(width=3)
    assert get_dataset_convention(dataset) is UGrid

    no_marker = dataset.copy()
    del no_marker.attrs['Conventions']
    yield "UGRID dataset without the Conventions marker", no_marker

    no_role = dataset.copy()
    no_role['Mesh2'] = no_role['Mesh2'].copy()
    del no_role['Mesh2'].attrs['cf_role']
    yield "UGRID dataset whose mesh variable lost cf_role", no_role

    one_d = dataset.copy()
    one_d['Mesh2'] = one_d['Mesh2'].copy()
    one_d['Mesh2'].attrs['topology_dimension'] = 1
    yield "UGRID dataset whose mesh is 1-D", one_d

    yield "UGRID dataset without mesh variable", dataset.drop_vars('Mesh2')

    stations = xarray.Dataset(
        data_vars={'temp': (('time', 'station'), numpy.zeros((2, 5)))},
        coords={
            'lat': ('station', numpy.linspace(-10, -9, 5), {'units': 'degrees_north'}),
            'lon': ('station', numpy.linspace(100, 101, 5), {'units': 'degrees_east'}),
        })
    yield "station list lat(station), lon(station)", stations


def main():
    failed = False
    for label, dataset in near_misses():
        convention_class = get_dataset_convention(dataset)
        if convention_class is None:
            try:
                dataset.ems
            except RuntimeError:
                print(f"ok       : {label}: refused")
                continue
            failed = True
            print(f"VIOLATION: {label}: get_dataset_convention refuses but dataset.ems binds")
            continue

        convention = dataset.ems
        topology = convention.topology
        lat_dims = topology.latitude.dims
        lon_dims = topology.longitude.dims
        if lat_dims == lon_dims:
            failed = True
            print(
                f"VIOLATION: {label}: not refused, bound to {type(convention).__name__} with "
                f"latitude {topology.latitude_name!r}{lat_dims} and longitude {topology.longitude_name!r}{lon_dims} "
                f"on the same dimension; grid shape {topology.shape}, "
                f"but the dataset has only {dataset.sizes[lat_dims[0]]} positions")
        else:
            print(f"ok       : {label}: {type(convention).__name__}")

    return 1 if failed else 0


if __name__ == '__main__':
    sys.exit(main())
