"""
C11 defect 4: CFGrid2D claims datasets whose 2-D latitude and longitude live on
DIFFERENT dimension pairs.

A SHOC standard near-miss (one of the eight coordinate variables removed, here x_grid)
is no longer a ShocStandard dataset - correct - but it is then bound to CFGrid2D with
latitude = y_grid(j_node, i_node) and longitude = x_centre(j_centre, i_centre):
coordinates of two different grids glued together.  The resulting convention cannot
work (shapes 5x6 and 4x5 do not even match).
"""
import sys

import emsarray  # noqa: F401
from emsarray.conventions import ShocStandard, get_dataset_convention
from tests.conventions.test_shoc_standard import make_dataset as make_shoc_dataset


def main():
    failed = False
    full = make_shoc_dataset(j_size=4, i_size=5)
    assert get_dataset_convention(full) is ShocStandard

    for removed in ['x_grid', 'y_grid', 'x_centre', 'y_centre', 'x_left', 'y_left', 'x_back', 'y_back']:
        dataset = full.drop_vars(removed)
        convention_class = get_dataset_convention(dataset)
        if convention_class is None:
            print(f"ok       : without {removed}: refused")
            continue
        convention = dataset.ems
        topology = convention.topology
        lat, lon = topology.latitude, topology.longitude
        if lat.dims != lon.dims:
            failed = True
            print(
                f"VIOLATION: without {removed}: bound to {type(convention).__name__} with latitude "
                f"{topology.latitude_name}{lat.dims} shape {lat.shape} but longitude "
                f"{topology.longitude_name}{lon.dims} shape {lon.shape}")
            try:
                convention.polygons
            except Exception as err:
                print(f"           and the bound convention is unusable: {type(err).__name__}: {err}")
        else:
            print(f"ok       : without {removed}: {type(convention).__name__} on {lat.dims}")

    return 1 if failed else 0


if __name__ == '__main__':
    sys.exit(main())
