"""
C10 defect 2: a supplied face_edge table is readable when missing entries are NaN
in memory, but raises NoEdgeDimensionException once the same dataset has been
written to a netCDF file with an integer _FillValue and opened again.

The mesh supplies face_node, face_edge and face_face, and neither declares an edge
dimension nor has edge_node / edge_face tables to imply one.
has_valid_face_edge_connectivity only inspects `edge_count` when the variable has a
`_FillValue` *encoding*, and `edge_count` raises when there is no edge dimension.
"""
import pathlib
import sys
import tempfile
import traceback

import numpy
import xarray

import emsarray  # noqa: F401

nodes = numpy.array([[0, 0], [1, 0], [2, 0], [0, 1], [1, 1], [2, 1], [1, 2]], dtype=float)
faces = [[0, 1, 4, 3], [1, 2, 5, 4], [3, 4, 6]]
nan = numpy.nan
face_node = numpy.array([[0, 1, 4, 3], [1, 2, 5, 4], [3, 4, 6, nan]])
# edges: 0:(0,1) 1:(1,4) 2:(4,3) 3:(3,0) 4:(1,2) 5:(2,5) 6:(5,4) 7:(4,6) 8:(6,3)
face_edge = numpy.array([[0, 1, 2, 3], [4, 5, 6, 1], [2, 7, 8, nan]])
face_face = numpy.array([[nan, 1, 2, nan], [nan, nan, nan, 0], [0, nan, nan, nan]])


def make_dataset() -> xarray.Dataset:
    return xarray.Dataset({
        'mesh': xarray.DataArray(numpy.int32(0), attrs={
            'cf_role': 'mesh_topology', 'topology_dimension': 2,
            'node_coordinates': 'node_x node_y',
            'face_node_connectivity': 'face_node',
            'face_edge_connectivity': 'face_edge',
            'face_face_connectivity': 'face_face',
            'face_dimension': 'nface',
        }),
        'node_x': (['nnode'], nodes[:, 0]),
        'node_y': (['nnode'], nodes[:, 1]),
        'face_node': (['nface', 'nmax'], face_node, {'start_index': 0}),
        'face_edge': (['nface', 'nmax'], face_edge, {'start_index': 0}),
        'face_face': (['nface', 'nmax'], face_face, {'start_index': 0}),
    }, attrs={'Conventions': 'UGRID-1.0'})


def read_face_edge(ds: xarray.Dataset):
    return numpy.ma.filled(ds.ems.topology.face_edge_array.astype(int), -1)


expected = numpy.nan_to_num(face_edge, nan=-1).astype(int)
results = {}

in_memory = make_dataset()
try:
    results['NaN in memory'] = read_face_edge(in_memory)
except Exception:
    results['NaN in memory'] = traceback.format_exc(limit=-3)

with tempfile.TemporaryDirectory() as tmp:
    path = pathlib.Path(tmp) / 'mesh.nc'
    to_write = make_dataset()
    for name in ['face_node', 'face_edge', 'face_face']:
        to_write[name].encoding.update({'dtype': 'int32', '_FillValue': -999})
    to_write.to_netcdf(path)
    with xarray.open_dataset(path) as from_file:
        from_file.load()
    with xarray.open_dataset(path, mask_and_scale=False) as raw_file:
        raw_file.load()
    try:
        results['same file opened with mask_and_scale=False (integer, _FillValue attribute)'] = read_face_edge(raw_file)
    except Exception:
        results['same file opened with mask_and_scale=False (integer, _FillValue attribute)'] = traceback.format_exc(limit=-3)
    try:
        results['int32 with _FillValue=-999 in a file'] = read_face_edge(from_file)
    except Exception:
        results['int32 with _FillValue=-999 in a file'] = traceback.format_exc(limit=-3)

failed = False
for label, result in results.items():
    ok = isinstance(result, numpy.ndarray) and numpy.array_equal(result, expected)
    print(f"{label}: face_edge_array {'equals the supplied table' if ok else 'FAILED'}")
    if not ok:
        failed = True
        print("   ", str(result).strip().replace("\n", "\n    "))

if failed:
    print("PROPERTY VIOLATED: the same supplied face_edge table is usable or not depending on how missing entries are encoded")
    sys.exit(1)
print("property holds")
sys.exit(0)
