"""
C10 defect 4: one-based connectivity is normalised to a *floating point* array
(so polygons cannot be built) when

  (a) the `start_index` attribute is stored as a floating point 1.0
      (accepted by `_get_start_index` because `1.0 in {0, 1}` is true, and returned unchanged), or
  (b) the connectivity variable is an unsigned 64 bit integer (NC_UINT64) variable
      (`masked uint64 array - 1` is promoted to float64 by numpy).

The integer branches of `_to_index_array` never cast to the `sensible_dtype` (int32).
The zero-based spelling of exactly the same mesh works in both cases.
"""
import sys

import numpy
import xarray

import emsarray  # noqa: F401

nodes = numpy.array([[0, 0], [1, 0], [2, 0], [0, 1], [1, 1], [2, 1]], dtype=float)
faces = numpy.array([[0, 1, 4, 3], [1, 2, 5, 4]])  # no fill needed
edges = numpy.array([[0, 1], [1, 4], [4, 3], [3, 0], [1, 2], [2, 5], [5, 4]])


def make_dataset(start_index, dtype) -> xarray.Dataset:
    offset = int(start_index)
    return xarray.Dataset({
        'mesh': xarray.DataArray(numpy.int32(0), attrs={
            'cf_role': 'mesh_topology', 'topology_dimension': 2,
            'node_coordinates': 'node_x node_y',
            'face_node_connectivity': 'face_node',
            'edge_node_connectivity': 'edge_node',
            'face_dimension': 'nface', 'edge_dimension': 'nedge',
        }),
        'node_x': (['nnode'], nodes[:, 0]),
        'node_y': (['nnode'], nodes[:, 1]),
        'face_node': (['nface', 'nmax'], (faces + offset).astype(dtype), {'start_index': start_index}),
        'edge_node': (['nedge', 'Two'], (edges + offset).astype(dtype), {'start_index': start_index}),
    }, attrs={'Conventions': 'UGRID-1.0'})


def observe(ds: xarray.Dataset):
    topology = ds.ems.topology
    face_node = topology.face_node_array
    problems = []
    if not issubclass(face_node.dtype.type, numpy.integer):
        problems.append(f"face_node_array has dtype {face_node.dtype}, not an integer type")
    if not numpy.array_equal(numpy.ma.filled(face_node.astype(float), -1), faces):
        problems.append("face_node_array values differ")
    try:
        polygons = ds.ems.polygons
        for polygon, face in zip(polygons, faces):
            if not numpy.allclose(numpy.array(polygon.exterior.coords)[:-1], nodes[face]):
                problems.append("polygon differs")
    except Exception as exc:
        problems.append(f"polygons raised {type(exc).__name__}: {exc}")
    try:
        face_edge = numpy.ma.filled(topology.face_edge_array.astype(float), -1)
        expected = numpy.array([[0, 1, 2, 3], [4, 5, 6, 1]])
        if not numpy.array_equal(face_edge, expected):
            problems.append(f"face_edge_array is {face_edge.tolist()}")
    except Exception as exc:
        problems.append(f"face_edge_array raised {type(exc).__name__}: {exc}")
    return problems


cases = {
    'zero based, start_index = 0 (int), int32': (0, 'int32'),
    'one based, start_index = 1 (int), int32': (1, 'int32'),
    'zero based, start_index = 0.0 (double attribute), int32': (numpy.float64(0.0), 'int32'),
    'one based, start_index = 1.0 (double attribute), int32': (numpy.float64(1.0), 'int32'),
    'zero based, start_index = 0, uint64': (0, 'uint64'),
    'one based, start_index = 1, uint64': (1, 'uint64'),
}
failed = False
for label, (start_index, dtype) in cases.items():
    problems = observe(make_dataset(start_index, dtype))
    print(f"{label}: {'ok' if not problems else 'FAILED'}")
    for problem in problems:
        failed = True
        print("    " + problem)

if failed:
    print("PROPERTY VIOLATED: the one-based encoding of a mesh does not give the same (integer) topology as the zero-based one")
    sys.exit(1)
print("property holds")
sys.exit(0)
