"""
C10 defect 3: the node / face coordinate variables are not found when the
`node_coordinates` / `face_coordinates` attribute has trailing white space
(common for strings written by Fortran programs) or lists more than two names
(UGRID allows extra coordinates such as elevation after x and y).

`_split_coord` uses `attr.split(None, 1)`, so everything after the first name,
including trailing white space and further names, becomes the "y" name.
Node coordinates then raise KeyError; face coordinates are silently ignored.
"""
import sys

import numpy
import xarray

import emsarray  # noqa: F401

nodes = numpy.array([[0, 0], [1, 0], [2, 0], [0, 1], [1, 1], [2, 1], [1, 2]], dtype=float)
faces = [[0, 1, 4, 3], [1, 2, 5, 4], [3, 4, 6]]
face_node = numpy.array([[0, 1, 4, 3], [1, 2, 5, 4], [3, 4, 6, numpy.nan]])
# Characteristic face positions that are deliberately not the centroids
face_x = numpy.array([0.4, 1.6, 1.0])
face_y = numpy.array([0.4, 0.6, 1.2])


def make_dataset(node_coordinates: str, face_coordinates: str) -> xarray.Dataset:
    return xarray.Dataset({
        'mesh': xarray.DataArray(numpy.int32(0), attrs={
            'cf_role': 'mesh_topology', 'topology_dimension': 2,
            'node_coordinates': node_coordinates,
            'face_coordinates': face_coordinates,
            'face_node_connectivity': 'face_node',
            'face_dimension': 'nface',
        }),
        'node_x': (['nnode'], nodes[:, 0]),
        'node_y': (['nnode'], nodes[:, 1]),
        'node_z': (['nnode'], numpy.zeros(len(nodes))),
        'face_x': (['nface'], face_x),
        'face_y': (['nface'], face_y),
        'face_node': (['nface', 'nmax'], face_node, {'start_index': 0}),
    }, attrs={'Conventions': 'UGRID-1.0'})


def observe(ds: xarray.Dataset):
    polygons = ds.ems.polygons
    coords = [numpy.array(p.exterior.coords)[:-1].tolist() for p in polygons]
    centres = numpy.asarray(ds.ems.face_centres).tolist()
    return coords, centres


reference = observe(make_dataset('node_x node_y', 'face_x face_y'))
cases = {
    'trailing space in node_coordinates': ('node_x node_y ', 'face_x face_y'),
    'third (elevation) name in node_coordinates': ('node_x node_y node_z', 'face_x face_y'),
    'trailing space in face_coordinates': ('node_x node_y', 'face_x face_y '),
}
failed = False
for label, (node_coordinates, face_coordinates) in cases.items():
    try:
        got = observe(make_dataset(node_coordinates, face_coordinates))
    except Exception as exc:
        failed = True
        print(f"{label}: RAISED {type(exc).__name__}: {exc}")
        continue
    if got[0] != reference[0]:
        failed = True
        print(f"{label}: polygons differ from the reference mesh")
    elif got[1] != reference[1]:
        failed = True
        print(f"{label}: supplied face coordinates were silently ignored")
        print("    face_centres:", got[1])
        print("    expected    :", reference[1])
    else:
        print(f"{label}: ok")

if failed:
    print("PROPERTY VIOLATED: coordinate variables named by the mesh attributes are not found / not used as given")
    sys.exit(1)
print("property holds")
sys.exit(0)
