"""
C10 defect 6: the "_FillValue inside the index range" test for a supplied
face_edge table is off by one.  A fill value equal to the number of edges
(zero based) or number of edges + 1 (one based) is NOT a valid edge index, yet
the supplied table is rejected with a ConventionViolationWarning and replaced
by a derived one.  Two files that differ only in the fill value then give a
different face_edge_array (the file lists each face's edges anticlockwise but
starting from the second node pair, which the derived table does not reproduce).
"""
import pathlib
import sys
import tempfile
import warnings

import numpy
import xarray

import emsarray  # noqa: F401

nodes = numpy.array([[0, 0], [1, 0], [2, 0], [0, 1], [1, 1], [2, 1], [1, 2]], dtype=float)
nan = numpy.nan
face_node = numpy.array([[0, 1, 4, 3], [1, 2, 5, 4], [3, 4, 6, nan]])
edges = numpy.array([[0, 1], [1, 4], [4, 3], [3, 0], [1, 2], [2, 5], [5, 4], [4, 6], [6, 3]])
edge_count = len(edges)
# Each row lists the edges of the face anticlockwise, starting with the edge from node 1 to node 2
face_edge = numpy.array([[1, 2, 3, 0], [5, 6, 1, 4], [7, 8, 2, nan]])


def read(start_index: int, fill_value: int):
    ds = xarray.Dataset({
        'mesh': xarray.DataArray(numpy.int32(0), attrs={
            'cf_role': 'mesh_topology', 'topology_dimension': 2,
            'node_coordinates': 'node_x node_y',
            'face_node_connectivity': 'face_node',
            'face_edge_connectivity': 'face_edge',
            'edge_node_connectivity': 'edge_node',
            'face_dimension': 'nface', 'edge_dimension': 'nedge',
        }),
        'node_x': (['nnode'], nodes[:, 0]),
        'node_y': (['nnode'], nodes[:, 1]),
        'face_node': (['nface', 'nmax'], face_node + start_index, {'start_index': start_index}),
        'face_edge': (['nface', 'nmax'], face_edge + start_index, {'start_index': start_index}),
        'edge_node': (['nedge', 'Two'], (edges + start_index).astype(numpy.int32), {'start_index': start_index}),
    }, attrs={'Conventions': 'UGRID-1.0'})
    for name in ['face_node', 'face_edge']:
        ds[name].encoding.update({'dtype': 'int32', '_FillValue': fill_value})
    with tempfile.TemporaryDirectory() as tmp:
        path = pathlib.Path(tmp) / 'mesh.nc'
        ds.to_netcdf(path)
        with xarray.open_dataset(path) as opened:
            opened.load()
    with warnings.catch_warnings(record=True) as caught:
        warnings.simplefilter('always')
        topology = opened.ems.topology
        valid = topology.has_valid_face_edge_connectivity
        table = numpy.ma.filled(topology.face_edge_array.astype(int), -1)
    return valid, table, [str(w.message) for w in caught]


expected = numpy.nan_to_num(face_edge, nan=-1).astype(int)
failed = False
for start_index in (0, 1):
    largest_index = edge_count - 1 + start_index
    for fill_value in (-1, largest_index + 2, largest_index + 1):
        valid, table, messages = read(start_index, fill_value)
        ok = valid and numpy.array_equal(table, expected)
        print(
            f"start_index={start_index}, largest edge index in file={largest_index}, _FillValue={fill_value}: "
            f"{'supplied face_edge used as given' if ok else 'supplied face_edge REJECTED'}")
        if not ok:
            failed = True
            print("    face_edge_array:", table.tolist())
            print("    table in file  :", expected.tolist())
            for message in messages:
                print("    warning:", message)

if failed:
    print("PROPERTY VIOLATED: the normalised face_edge table depends on which (legitimate) fill value the file uses")
    sys.exit(1)
print("property holds")
sys.exit(0)
