"""
C10 defect 1: a dimension called 'Two' that belongs to something else makes the
library throw away the supplied edge_node / edge_face tables.

The mesh stores its edge tables on (nedge, nv).  The dataset also has an unrelated
variable time_bnds(time, Two).  Mesh2DTopology.two_dimension returns 'Two' because
it exists and has size 2, without looking at the edge tables, so both supplied edge
tables fail their dimension check, are dropped (with a warning) and are replaced by
derived tables that number the edges differently from the file.
"""
import sys
import warnings

import numpy
import xarray

import emsarray  # noqa: F401

nodes = numpy.array([[0, 0], [1, 0], [2, 0], [0, 1], [1, 1], [2, 1], [1, 2]], dtype=float)
faces = [[0, 1, 4, 3], [1, 2, 5, 4], [3, 4, 6]]
# Edges as the file numbers them (deliberately not the order the library would invent)
edges = [(4, 6), (3, 6), (3, 4), (4, 5), (2, 5), (1, 2), (1, 4), (0, 3), (0, 1)]
edge_face = []
for a, b in edges:
    owners = [i for i, f in enumerate(faces)
              if any({f[c], f[(c + 1) % len(f)]} == {a, b} for c in range(len(f)))]
    edge_face.append(owners + [numpy.nan] * (2 - len(owners)))


def make_dataset(with_unrelated_two: bool) -> xarray.Dataset:
    face_node = numpy.full((len(faces), 4), numpy.nan)
    for i, f in enumerate(faces):
        face_node[i, :len(f)] = f
    ds = xarray.Dataset({
        'mesh': xarray.DataArray(numpy.int32(0), attrs={
            'cf_role': 'mesh_topology', 'topology_dimension': 2,
            'node_coordinates': 'node_x node_y',
            'face_node_connectivity': 'face_node',
            'edge_node_connectivity': 'edge_node',
            'edge_face_connectivity': 'edge_face',
            'face_dimension': 'nface', 'edge_dimension': 'nedge',
        }),
        'node_x': (['nnode'], nodes[:, 0]),
        'node_y': (['nnode'], nodes[:, 1]),
        'face_node': (['nface', 'nmax'], face_node, {'start_index': 0}),
        'edge_node': (['nedge', 'nv'], numpy.array(edges, dtype=numpy.int32), {'start_index': 0}),
        'edge_face': (['nedge', 'nv'], numpy.array(edge_face, dtype=float), {'start_index': 0}),
        'u1': (['nedge'], numpy.arange(len(edges), dtype=float)),
    }, attrs={'Conventions': 'UGRID-1.0'})
    if with_unrelated_two:
        ds['time'] = (['time'], numpy.arange(3.0))
        ds['time_bnds'] = (['time', 'Two'], numpy.zeros((3, 2)))
    return ds


def tables(ds):
    topology = ds.ems.topology
    return (
        numpy.ma.filled(topology.edge_node_array.astype(int), -1),
        numpy.ma.filled(topology.edge_face_array.astype(int), -1),
        topology.has_valid_edge_node_connectivity,
        topology.has_valid_edge_face_connectivity,
    )


failed = False
expected_edge_node = numpy.array(edges)
expected_edge_face = numpy.nan_to_num(numpy.array(edge_face, dtype=float), nan=-1).astype(int)
for with_two in (False, True):
    with warnings.catch_warnings(record=True) as caught:
        warnings.simplefilter('always')
        edge_node, edge_face_array, valid_en, valid_ef = tables(make_dataset(with_two))
    ok = (
        valid_en and valid_ef
        and numpy.array_equal(edge_node, expected_edge_node)
        and numpy.array_equal(edge_face_array, expected_edge_face))
    print(f"unrelated 'Two' dimension present={with_two}: supplied edge tables used as given: {ok}")
    if not ok:
        failed = True
        print("  has_valid_edge_node_connectivity:", valid_en, " has_valid_edge_face_connectivity:", valid_ef)
        print("  edge_node_array from library:", edge_node.tolist())
        print("  edge_node in the file       :", expected_edge_node.tolist())
        for w in caught:
            print("  warning:", str(w.message))

if failed:
    print("PROPERTY VIOLATED: supplied edge tables are not used as given")
    sys.exit(1)
print("property holds")
sys.exit(0)
