"""
C10 defect 7: a file that holds a 1-D network mesh *and* a valid 2-D mesh (as
1D2D hydrodynamic model output does) is not read when the 1-D mesh topology
variable happens to come first: Mesh2DTopology.mesh_variable takes the first
variable with cf_role = "mesh_topology" whatever its topology_dimension, so
UGrid.check_dataset gives up, and an explicitly bound UGrid convention looks up
the 2-D tables in the attributes of the 1-D mesh.  The same 2-D mesh with the
variables in the other order is read correctly.
"""
import sys

import numpy
import xarray

import emsarray  # noqa: F401
from emsarray.conventions import get_dataset_convention
from emsarray.conventions.ugrid import UGrid

nodes = numpy.array([[0, 0], [1, 0], [2, 0], [0, 1], [1, 1], [2, 1], [1, 2]], dtype=float)
face_node = numpy.array([[0, 1, 4, 3], [1, 2, 5, 4], [3, 4, 6, numpy.nan]])

mesh2d = {
    'mesh2d': xarray.DataArray(numpy.int32(0), attrs={
        'cf_role': 'mesh_topology', 'topology_dimension': 2,
        'node_coordinates': 'node_x node_y',
        'face_node_connectivity': 'face_node',
        'face_dimension': 'nface',
    }),
    'node_x': (['nnode'], nodes[:, 0]),
    'node_y': (['nnode'], nodes[:, 1]),
    'face_node': (['nface', 'nmax'], face_node, {'start_index': 0}),
}
mesh1d = {
    'mesh1d': xarray.DataArray(numpy.int32(0), attrs={
        'cf_role': 'mesh_topology', 'topology_dimension': 1,
        'node_coordinates': 'branch_x branch_y',
        'edge_node_connectivity': 'branch_edge_nodes',
    }),
    'branch_x': (['nbranch_node'], numpy.array([3.0, 4.0, 5.0])),
    'branch_y': (['nbranch_node'], numpy.array([0.0, 0.5, 0.0])),
    'branch_edge_nodes': (['nbranch_edge', 'Two'], numpy.array([[0, 1], [1, 2]], dtype=numpy.int32)),
}


def observe(variables: dict):
    ds = xarray.Dataset(variables, attrs={'Conventions': 'CF-1.8 UGRID-1.0'})
    convention = get_dataset_convention(ds)
    if convention is not UGrid:
        return f"get_dataset_convention returned {convention!r}"
    try:
        topology = ds.ems.topology
        got = numpy.ma.filled(topology.face_node_array.astype(int), -1)
    except Exception as exc:
        return f"face_node_array raised {type(exc).__name__}: {exc}"
    if not numpy.array_equal(got, numpy.nan_to_num(face_node, nan=-1).astype(int)):
        return f"face_node_array is {got.tolist()}"
    if len(ds.ems.polygons) != 3:
        return "wrong number of polygons"
    return None


failed = False
for label, variables in {
    '2-D mesh variable first, 1-D mesh second': {**mesh2d, **mesh1d},
    '1-D mesh variable first, 2-D mesh second': {**mesh1d, **mesh2d},
}.items():
    problem = observe(variables)
    print(f"{label}: {'ok' if problem is None else 'FAILED - ' + problem}")
    failed = failed or problem is not None

# Binding the convention by hand does not help either
ds = xarray.Dataset({**mesh1d, **mesh2d}, attrs={'Conventions': 'CF-1.8 UGRID-1.0'})
try:
    UGrid(ds).topology.face_node_array
    print("explicit UGrid(dataset): ok")
except Exception as exc:
    failed = True
    print(f"explicit UGrid(dataset): FAILED - {type(exc).__name__}: {exc}")

if failed:
    print("PROPERTY VIOLATED: the topology of the 2-D mesh depends on the order of the variables in the file")
    sys.exit(1)
print("property holds")
sys.exit(0)
