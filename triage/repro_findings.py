"""
Reproductions of the genuine defects found while triaging the static rules
described in DESIGN.md section 5.  This is *documentation for the findings*,
not part of any check: no command registered in MANIFEST.json runs it, and no
verdict depends on it.  Each block prints what the real code in /repo does for
one concrete input.

    cd /repo && /venv/bin/python /verif/triage/repro_findings.py
"""
import os
import sys
import tempfile
import traceback
import warnings

warnings.simplefilter('ignore')
sys.path.insert(0, '/repo')

import numpy  # noqa: E402
import xarray  # noqa: E402
from shapely.geometry import Polygon, box  # noqa: E402

import emsarray  # noqa: E402
import emsarray.utils  # noqa: E402
from emsarray.conventions.ugrid import UGrid  # noqa: E402
from emsarray.operations import cache  # noqa: E402
from tests.conventions.test_cfgrid1d import make_dataset as mk1d  # noqa: E402
from tests.conventions.test_cfgrid2d import make_dataset as mk2d  # noqa: E402
from tests.conventions.test_ugrid import make_dataset as mkug  # noqa: E402


def banner(s):
    print('\n=== ' + s)


def via_file(ds):
    d0 = tempfile.mkdtemp()
    p0 = os.path.join(d0, 'in.nc')
    emsarray.utils.to_netcdf_with_fixes(ds, p0)
    return xarray.open_dataset(p0)


banner('F-C20-1  bounds regex is not end-anchored (cli/utils.py bounds_re.match)')
from emsarray.cli.utils import bounds_argument, geometry_argument  # noqa: E402
for s in ['1.5,2.5,3.5,4.5', '0,0,1,1garbage', '1,2,3,4,5']:
    for fn in (bounds_argument, geometry_argument):
        try:
            print(repr(s), fn.__name__, '->', fn(s).bounds)
        except Exception as e:
            print(repr(s), fn.__name__, 'REJECTED', type(e).__name__)

banner('F-C17-1  format_time_units_for_ems: signed divmod + variable width hour')
from emsarray.utils import format_time_units_for_ems  # noqa: E402
for u in ['days since 1990-01-01 00:00:00 +10:00',
          'days since 1990-01-01 00:00:00 +08:00',
          'days since 1990-01-01 00:00:00 -05:00',
          'days since 1990-01-01 00:00:00 -09:30',
          'seconds since 2000-01-01 00:00:00 -00:30']:
    try:
        print(repr(u), '->', repr(format_time_units_for_ems(u)))
    except Exception as e:
        print(repr(u), 'RAISES', type(e).__name__, str(e)[:110])

banner('F-C07-1  UGRID clip mask: faces renumbered in STRtree order when buffer=0')
ds = mkug(width=3)
for buf in (0, 1):
    m = ds.ems.make_clip_mask(box(0.5, 0.5, 2.5, 2.5), buffer=buf)
    v = m['new_face_index'].values
    kept = v[~numpy.isnan(v)].astype(int)
    print('buffer', buf, 'new index of kept faces, in old order:', kept.tolist())


def with_optional_connectivity():
    ds = mkug(width=3, make_edges=True)
    topo = ds.ems.topology
    fd, ed, md = topo.face_dimension, topo.edge_dimension, topo.max_node_dimension

    def mk(arr, dims, name):
        a = numpy.ma.filled(arr.astype(float), numpy.nan)
        da = xarray.DataArray(a, dims=dims, name=name, attrs={'start_index': 0})
        da.encoding.update({'dtype': numpy.dtype('int32'), '_FillValue': 999999})
        return da
    ds2 = ds.copy()
    ds2['Mesh2_face_edges'] = mk(topo.face_edge_array, [fd, md], 'Mesh2_face_edges')
    ds2['Mesh2_edge_faces'] = mk(topo.edge_face_array, [ed, 'Two'], 'Mesh2_edge_faces')
    ds2['Mesh2_face_links'] = mk(topo.face_face_array, [fd, md], 'Mesh2_face_links')
    ds2['Mesh2'].attrs.update({
        'face_edge_connectivity': 'Mesh2_face_edges',
        'edge_face_connectivity': 'Mesh2_edge_faces',
        'face_face_connectivity': 'Mesh2_face_links'})
    return via_file(ds2)


banner('F-C09-1/2  clipping a mesh that carries face-edge / edge-face / face-face tables')
try:
    ds2 = with_optional_connectivity()
    with tempfile.TemporaryDirectory() as d:
        UGrid(ds2).clip(box(0.5, 0.5, 2.5, 2.5), d)
    print('clip succeeded')
except Exception as e:
    print('RAISES', type(e).__name__, e)
    print('(after swapping the two primary_dimension arguments the next failure is a',
          'MaskError from update_connectivity: column_values[item] is masked for a',
          'neighbour face that was clipped away)')

banner('F-C10-1  node coordinates promoted to xarray coordinates (CF "coordinates" attribute)')
ds = mkug(width=3, make_face_coordinates=True)
ds['node_thing'] = xarray.DataArray(numpy.arange(ds.sizes['nMesh2_node'], dtype=float), dims=['nMesh2_node'])
ds['node_thing'].encoding['coordinates'] = 'Mesh2_node_x Mesh2_node_y'
ds2 = via_file(ds)
print('xarray coords after reopening:', list(ds2.coords))
try:
    print(len(ds2.ems.polygons))
except Exception as e:
    print('polygons RAISES', type(e).__name__, e)
ds3 = mkug(width=3, make_face_coordinates=True).set_coords(['Mesh2_face_x', 'Mesh2_face_y'])
print('face_x ignored when it is a coordinate:', UGrid(ds3).topology.face_x is None,
      '| inventory:', UGrid(ds3).get_all_geometry_names())

banner('F-C08-1  clipping a mesh whose face coordinates are xarray coordinates (COMPAS style)')
ds = mkug(width=3, make_face_coordinates=True)
ds['eta'].encoding['coordinates'] = 'Mesh2_face_x Mesh2_face_y'
ds2 = via_file(ds)
fc = ds2.ems.face_centres
try:
    with tempfile.TemporaryDirectory() as d:
        ds2.ems.clip(Polygon([fc[8], fc[10], fc[24]]).buffer(0.001), d)
    print('clip succeeded')
except Exception as e:
    print('RAISES', type(e).__name__, str(e)[:120])

banner('F-C06-1  CF 1-D bounds stored as xarray coordinates are silently ignored')
ds = mk1d(width=4, height=3, bounds=True)
ds['lon_bounds'] = ds['lon_bounds'] + 0.013
c1 = type(ds.ems)(ds)
c2 = type(ds.ems)(ds.set_coords(['lon_bounds', 'lat_bounds']))
print('same polygons:', all(a.equals(b) for a, b in zip(c1.polygons, c2.polygons)),
      '| inventory still lists them:', c2.get_all_geometry_names())

banner('F-C06-2  ShocSimple: a (j, i) variable without standard_name before latitude')
ds = mk2d(j_size=4, i_size=5)
ds2 = xarray.Dataset(
    {'aaa': (('j', 'i'), numpy.zeros((4, 5))), **{k: v for k, v in ds.variables.items()}},
    attrs=ds.attrs)
try:
    print(type(ds2.ems).__name__, len(ds2.ems.polygons))
except Exception as e:
    print(type(ds2.ems).__name__, 'polygons RAISES', type(e).__name__, e)

banner('F-C16-1  cache key depends on string interning of attribute values (marshal)')


def keyed(attrkey, attrval):
    ds = mk1d(width=4, height=3).copy(deep=True)
    ds['lon'].attrs = {attrkey: attrval}
    return cache.make_cache_key(ds)


k1 = keyed('units', 'degrees_east')
k2 = keyed(''.join(['un', 'its']), ''.join(['degrees', '_east']))
print('equal attributes, equal keys:', k1 == k2)

banner('F-C15-1  GeoJSON and WKT export round coordinates to 6 decimals')
import json  # noqa: E402

import shapely  # noqa: E402
from emsarray.operations import geometry  # noqa: E402
ds = mk1d(width=4, height=3)
with tempfile.TemporaryDirectory() as d:
    p = os.path.join(d, 'a.geojson')
    geometry.write_geojson(ds, p)
    f = json.load(open(p))['features'][5]
    print('polygon 5       :', list(ds.ems.polygons[5].exterior.coords)[:2])
    print('geojson feature :', f['geometry']['coordinates'][0][:2])
    p = os.path.join(d, 'a.wkt')
    geometry.write_wkt(ds, p)
    print('wkt             :', list(shapely.from_wkt(open(p).read()).geoms[5].exterior.coords)[:2])
