"""F-C05-1: extract_dataframe pairs extracted values with the wrong table rows when the
DataFrame index is not 0..n-1 (a filtered table, a table read with index_col, ...).

Run:  PYTHONPATH=/repo/src:/repo /venv/bin/python /verif/triage/repro_c05_dataframe_index.py
exit 1 = defect present, exit 0 = behaves as documented.
"""
import sys

import numpy
import pandas
import xarray

import emsarray  # noqa: F401
from emsarray.operations import point_extraction

lon = numpy.arange(0.5, 5.0)
lat = numpy.arange(0.5, 3.0)
ds = xarray.Dataset(
    {'v': (('lat', 'lon'), numpy.arange(15.0).reshape(3, 5))},
    coords={'lat': ('lat', lat, {'units': 'degrees_north', 'standard_name': 'latitude'}),
            'lon': ('lon', lon, {'units': 'degrees_east', 'standard_name': 'longitude'})},
    attrs={'Conventions': 'CF-1.4'})
df = pandas.DataFrame({'lon': [0.5, 2.5, 4.5], 'lat': [0.5, 1.5, 2.5], 'name': ['a', 'b', 'c']})
expect = [0.0, 7.0, 14.0]

ok = True
for label, frame in (('default index', df), ('index 1..3', df.set_index(pandas.Index([1, 2, 3]))), ('filtered', pandas.concat([df, df]).iloc[[0, 1, 5]])):
    out = point_extraction.extract_dataframe(ds, frame, ('lon', 'lat'))
    got = list(out['v'].values)
    names = list(out['name'].values)
    good = got == expect and names == ['a', 'b', 'c'] and list(out['lon'].values) == [0.5, 2.5, 4.5]
    print(f"{label:14s} v={got} name={names} lon={list(out['lon'].values)} -> {'ok' if good else 'WRONG'}")
    ok = ok and good
sys.exit(0 if ok else 1)
