"""F-C13-1: depth coordinates are discovered with a case-insensitive test of the CF `positive`
attribute ('Down', 'DOWN' are accepted by Convention.depth_coordinates, as CF allows), but
normalize_depth_variables compares the attribute with 'down' exactly.  A coordinate marked
positive = 'Down' is therefore treated as positive *up*: normalising to positive_down=True negates
its already positive-down values, and ocean_floor picks the wrong layer.

Run:  PYTHONPATH=/repo/src:/repo /venv/bin/python /verif/triage/repro_c13_positive_case.py
exit 1 = defect present.
"""
import sys

import numpy
import xarray

import emsarray  # noqa: F401
from emsarray.operations import depth

bad = 0
for spelling in ('down', 'Down', 'DOWN'):
    ds = xarray.Dataset(
        {'temp': (('k', 'y', 'x'), numpy.arange(4 * 2 * 3.0).reshape(4, 2, 3))},
        coords={
            'depth': ('k', [0.5, 2.0, 5.0, 10.0], {'positive': spelling, 'axis': 'Z', 'standard_name': 'depth'}),
            'y': ('y', [0.0, 1.0], {'units': 'degrees_north', 'standard_name': 'latitude'}),
            'x': ('x', [0.0, 1.0, 2.0], {'units': 'degrees_east', 'standard_name': 'longitude'}),
        }, attrs={'Conventions': 'CF-1.4'})
    ds['temp'].values[3] = numpy.nan          # the deepest layer is below the sea floor everywhere
    found = [c.name for c in ds.ems.depth_coordinates]
    out = depth.normalize_depth_variables(ds, ['depth'], positive_down=True, deep_to_shallow=False)
    values = out['depth'].values.tolist()
    floor = depth.ocean_floor(ds, ['depth'])['temp'].values
    want = ds['temp'].values[2]
    ok = values == [0.5, 2.0, 5.0, 10.0] and numpy.array_equal(floor, want)
    print(f"positive={spelling!r:7} discovered as depth coordinate: {found == ['depth']}; normalised values {values}; "
          f"ocean floor is the deepest valid layer: {bool(numpy.array_equal(floor, want))} -> {'ok' if ok else 'WRONG'}")
    bad += 0 if ok else 1
sys.exit(1 if bad else 0)
