"""F-C20-3: `emsarray extract-points --missing-points fill` on a dataset with an integer variable.  The library
call returns NaN for the points outside the model (the variable is promoted to float by the outer merge), but
the variable keeps the encoding of the source file (`dtype: int16`, no _FillValue), so the file the command
writes holds a 0 (or other cast junk) there: data that looks valid where the library says "missing".

Run:  PYTHONPATH=/repo/src:/repo /venv/bin/python /verif/triage/repro_c20_fill_integer.py     exit 1 = defect present.
"""
import pathlib
import sys
import tempfile
import warnings

import numpy
import pandas
import xarray

import emsarray
from emsarray.cli import main
from emsarray.operations import point_extraction

warnings.simplefilter('ignore')
with tempfile.TemporaryDirectory() as d:
    d = pathlib.Path(d)
    ds = xarray.Dataset({
        'count': (('lat', 'lon'), (numpy.arange(20).reshape(4, 5) + 7).astype('int16')),
        'temp': (('lat', 'lon'), numpy.arange(20.0).reshape(4, 5)),
    }, coords={
        'lat': ('lat', numpy.arange(4.0), {'units': 'degrees_north', 'standard_name': 'latitude'}),
        'lon': ('lon', numpy.arange(5.0), {'units': 'degrees_east', 'standard_name': 'longitude'}),
    }, attrs={'Conventions': 'CF-1.4'})
    ds.to_netcdf(d / 'in.nc')
    pandas.DataFrame({'lon': [0.0, 30.0], 'lat': [0.0, 30.0]}).to_csv(d / 'points.csv', index=False)

    opened = emsarray.open_dataset(d / 'in.nc')
    lib = point_extraction.extract_dataframe(opened, pandas.read_csv(d / 'points.csv'), ('lon', 'lat'), missing_points='fill')
    try:
        main(['extract-points', str(d / 'in.nc'), str(d / 'points.csv'), str(d / 'out.nc'), '--missing-points', 'fill'])
    except SystemExit as exc:
        print('exit status', exc.code)
    out = xarray.open_dataset(d / 'out.nc')
    bad = 0
    for name in ('count', 'temp'):
        a, b = lib[name].values, out[name].values
        same = numpy.array_equal(a.astype(float), b.astype(float), equal_nan=True)
        print(f"{name}: library {a.tolist()}  file written by the command {b.tolist()}  -> {'same' if same else 'DIFFERENT'}")
        bad += 0 if same else 1
    sys.exit(1 if bad else 0)
