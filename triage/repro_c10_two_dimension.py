"""F-C10-2: Mesh2DTopology.two_dimension picks *any* dimension of size two when the mesh does not
call its pair dimension 'Two'.  If an unrelated dimension of size two comes first (exactly two time
steps), the supplied edge_node / edge_face tables fail their dimension test, are ignored with a
warning and replaced by derived tables whose edge numbering differs from the file's: edge i of the
topology is no longer edge i of the edge variables.

Run:  PYTHONPATH=/repo/src:/repo /venv/bin/python /verif/triage/repro_c10_two_dimension.py
exit 1 = defect present.
"""
import sys
import warnings

import numpy

import emsarray  # noqa: F401
from tests.conventions.test_ugrid import make_dataset

bad = 0
for time_size in (4, 3, 2):
    ds = make_dataset(width=3, time_size=time_size, make_edges=True).rename_dims({'Two': 'nMesh2_pair'})
    stored = ds['Mesh2_edge_nodes'].values
    with warnings.catch_warnings(record=True) as caught:
        warnings.simplefilter('always')
        topology = ds.ems.topology
        used = numpy.ma.filled(topology.edge_node_array, -1)
    same = used.shape == stored.shape and bool((used == stored).all())
    print(f"time steps {time_size}: two_dimension={topology.two_dimension!r:14} supplied edge-node table used as given: {same}"
          f"{'  warnings: ' + str(len(caught)) if caught else ''}")
    if not same:
        bad += 1
sys.exit(1 if bad else 0)
