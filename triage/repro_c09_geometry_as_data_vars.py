"""F-C09-3: clipping a grid dataset whose geometry variables (longitude / latitude, or the SHOC
x_grid ... variables) are plain data variables rather than xarray coordinates fails, because
mask_grid_dataset masks them like any other data variable and the clip mask carries coordinates
of the same names.

Run:  PYTHONPATH=/repo/src:/repo /venv/bin/python /verif/triage/repro_c09_geometry_as_data_vars.py
exit 1 = defect present.
"""
import sys
import tempfile

import dask
import numpy
import shapely
import xarray

import emsarray  # noqa: F401

dask.config.set(scheduler='synchronous')
bad = 0

lon2, lat2 = numpy.meshgrid(numpy.arange(5.0), numpy.arange(4.0))
cf2d = xarray.Dataset({
    'longitude': (('j', 'i'), lon2, {'standard_name': 'longitude', 'units': 'degrees_east'}),
    'latitude': (('j', 'i'), lat2, {'standard_name': 'latitude', 'units': 'degrees_north'}),
    'temp': (('j', 'i'), numpy.arange(20.0).reshape(4, 5)),
}, attrs={'Conventions': 'CF-1.4'})

cases = [('CFGrid2D, lon/lat as data variables', cf2d)]
try:
    from tests.conventions.test_shoc_standard import make_dataset
    shoc = make_dataset(j_size=5, i_size=6)
    cases.append(('ShocStandard, geometry demoted to data variables', shoc.reset_coords()))
    cases.append(('ShocStandard as made by the test helper (control)', shoc))
except Exception as exc:  # pragma: no cover
    print('could not build the SHOC case:', exc)

for label, ds in cases:
    conv = type(ds.ems).__name__
    poly = ds.ems.polygons
    keep = [p for p in poly if p is not None]
    region = shapely.unary_union(keep[:len(keep) // 2]).buffer(-1e-6)
    with tempfile.TemporaryDirectory() as d:
        try:
            out = ds.ems.clip(region, d)
            out.load()
            print(f"{label} [{conv}]: clipped fine, {int(out.ems.mask.sum())} cells")
        except Exception as exc:
            print(f"{label} [{conv}]: FAILED {type(exc).__name__}: {exc}")
            if 'control' not in label:
                bad += 1
sys.exit(1 if bad else 0)
