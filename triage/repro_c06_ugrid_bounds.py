"""F-C06-3: UGrid.bounds ranged over every node coordinate: a node that no face uses (or that belongs only to a
face whose polygon was dropped) widened the reported bounds beyond the bounding box of the polygons.

Run:  PYTHONPATH=/repo/src:/repo /venv/bin/python /verif/triage/repro_c06_ugrid_bounds.py    exit 1 = defect present.
"""
import warnings, numpy, xarray, shapely
warnings.simplefilter('ignore')
import emsarray
from tests.conventions.test_ugrid import make_dataset
ds = make_dataset(width=3, make_edges=False)
# add a node that no face uses, far away
nx = ds['Mesh2_node_x'].values; ny = ds['Mesh2_node_y'].values
ds2 = ds.copy()
extra = xarray.Dataset({
    'Mesh2_node_x': ('nMesh2_node', numpy.append(nx, 500.0), ds['Mesh2_node_x'].attrs),
    'Mesh2_node_y': ('nMesh2_node', numpy.append(ny, -80.0), ds['Mesh2_node_y'].attrs)})
ds2 = ds.drop_dims('nMesh2_node').merge(extra) if False else None
base = {k: v for k, v in ds.variables.items() if 'nMesh2_node' not in v.dims}
new = xarray.Dataset({k: v for k, v in base.items()}, attrs=ds.attrs)
new['Mesh2_node_x'] = extra['Mesh2_node_x']; new['Mesh2_node_y'] = extra['Mesh2_node_y']
print(type(new.ems).__name__)
polys = [p for p in new.ems.polygons if p is not None]
bb = shapely.unary_union(polys).bounds
print('bounds reported', new.ems.bounds)
print('bounding box of the polygons', bb)
print('geometry bounds', new.ems.geometry.bounds)
import sys
sys.exit(0 if tuple(float(v) for v in new.ems.bounds) == tuple(float(v) for v in bb) else 1)
