"""F-C12-2: ocean_floor finds the sea floor in ONE example variable per group of variables (the first one) by
looking for missing values below the floor.  If that first variable cannot hold a missing value (an integer
flag / count variable without a fill value), no layer of it is ever missing, the "floor" is the last layer
everywhere, and every other variable of the group is reduced at the last layer: float variables come back as
NaN (or as below-floor junk) instead of their deepest valid value.

Run:  PYTHONPATH=/repo/src:/repo /venv/bin/python /verif/triage/repro_c12_integer_example.py
exit 1 = defect present.
"""
import sys

import numpy
import xarray

import emsarray  # noqa: F401
from emsarray.operations import depth

temp = numpy.arange(4 * 2 * 3.0).reshape(4, 2, 3)
temp[2:, 0, :] = numpy.nan          # first row of columns: two wet layers
temp[3:, 1, :] = numpy.nan          # second row: three wet layers
want = numpy.stack([temp[1, 0, :], temp[2, 1, :]])


def make(order):
    variables = {
        'flag': (('k', 'y', 'x'), numpy.ones((4, 2, 3), dtype='int16')),
        'temp': (('k', 'y', 'x'), temp.copy()),
    }
    return xarray.Dataset(
        {name: variables[name] for name in order},
        coords={
            'depth': ('k', [0.5, 2.0, 5.0, 10.0], {'positive': 'down'}),
            'y': ('y', [0.0, 1.0], {'units': 'degrees_north', 'standard_name': 'latitude'}),
            'x': ('x', [0.0, 1.0, 2.0], {'units': 'degrees_east', 'standard_name': 'longitude'}),
        }, attrs={'Conventions': 'CF-1.4'})


bad = 0
for order in (['temp', 'flag'], ['flag', 'temp']):
    got = depth.ocean_floor(make(order), ['depth'])['temp'].values
    ok = numpy.array_equal(got, want, equal_nan=True)
    print(f"variables in order {order}: temp at the ocean floor = {got.tolist()} -> {'ok' if ok else 'WRONG'}")
    bad += 0 if ok else 1
sys.exit(1 if bad else 0)
