"""F-C12-3: ocean_floor on a dataset whose depth coordinate has a CF `bounds` variable.  With the bounds held as a
data variable the reduction raised ValueError("'k' not found in array dimensions"); with the bounds held as a
coordinate a (y, x, nv) remnant of the bounds survived in the result although the depth dimension and its
coordinates are to be removed.

Run:  PYTHONPATH=/repo/src:/repo /venv/bin/python /verif/triage/repro_c12_depth_bounds.py
exit 1 = defect present.
"""
import sys

import numpy
import xarray

import emsarray  # noqa: F401
from emsarray.operations import depth
def make(bounds_as):
    ds = xarray.Dataset(
        {'temp': (('k','y','x'), numpy.arange(24.0).reshape(4,2,3)),
         'depth_bnds': (('k','nv'), numpy.array([[0,1],[1,3],[3,7],[7,13.]]))},
        coords={'depth': ('k', [0.5,2.,5.,10.], {'positive':'down','bounds':'depth_bnds'}),
                'y': ('y',[0.,1.],{'units':'degrees_north','standard_name':'latitude'}),
                'x': ('x',[0.,1.,2.],{'units':'degrees_east','standard_name':'longitude'})}, attrs={'Conventions':'CF-1.4'})
    if bounds_as == 'coord': ds = ds.set_coords('depth_bnds')
    if bounds_as == 'none': ds = ds.drop_vars('depth_bnds'); del ds['depth'].attrs['bounds']
    return ds
bad = 0
for how in ('none', 'data_var', 'coord'):
    ds = make(how)
    try:
        out = depth.ocean_floor(ds, ['depth'])
        good = sorted(out.variables) == ['temp', 'x', 'y']
        bad += 0 if good else 1
        print(how, 'ok' if good else 'REMNANT', 'dims', dict(out.sizes), 'vars', sorted(out.variables))
    except Exception as e:
        bad += 1
        print(how, 'RAISED', type(e).__name__, str(e)[:100])
    try:
        out = ds.ems.ocean_floor()
        print(how, 'accessor ok: dims', dict(out.sizes), 'vars', sorted(out.variables))
    except Exception as e:
        print(how, 'accessor RAISED', type(e).__name__, str(e)[:100])
sys.exit(1 if bad else 0)
