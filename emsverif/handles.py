"""Dataset-variable handle analysis (used by R09.4 and R16.3).

Which variables of the dataset does a piece of geometry code read, and which does a
convention's geometry inventory name?  Both are computed as sets of *name sources*,
normal forms of the expression that yields the variable's name:

    ('leaf', 'topology.longitude_name')          an opaque name valued attribute
    ('attrof', NS, 'bounds')                       attribute `bounds` of the variable named NS
    ('meshvar',)                                   the mesh topology variable (found by scan / key)
    ('item', NS, 0)                                element 0 of a whitespace separated attribute
    ('const', 'zc')                                a literal name

The evaluator inlines (cached) properties and methods of repository classes along the
object path from the convention (`self.topology`, `self.node`, ...), so
`self.node.longitude.name` in an inventory and `self.dataset[self.longitude_name]`
inside the node topology meet in the same normal form.  Nothing is executed.
"""
from __future__ import annotations

import ast
from typing import Optional

from .model import AnalysisError, ClassInfo, FuncInfo, Program, TypeEnv, const_value, dotted, norm_text, walk_no_nested
from .report import Context

DS_NAMESPACES = {'variables', 'data_vars', 'coords'}
PASS_THROUGH_ATTRS = {'values', 'data', 'dims', 'shape', 'size', 'dtype', 'encoding', 'T', 'sizes', 'to_numpy', 'copy', 'variable'}


class HandleEval:
    def __init__(self, ctx: Context, conv: ClassInfo):
        self.ctx = ctx
        self.p: Program = ctx.p
        self.conv = conv
        self.reads: dict[tuple, list[str]] = {}      # NS -> sites
        self.unknown_reads: list[str] = []
        self._active: set = set()
        self._memo: dict = {}
        self.visited: set[str] = set()

    # ---------------------------------------------------------------- values
    def _obj(self, cls: ClassInfo, path: str):
        return ('obj', cls.qualname, path)

    def record(self, ns, fi: FuncInfo, node: ast.AST) -> None:
        if ns is None or ns[0] == 'unknown':
            self.unknown_reads.append(f"{fi.short}: {norm_text(node)}")
            return
        self.reads.setdefault(ns, []).append(fi.where(node))

    @staticmethod
    def as_name(v):
        if v is None:
            return None
        if v[0] == 'name':
            return v[1]
        if v[0] == 'const' and isinstance(v[1], str):
            return ('const', v[1])
        if v[0] == 'oneof':
            return None
        return None

    # ---------------------------------------------------------------- function level
    def visit(self, fi: FuncInfo, selfobj, args: Optional[dict] = None):
        """Evaluate every expression of fi (recording reads); return the abstract return values."""
        key = (fi.qualname, selfobj, tuple(sorted((k, repr(v)) for k, v in (args or {}).items())))
        if key in self._memo:
            return self._memo[key]
        if key in self._active:
            return []
        self._active.add(key)
        self.visited.add(fi.qualname)
        try:
            env = dict(args or {})
            flow = self.ctx.flow(fi)
            frame = (fi, selfobj, env, flow)
            rets = []
            for node in walk_no_nested(fi.node):
                if isinstance(node, ast.Return) and node.value is not None:
                    v = self.eval(node.value, frame)
                    if v is not None:
                        rets.append(v)
                elif isinstance(node, ast.Expr):
                    self.eval(node.value, frame)
                elif isinstance(node, (ast.Assign, ast.AnnAssign, ast.AugAssign)) and getattr(node, 'value', None) is not None:
                    self.eval(node.value, frame)
                elif isinstance(node, (ast.If, ast.While)):
                    self.eval(node.test, frame)
                elif isinstance(node, ast.For):
                    self.eval(node.iter, frame)
                elif isinstance(node, ast.With):
                    for item in node.items:
                        self.eval(item.context_expr, frame)
            self._memo[key] = rets
            return rets
        finally:
            self._active.discard(key)

    # ---------------------------------------------------------------- expressions
    def eval(self, e: ast.AST, frame, depth: int = 30):
        fi, selfobj, env, flow = frame
        if e is None or depth <= 0:
            return None
        ev = lambda x: self.eval(x, frame, depth - 1)  # noqa: E731
        if isinstance(e, ast.Constant):
            return ('const', e.value)
        if isinstance(e, ast.Name):
            if e.id in ('self', 'cls') and selfobj is not None and fi.parent is None:
                return selfobj
            if e.id in env:
                return env[e.id]
            vals = []
            for d in flow.defs_of(e):
                if d.kind in ('assign', 'walrus', 'with') and d.value is not None:
                    vals.append(self.eval(d.value, frame, depth - 1))
                elif d.kind == 'unpack' and d.value is not None:
                    base = self.eval(d.value, frame, depth - 1)
                    if base is not None and base[0] == 'tuple' and d.index and len(d.index) == 1 and isinstance(d.index[0], int) \
                            and d.index[0] < len(base[1]):
                        vals.append(base[1][d.index[0]])
                elif d.kind == 'iter' and d.value is not None:
                    base = self.eval(d.value, frame, depth - 1)
                    if base is not None and base[0] in ('tuple', 'list'):
                        items = [x for x in base[1] if x is not None]
                        if d.index and len(d.index) == 1 and isinstance(d.index[0], int):
                            items = [x[1][d.index[0]] for x in items if x[0] == 'tuple' and d.index[0] < len(x[1])]
                        vals.append(('oneof', tuple(items)))
            vals = [v for v in vals if v is not None]
            if not vals:
                return None
            return vals[0] if len(vals) == 1 else ('oneof', tuple(vals))
        if isinstance(e, (ast.Tuple, ast.List)):
            return ('tuple' if isinstance(e, ast.Tuple) else 'list', tuple(ev(x) for x in e.elts))
        if isinstance(e, ast.Starred):
            return ev(e.value)
        if isinstance(e, ast.Attribute):
            return self._attr(e, frame, depth)
        if isinstance(e, ast.Subscript):
            base = ev(e.value)
            key = ev(e.slice) if not isinstance(e.slice, ast.Slice) else None
            return self._subscript(base, key, e, frame)
        if isinstance(e, ast.Call):
            return self._call(e, frame, depth)
        if isinstance(e, ast.IfExp):
            ev(e.test)
            a, b = ev(e.body), ev(e.orelse)
            return a if a is not None else b
        if isinstance(e, (ast.BoolOp,)):
            vals = [ev(v) for v in e.values]
            return next((v for v in vals if v is not None), None)
        if isinstance(e, (ast.ListComp, ast.GeneratorExp, ast.SetComp)):
            for g in e.generators:
                ev(g.iter)
                for c in g.ifs:
                    ev(c)
            inner = ev(e.elt)
            return ('list', (inner,)) if inner is not None else None
        if isinstance(e, ast.DictComp):
            g = e.generators[0]
            it = ev(g.iter)
            ev(e.value)
            # {k: v for k, v in X.attrs.items() ...}  keeps the attribute dictionary
            if it is not None and it[0] == 'attrs-items':
                return ('attrs', it[1])
            return None
        if isinstance(e, ast.Dict):
            for k, v in zip(e.keys, e.values):
                if k is not None:
                    ev(k)
                ev(v)
            return None
        for child in ast.iter_child_nodes(e):
            if isinstance(child, ast.expr):
                ev(child)
        return None

    def _subscript(self, base, key, node, frame):
        fi = frame[0]
        if base is None:
            return None
        if base[0] in ('ds', 'dsns'):
            names = []
            if key is not None and key[0] == 'oneof':
                names = [self.as_name(k) for k in key[1]]
            else:
                names = [self.as_name(key)]
            out = []
            for ns in names:
                self.record(ns if ns is not None else ('unknown', norm_text(node)), fi, node)
                if ns is not None:
                    out.append(('var', ns))
            if not out:
                return None
            return out[0] if len(out) == 1 else ('oneof', tuple(out))
        if base[0] == 'attrs' and key is not None and key[0] == 'const':
            return ('name', ('attrof', base[1], key[1]))
        if base[0] in ('tuple', 'list') and key is not None and key[0] == 'const' and isinstance(key[1], int):
            try:
                return base[1][key[1]]
            except IndexError:
                return None
        if base[0] == 'split' and key is not None and key[0] == 'const' and isinstance(key[1], int):
            return ('name', ('item', base[1], key[1]))
        if base[0] == 'var':
            return base          # slicing a variable still refers to that variable
        if base[0] == 'objmap':
            # dict of topology objects keyed by kind: self._topology_for_grid_kind[Kind.node]
            k = norm_text(node.slice).rsplit('.', 1)[-1]
            return ('obj', base[1], k)
        return None

    def _attr(self, e: ast.Attribute, frame, depth):
        fi, selfobj, env, flow = frame
        base = self.eval(e.value, frame, depth - 1)
        a = e.attr
        if base is None:
            return None
        if base[0] == 'oneof':
            for b in base[1]:
                if b is not None and b[0] == 'var':
                    base = b
                    break
        if base[0] == 'obj':
            ci = self.p.classes.get(base[1])
            path = base[2]
            if ci is None:
                return None
            if a == 'dataset':
                return ('ds',)
            m = self.p.resolve_method(ci, a)
            if m is not None and m.is_property:
                if a.endswith('_name') or a == 'topology_key':
                    self.visit(m, base)
                    return ('name', ('leaf', f"{path}.{a}".replace('self.', '')))
                if a == 'mesh_variable':
                    # found by key or by scanning for cf_role: one abstract handle
                    self.record(('meshvar',), m, m.node)
                    self.visited.add(m.qualname)
                    return ('var', ('meshvar',))
                # a property returning another repository object
                types = TypeEnv(self.p, m, ci)
                rt = types._ann_type(m.node.returns, m.module, ci)
                rets = self.visit(m, base)
                if rt and rt in self.p.classes and not rt.startswith('xarray'):
                    # concrete class from the constructor called, when visible
                    for r in rets:
                        if r is not None and r[0] == 'obj':
                            return ('obj', r[1], f"{path}.{a}")
                    return ('obj', rt, f"{path}.{a}")
                if isinstance(m.node.returns, ast.Subscript) and (dotted(m.node.returns.value) or '') == 'dict':
                    # dict[Kind, Topology]
                    sl = m.node.returns.slice
                    if isinstance(sl, ast.Tuple) and len(sl.elts) == 2:
                        t2 = types._ann_type(sl.elts[1], m.module, ci)
                        if t2 and t2 in self.p.classes:
                            return ('objmap', t2)
                vals = [r for r in rets if r is not None]
                if not vals:
                    return None
                return vals[0] if len(vals) == 1 else ('oneof', tuple(vals))
            if m is None:
                # plain attribute: name valued ones are leaves
                if a.endswith('_name') or a.endswith('_names') or a == 'topology_key':
                    return ('name', ('leaf', f"{path}.{a}".replace('self.', '')))
                return None
            return None
        if base[0] == 'ds':
            if a in DS_NAMESPACES:
                return ('dsns',)
            if a == 'attrs':
                return ('dsattrs',)
            return None
        if base[0] == 'var':
            if a == 'name':
                return ('name', base[1])
            if a == 'attrs':
                return ('attrs', base[1])
            if a in PASS_THROUGH_ATTRS:
                return base
            return base
        return None

    def _call(self, e: ast.Call, frame, depth):
        fi, selfobj, env, flow = frame
        f = e.func
        ev = lambda x: self.eval(x, frame, depth - 1)  # noqa: E731
        argvals = [ev(a) for a in e.args]
        kwvals = {k.arg: ev(k.value) for k in e.keywords if k.arg}
        name = dotted(f) or ''
        short = name.rsplit('.', 1)[-1]
        if short == 'cast' and len(e.args) == 2:
            return argvals[1]
        if isinstance(f, ast.Attribute):
            base = ev(f.value)
            if base is not None and base[0] == 'attrs':
                if f.attr == 'get' and argvals and argvals[0] is not None and argvals[0][0] == 'const':
                    return ('name', ('attrof', base[1], argvals[0][1]))
                if f.attr == 'items':
                    return ('attrs-items', base[1])
                return None
            if base is not None and base[0] == 'name' and f.attr == 'split':
                return ('split', base[1])
            if base is not None and base[0] == 'dsns' and f.attr in ('keys', 'values', 'items'):
                return None
            if base is not None and base[0] == 'var':
                return base
            if base is not None and base[0] == 'obj':
                ci = self.p.classes.get(base[1])
                m = self.p.resolve_method(ci, f.attr) if ci else None
                if m is not None and not m.is_abstract:
                    return self._invoke(m, base, e, argvals, kwvals)
                return None
            if isinstance(f.value, ast.Call) and dotted(f.value.func) == 'super' and selfobj is not None and fi.cls is not None:
                ci = self.p.classes.get(selfobj[1])
                if ci is not None:
                    started = False
                    for c in self.p.mro(ci):
                        if started and f.attr in c.methods:
                            return self._invoke(c.methods[f.attr], selfobj, e, argvals, kwvals)
                        if c.qualname == fi.cls.qualname:
                            started = True
                return None
        q = self.p.qualify(f, fi, TypeEnv(self.p, fi, self.p.classes.get(selfobj[1]) if selfobj else None))
        if q and q in self.p.classes:
            ci = self.p.classes[q]
            init = self.p.resolve_method(ci, '__init__')
            return ('obj', q, '?')
        if q and q in self.p.functions:
            target = self.p.functions[q]
            if target.cls is None or target.parent is not None:
                # module level helper: evaluate with bound parameters
                if target.name == '_split_coord' and argvals and argvals[0] is not None and argvals[0][0] == 'name':
                    return ('tuple', (('name', ('item', argvals[0][1], 0)), ('name', ('item', argvals[0][1], 1))))
                return self._invoke(target, None, e, argvals, kwvals)
        # builtins that keep the value
        if name in ('str', 'list', 'tuple', 'next', 'iter', 'min', 'max', 'sorted') and argvals:
            return argvals[0]
        return None

    def _invoke(self, target: FuncInfo, receiver, call: ast.Call, argvals, kwvals):
        params = target.params
        if target.cls is not None and target.parent is None and target.kind not in ('staticmethod',):
            params = params[1:]
        binding = {}
        for pname, v in zip(params, argvals):
            if v is not None:
                binding[pname] = v
        for k, v in kwvals.items():
            if v is not None and k in params:
                binding[k] = v
        rets = self.visit(target, receiver, binding)
        vals = [r for r in rets if r is not None]
        if not vals:
            return None
        return vals[0] if len(vals) == 1 else ('oneof', tuple(vals))


def _flatten_names(v) -> set:
    out = set()
    if v is None:
        return out
    if v[0] == 'name':
        out.add(v[1])
    elif v[0] in ('oneof', 'tuple', 'list'):
        for x in v[1]:
            out |= _flatten_names(x)
    elif v[0] == 'var':
        pass
    return out


def inventory_of(ctx: Context, conv: ClassInfo):
    """(FuncInfo of get_all_geometry_names, set of name sources it can return, evaluator)."""
    p = ctx.p
    fi = p.resolve_method(conv, 'get_all_geometry_names')
    if fi is None or fi.is_abstract:
        raise AnalysisError(f"{conv.short}.get_all_geometry_names is not concrete")
    he = HandleEval(ctx, conv)
    selfobj = he._obj(conv, 'self')
    frame = (fi, selfobj, {}, ctx.flow(fi))
    names: set = set()
    he.visit(fi, selfobj)
    # members: elements of the list display(s) bound to the returned name (or returned
    # directly) and the arguments of .append/.extend on that name
    flow = ctx.flow(fi)
    returned: set[str] = set()
    for r in fi.returns():
        if isinstance(r.value, ast.Name):
            returned.add(r.value.id)
        elif isinstance(r.value, (ast.List, ast.Tuple)):
            for elt in r.value.elts:
                names |= _flatten_names(he.eval(elt, frame))
        elif r.value is not None:
            v = flow.resolve(r.value)
            if isinstance(v, (ast.List, ast.Tuple)):
                for elt in v.elts:
                    names |= _flatten_names(he.eval(elt, frame))
    # lists spliced into a returned list (names.extend(other), names += other, names = a + b) are members too
    grew = True
    while grew:
        grew = False
        for node in walk_no_nested(fi.node):
            src = []
            if isinstance(node, ast.Call) and isinstance(node.func, ast.Attribute) and node.func.attr == 'extend' and node.args \
                    and isinstance(node.func.value, ast.Name) and node.func.value.id in returned:
                src = [node.args[0]]
            elif isinstance(node, ast.AugAssign) and isinstance(node.op, ast.Add) and isinstance(node.target, ast.Name) and node.target.id in returned:
                src = [node.value]
            elif isinstance(node, ast.Assign) and isinstance(node.targets[0], ast.Name) and node.targets[0].id in returned:
                v = node.value
                src = [v.left, v.right] if isinstance(v, ast.BinOp) and isinstance(v.op, ast.Add) else ([v] if isinstance(v, ast.Name) else [])
            for e in src:
                if isinstance(e, ast.Name) and e.id not in returned:
                    returned.add(e.id)
                    grew = True
    for node in walk_no_nested(fi.node):
        if isinstance(node, (ast.Assign, ast.AnnAssign)):
            tgt = node.targets[0] if isinstance(node, ast.Assign) else node.target
            if isinstance(tgt, ast.Name) and tgt.id in returned and isinstance(node.value, (ast.List, ast.Tuple)):
                for elt in node.value.elts:
                    names |= _flatten_names(he.eval(elt, frame))
        if isinstance(node, ast.Call) and isinstance(node.func, ast.Attribute) and node.func.attr in ('append', 'add', 'extend') \
                and node.args and isinstance(node.func.value, ast.Name) and node.func.value.id in returned:
            names |= _flatten_names(he.eval(node.args[0], frame))
    return fi, names, he


GEOMETRY_ROOTS = ('_make_polygons', 'face_centres', 'bounds')


def geometry_reads(ctx: Context, conv: ClassInfo):
    p = ctx.p
    he = HandleEval(ctx, conv)
    selfobj = he._obj(conv, 'self')
    roots = []
    for name in GEOMETRY_ROOTS:
        fi = p.resolve_method(conv, name)
        if fi is None or fi.is_abstract:
            continue
        roots.append(fi)
        he.visit(fi, selfobj)
    return roots, he


def show_ns(ns) -> str:
    if ns is None:
        return '?'
    if ns[0] == 'leaf':
        return ns[1]
    if ns[0] == 'attrof':
        return f"{show_ns(ns[1])}.attrs[{ns[2]!r}]"
    if ns[0] == 'item':
        return f"{show_ns(ns[1])}.split()[{ns[2]}]"
    if ns[0] == 'meshvar':
        return '<mesh variable>'
    if ns[0] == 'const':
        return repr(ns[1])
    return repr(ns)


def inventory_obligations(ctx: Context, rule: str) -> None:
    """One obligation per (convention, variable read by its geometry code): it is in the inventory."""
    p = ctx.p
    base = p.cls('emsarray.conventions._base.Convention')
    seen = set()
    for conv in p.concrete_classes(base):
        inv_fi, names, he_inv = inventory_of(ctx, conv)
        roots, he = geometry_reads(ctx, conv)
        sig = (inv_fi.qualname, tuple(sorted(r.qualname for r in roots)), p.resolve_method(conv, 'topology').qualname if p.resolve_method(conv, 'topology') else '')
        if sig in seen:
            continue
        seen.add(sig)
        ctx.functions_analysed.update(he.visited | he_inv.visited)
        if not he.reads:
            raise AnalysisError(f"{conv.short}: no dataset variable read found in the geometry code; handle analysis lost its anchors")
        for ns in sorted(he.reads, key=repr):
            ok = ns in names
            ctx.check(rule, ok, "a variable read by the geometry code is named in get_all_geometry_names()", inv_fi, inv_fi.node,
                      construct=f"{conv.short}: {show_ns(ns)}",
                      detail='' if ok else f"read at {he.reads[ns][0]}; inventory has {sorted(show_ns(n) for n in names)}")
        if he.unknown_reads:
            ctx.notes.append(f"{conv.short}: reads with keys outside the handle algebra (ignored): {sorted(set(he.unknown_reads))[:5]}")
