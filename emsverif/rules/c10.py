"""C10 - mesh topology is independent of encoding and internally consistent."""
from __future__ import annotations

import ast

from ..cfg import stmt_of
from ..model import AnalysisError, const_value, dotted, kwarg, norm_text, walk_no_nested
from ..report import Context
from .common import calls_in, callee, enclosing_ifs, following_guards, is_none, method_calls

UGRID = 'emsarray.conventions.ugrid'
TOPO = f"{UGRID}.Mesh2DTopology"
TABLES = ('edge_node', 'edge_face', 'face_node', 'face_edge', 'face_face')
SECOND_DIM = {'edge_node': 'two_dimension', 'edge_face': 'two_dimension', 'face_node': 'max_node_dimension',
              'face_edge': 'max_node_dimension', 'face_face': 'max_node_dimension'}


def run(ctx: Context) -> None:
    p = ctx.p
    topo = p.cls(TOPO)
    ctx.rule('R10.1', "one normaliser: every stored connectivity becomes an index array through _to_index_array, which puts the primary dimension first, masks the three fill representations exhaustively on the RAW values, and only then subtracts start_index (0, 1, '0', '1'; anything else is an error)", floor=11)
    ctx.rule('R10.2', "supplied tables are used as given under their own validity test, else derived; the validity test looks up the table named by its own mesh attribute, requires the edge dimension for edge tables, and expects exactly {primary dimension, column dimension}", floor=22)
    ctx.rule('R10.3', "node / edge / face coordinate variables are looked up by the names in the mesh attributes, x first and y second, dataset-wide", floor=6)
    ctx.rule('R10.4', "derived tables agree with face-node: one consecutive-pair iterator (closing the ring), edges keyed by unordered node pair, edge-face filled per face edge, face-face written in both directions", floor=10)
    ctx.rule('R10.5', "dimensions are discovered from the mesh attributes with the documented fall-backs", floor=6)
    ctx.rule('R10.6', "normalising a table never writes into the dataset's own arrays (a second topology on the same data sees the same file)", floor=1)
    ctx.rule('R10.7', "faces are built from the unmasked entries of the normalised face-node table only: rows are grouped by their unmasked count and each group reads exactly that many leading columns; each group is written to its own rows (facts shared with C02 R02.3)", floor=4)
    from . import c02 as _c02
    from .common import share_obligations as _share
    _share(ctx, _c02, {'R02.3'}, 'R10.7', only=lambda ob: 'UGrid._make_polygons' in ob.function)
    from .common import adopt_foundations as _adopt
    _adopt(ctx, 'R10.8', ['geometry'], floor=30)
    ctx.rule('R10.9', "a supplied table is used as given exactly when its dimensions are the expected pair: each validity test refuses under a mismatch and accepts only under agreement", floor=5)
    with ctx.section('R10.9'):
        from . import infra as _infra109
        _infra109.mesh_table_dimension_tests(ctx, 'R10.9')
        _infra109.mesh_table_accessors(ctx, 'R10.9')
    ctx.assume("numpy.ma masked_invalid / masked_equal / masked_array semantics; UGRID attribute names are fixed by the specification")

    # ------------------------------------------------------------------ R10.1
    with ctx.section('R10.1'):
        ti = ctx.func(f"{TOPO}._to_index_array")
        flow = ctx.flow(ti)
        cfg = ctx.cfg(ti)
        da, prim = ti.params[1], ti.params[2]
        raises = [n for n in walk_no_nested(ti.node) if isinstance(n, ast.Raise)]
        ok = any(any(inb and norm_text(st.test) == f"{prim} not in {da}.dims" for st, inb in enclosing_ifs(ti, r)) for r in raises)
        ctx.check('R10.1', ok, "a table lacking its primary dimension is rejected", ti, raises[0] if raises else ti.node,
                  construct=f"raise under `{prim} not in {da}.dims`")
        trs = [c for c in method_calls(ti, 'transpose')]
        ok = False
        if len(trs) == 1:
            g = [(norm_text(st.test), inb) for st, inb in enclosing_ifs(ti, trs[0])]
            st = stmt_of(ti, trs[0])
            ok = ((f"{da}.dims[0] != {prim}", True) in g and isinstance(st, ast.Assign) and norm_text(st.targets[0]) == da
                  and norm_text(trs[0].func.value) == da and not trs[0].args)
        ctx.check('R10.1', ok, "the table is transposed exactly when its first dimension is not the primary dimension", ti, trs[0] if trs else ti.node)
        # the masking: decided by what is known on the path to each masking call (integer or not; fill attribute or not),
        # however the branches are nested or ordered
        from .common import facts as _facts
        INT_FORMS = ('issubclass(values.dtype.type, numpy.integer)', f'issubclass({da}.values.dtype.type, numpy.integer)',
                     'numpy.issubdtype(values.dtype, numpy.integer)', f'numpy.issubdtype({da}.dtype, numpy.integer)')
        FILL = f"'_FillValue' in {da}.attrs"

        def where(node):
            fs = _facts(ctx, ti, node)
            is_int = next((pol for t, pol in fs if t in INT_FORMS), None)
            has_fill = next((pol for t, pol in fs if t == FILL), None)
            other = sorted((t, pol) for t, pol in fs if t not in INT_FORMS and t != FILL and 'dims' not in t)
            return is_int, has_fill, other
        calls_ = calls_in(ti)
        invalid = [c for c in calls_ if callee(ctx, ti, c) == 'numpy.ma.masked_invalid']
        equal = [c for c in calls_ if callee(ctx, ti, c) == 'numpy.ma.masked_equal' and len(c.args) == 2 and norm_text(c.args[1]) == f"{da}.attrs['_FillValue']"]
        plain = [c for c in calls_ if callee(ctx, ti, c) == 'numpy.ma.masked_array']
        casts = [c for c in calls_ if isinstance(c.func, ast.Attribute) and c.func.attr == 'astype' and norm_text(c.args[0] if c.args else ast.Constant(None)) == 'self.sensible_dtype']
        ctx.need('R10.1', bool(invalid) and bool(equal) and bool(plain) and bool(casts), "_to_index_array distinguishes integer from floating point tables", ti)
        branch = stmt_top = None
        for st_ in ti.node.body:
            if any(x is invalid[0] for x in ast.walk(st_)):
                branch = st_
        w_inv = [where(c) for c in invalid]
        ok1 = len(invalid) == 1 and w_inv[0][0] is False and not w_inv[0][2] and len(casts) == 1 and where(casts[0])[0] is False and not where(casts[0])[2] \
            and where(casts[0])[1] is None and w_inv[0][1] is None
        ctx.check('R10.1', ok1, "floating point tables: NaN entries are masked (masked_invalid) and the rest cast to the integer dtype, whatever else is known", ti, invalid[0],
                  construct=f"masked_invalid known-facts {w_inv}; cast {[where(c) for c in casts]}")
        w_eq = [where(c) for c in equal]
        float_fill = [c for c, w in zip(equal, w_eq) if w[0] in (False, None) and w[1] is True and not w[2]]
        int_fill = [c for c, w in zip(equal, w_eq) if w[0] in (True, None) and w[1] is True and not w[2]]
        ok1b = bool(float_fill) and invalid[0].lineno < float_fill[0].lineno < casts[0].lineno and len(equal) == len(set(float_fill) | set(int_fill))
        ctx.check('R10.1', ok1b, "floating point tables with a _FillValue attribute (opened with mask_and_scale=False, or written by a clip of a float mesh): entries equal to it are masked as well, "
                  "after the NaN masking and before the cast", ti, float_fill[0] if float_fill else invalid[0],
                  construct=f"masked_equal(…, attrs['_FillValue']) known-facts {w_eq}")
        ctx.check('R10.1', bool(int_fill), "integer tables with a _FillValue attribute: entries equal to it are masked", ti, int_fill[0] if int_fill else equal[0],
                  construct=f"masked_equal(…, attrs['_FillValue']) known-facts {w_eq}")
        w_pl = [where(c) for c in plain]
        ok3 = len(plain) == 1 and w_pl[0][0] is True and w_pl[0][1] is False and not w_pl[0][2] and 'nomask' in ' '.join(norm_text(s_) for s_ in walk_no_nested(ti.node) if isinstance(s_, ast.Assign))
        ctx.check('R10.1', ok3, "an integer table without the attribute has nothing masked (exhaustive third case)", ti, plain[0], construct=f"masked_array(values, mask=nomask) known-facts {w_pl}")
        # masking sees the RAW values; start_index is subtracted afterwards
        subs = [n for n in walk_no_nested(ti.node) if isinstance(n, ast.Assign) and isinstance(n.value, ast.BinOp) and isinstance(n.value.op, ast.Sub)
                and flow.reaches(n.value.right, lambda m: isinstance(m, ast.Call) and callee(ctx, ti, m) == f"{UGRID}._get_start_index")]
        other_sub = [n for n in ast.walk(ti.node) if isinstance(n, ast.BinOp) and isinstance(n.op, (ast.Sub, ast.Add))
                     and not any(n is s.value for s in subs)]
        ok_sub = len(subs) == 1 and cfg.dominates(branch, subs[0]) and not any(x is subs[0] for x in ast.walk(branch))
        ctx.check('R10.1', ok_sub, "start_index is subtracted once, after the fill entries have been masked", ti, subs[0] if subs else ti.node,
                  construct=f"start_index subtraction: {norm_text(subs[0]) if subs else 'absent'}")
        raw = [n for n in walk_no_nested(ti.node) if isinstance(n, ast.Assign) and norm_text(n.targets[0]) == 'values' and cfg.dominates(n, branch)]
        ok_raw = len(raw) == 1 and norm_text(raw[0].value) == f"{da}.values"
        ctx.check('R10.1', ok_raw and not other_sub, "the values compared with the fill value are the stored ones (no arithmetic before masking)", ti,
                  raw[0] if raw else ti.node, construct=f"values before masking: {[norm_text(r.value) for r in raw]}; other arithmetic: {[norm_text(o) for o in other_sub]}")
        if subs:
            g = [(norm_text(st.test), inb) for st, inb in enclosing_ifs(ti, subs[0])]
            arg_ok = flow.reaches(subs[0].value.right, lambda m: isinstance(m, ast.Call) and callee(ctx, ti, m) == f"{UGRID}._get_start_index"
                                  and len(m.args) == 1 and norm_text(m.args[0]) == da)
            ctx.check('R10.1', arg_ok and norm_text(subs[0].targets[0]) == 'values' and norm_text(subs[0].value.left) == 'values',
                      "the offset subtracted is this table's own start_index", ti, subs[0])
            # the shift is applied whenever there is one to apply: unconditionally, or exactly under `start_index != 0`
            si_ = norm_text(subs[0].value.right)
            allowed_ = {(f"{si_} != 0", True), (f"{si_} == 0", False), (si_, True), (f"0 != {si_}", True), (f"0 == {si_}", False)}
            about_ = [(t, inb) for t, inb in g if si_ in t]
            ctx.check('R10.1', all(x in allowed_ for x in about_) and len(about_) == len(g) - len([1 for t, _ in g if si_ not in t]) and not [1 for t, _ in g if si_ not in t],
                      "start_index is subtracted whenever it is not zero (a one-based table is always shifted, whatever else the file says)", ti, subs[0],
                      construct=f"subtraction under {g or 'no condition'}")
        rets = ti.returns()
        ctx.check('R10.1', bool(rets) and all(norm_text(r.value) == 'values' for r in rets), "the normalised array is returned", ti, rets[0] if rets else ti.node)
        gs = ctx.func(f"{UGRID}._get_start_index")
        gflow = ctx.flow(gs)
        # the function is folded over the values the attribute can hold (absent, the two integers, the same as floats and as text, others)
        from .common import Undecided, fold_function
        p0_ = gs.params[0]
        want_si = [({}, ('return', 0)), ({'start_index': 0}, ('return', 0)), ({'start_index': 1}, ('return', 1)), ({'start_index': 1.0}, ('return', 1)),
                   ({'start_index': 0.0}, ('return', 0)), ({'start_index': '0'}, ('return', 0)), ({'start_index': '1'}, ('return', 1)),
                   ({'start_index': 2}, ('raise', 'ConventionViolationError')), ({'start_index': -1}, ('raise', 'ConventionViolationError')),
                   ({'start_index': 'one'}, ('raise', 'ConventionViolationError')), ({'start_index': '2'}, ('raise', 'ConventionViolationError')),
                   ({'start_index': 0.5}, ('raise', 'ConventionViolationError'))]
        got_si = []
        ok = True
        for attrs_, expect in want_si:
            try:
                out_ = fold_function(gs, {f"{p0_}.attrs": attrs_})
            except Undecided as exc:
                out_ = ('undecided', str(exc))
            got_si.append((attrs_.get('start_index', '<absent>'), out_))
            # an index base is an integer: 1.0 returned as it is would turn the index arrays into floats
            ok = ok and out_ == expect and (out_[0] != 'return' or type(out_[1]) is int)
        ctx.check('R10.1', ok, "start_index is 0 when absent, 0/1 converted to int (a float-typed attribute 1.0 passes the membership test: returned as it is, it would turn the index arrays into floats), '0'/'1' converted, anything else is a ConventionViolationError", gs, gs.node,
                  construct=f"_get_start_index folded over attribute values: {got_si}"[:400])
        # who may read raw connectivity values
        offenders = []
        for fi in p.functions.values():
            if not fi.qualname.startswith(UGRID) or fi.qualname == ti.qualname:
                continue
            for n in ast.walk(fi.node):
                if isinstance(n, ast.Attribute) and n.attr in ('values', 'data', 'to_numpy') and 'connectivity' in norm_text(n.value) \
                        and 'clip_mask' not in norm_text(n.value):
                    offenders.append((fi, n))
        ctx.check('R10.1', not offenders, "no other code reads the raw values of a connectivity variable", offenders[0][0] if offenders else ti,
                  offenders[0][1] if offenders else ti.node, construct='raw connectivity reads outside _to_index_array: ' +
                  (', '.join(f"{f.short}: {norm_text(n)}" for f, n in offenders) or 'none'))

        from .common import purity_obligations
        purity_obligations(ctx, 'R10.6', ti, [da], "_to_index_array")

    with ctx.section('R10.1 start index'):
        from . import infra as _infra
        _infra.start_index_source(ctx, 'R10.1')
    with ctx.section('R10.2 fill range'):
        _infra.face_edge_fill_range(ctx, 'R10.2')
    with ctx.section('R10.5 counts'):
        _infra.mesh_counts(ctx, 'R10.5')

    # ------------------------------------------------------------------ R10.2
    with ctx.section('R10.2'):
        for tab in TABLES:
            a, b = tab.split('_')
            arr = ctx.func(f"{TOPO}.{tab}_array")
            aflow = ctx.flow(arr)
            norm = [c for c in method_calls(arr, '_to_index_array') if norm_text(c.func.value) == 'self']
            ok = (len(norm) == 1 and len(norm[0].args) == 2 and norm_text(norm[0].args[0]) == f"self.{tab}_connectivity"
                  and norm_text(norm[0].args[1]) == f"self.{a}_dimension")
            ctx.check('R10.2', ok, f"{tab}: the supplied table is normalised with its row ({a}) dimension as primary dimension", arr,
                      norm[0] if norm else arr.node, construct=f"{tab}_array: {norm_text(norm[0]) if norm else 'no _to_index_array call'}")
            if tab == 'face_node':
                ctx.check('R10.2', bool(norm) and not enclosing_ifs(arr, norm[0]) and all(aflow.resolve(r.value) is norm[0] for r in arr.returns()),
                          "face_node: the required table is always the supplied one", arr, arr.node, construct='face_node_array returns the normalised table')
            else:
                from .common import path_conditions
                valid = f"self.has_valid_{tab}_connectivity"
                allowed = {('self.has_edge_dimension', True)}
                used = [r for r in arr.returns() if aflow.resolve(r.value) is norm[0]] if norm else []
                g = [(norm_text(t), pol) for t, pol in path_conditions(arr, used[0])] if used else []
                ok = len(used) == 1 and (valid, True) in g and set(g) <= allowed | {(valid, True)}
                ctx.check('R10.2', ok, f"{tab}: the supplied table is used exactly when has_valid_{tab}_connectivity", arr, used[0] if used else arr.node,
                          construct=f"supplied table returned under {g}")
                fall = [r for r in arr.returns() if norm_text(aflow.resolve(r.value)) == f"self.make_{tab}_array()"]
                gf = [(norm_text(t), pol) for t, pol in path_conditions(arr, fall[0])] if fall else []
                ctx.check('R10.2', len(fall) == 1 and (valid, False) in gf and set(gf) <= allowed | {(valid, False)} and len(arr.returns()) == 2,
                          f"{tab}: otherwise it is derived by make_{tab}_array()", arr, fall[0] if fall else arr.node,
                          construct=f"fallback: {norm_text(fall[0]) if fall else 'absent'} under {gf}")
                hv = ctx.func(f"{TOPO}.has_valid_{tab}_connectivity")
                body_txt = [norm_text(s) for s in hv.body]
                lookups = [n for n in ast.walk(hv.node) if isinstance(n, ast.Subscript) and norm_text(n.value) == 'self.mesh_attributes']
                keys = {const_value(n.slice, None) for n in lookups}
                ctx.check('R10.2', keys == {f"{tab}_connectivity"}, f"{tab}: validity is judged on the table named by the {tab}_connectivity attribute", hv,
                          lookups[0] if lookups else hv.node, construct=f"attribute keys read: {sorted(str(k) for k in keys)}")
                if a == 'edge' or b == 'edge' and False:
                    first = hv.body[0] if hv.body else None
                    ok = isinstance(first, ast.If) and norm_text(first.test) == 'not self.has_edge_dimension' and \
                        all(isinstance(s, ast.Return) and const_value(s.value, None) is False for s in first.body)
                    ctx.check('R10.2', ok, f"{tab}: an edge table is valid only on a mesh that has an edge dimension (declared or implied)", hv,
                              first or hv.node, construct=f"first test: {norm_text(first.test) if isinstance(first, ast.If) else 'absent'}")
                exp = [n for n in walk_no_nested(hv.node) if isinstance(n, ast.Assign) and norm_text(n.targets[0]) == 'expected']
                want = {f"self.{a}_dimension", f"self.{SECOND_DIM[tab]}"}
                got = {norm_text(e) for e in exp[0].value.elts} if exp and isinstance(exp[0].value, ast.Set) else set()
                ctx.check('R10.2', got == want, f"{tab}: expected dimensions are {{{a} dimension, {SECOND_DIM[tab]}}}", hv, exp[0] if exp else hv.node,
                          construct=f"expected = {sorted(got)}")
                cmp_ok = any(isinstance(n, ast.If) and norm_text(n.test) == 'actual != expected' and
                             any(isinstance(s, ast.Return) and const_value(s.value, None) is False for s in n.body) for n in walk_no_nested(hv.node))
                act = [n for n in walk_no_nested(hv.node) if isinstance(n, ast.Assign) and norm_text(n.targets[0]) == 'actual']
                ok = cmp_ok and bool(act) and norm_text(act[0].value) == 'set(data_array.dims)'
                ok = ok and any(isinstance(s, ast.Return) and const_value(s.value, None) is True for s in hv.body[-1:])
                ctx.check('R10.2', ok, f"{tab}: a table with other dimensions is not used (warning, False); a matching one is valid", hv, hv.node,
                          construct='actual = set(data_array.dims); if actual != expected: return False; ...; return True')
            conn = ctx.func(f"{TOPO}.{tab}_connectivity")
            lookups = [n for n in ast.walk(conn.node) if isinstance(n, ast.Subscript) and norm_text(n.value) == 'self.mesh_attributes']
            keys = {const_value(n.slice, None) for n in lookups}
            ok = keys == {f"{tab}_connectivity"} and all('self.dataset' in norm_text(r.value) and norm_text(r.value).endswith('[name]') for r in conn.returns())
            ctx.check('R10.2', ok, f"{tab}: the connectivity variable is the one named by the mesh attribute {tab}_connectivity", conn, conn.node,
                      construct=f"{tab}_connectivity reads attribute {sorted(str(k) for k in keys)}")

    # ------------------------------------------------------------------ R10.3
    with ctx.section('R10.3'):
        from .common import expand_locals as _x103
        for elem in ('node', 'edge', 'face'):
            # the pair of names may be kept in a private property or split where it is used: either way it is _split_coord(<the attribute>)
            coord = p.functions.get(f"{TOPO}._{elem}_coordinates")
            pair_text = f"_split_coord(self.mesh_attributes['{elem}_coordinates'])"
            if coord is not None:
                ok = all(norm_text(r.value) == pair_text for r in coord.returns()) and coord.returns()
                ctx.check('R10.3', bool(ok), f"{elem} coordinate names come from the {elem}_coordinates attribute", coord, coord.node)
            for i, axis in enumerate('xy'):
                fi = ctx.func(f"{TOPO}.{elem}_{axis}")
                fl = ctx.flow(fi)
                wanted = {f"{pair_text}[{i}]"} | ({f"self._{elem}_coordinates[{i}]"} if coord is not None else set())
                subs = [n for n in ast.walk(fi.node) if isinstance(n, ast.Subscript) and isinstance(n.ctx, ast.Load) and norm_text(n.value) in ('self.dataset', 'self.dataset.variables')]
                good = [n for n in subs if norm_text(_x103(fl, n.slice)) in wanted]
                narrow = [n for n in ast.walk(fi.node) if isinstance(n, ast.Attribute) and n.attr in ('data_vars', 'coords') and norm_text(n.value) == 'self.dataset']
                ok = len(subs) >= 1 and len(good) == len(subs) and not narrow
                ctx.check('R10.3', ok, f"{elem}_{axis} is element {i} of that pair, looked up dataset-wide (a coordinate named by a CF `coordinates` attribute is held as an "
                          "xarray coordinate, not as a data variable)", fi, (narrow or subs or [fi.node])[0],
                          construct=f"{elem}_{axis}: lookups {[norm_text(n)[:60] for n in subs] or 'not found'}; narrowed to {[norm_text(n) for n in narrow] or 'nothing'}")
        sc = ctx.func(f"{UGRID}._split_coord")
        from ..pattern import Matcher as _M
        msc = _M(ctx, sc)
        # every name is a whole blank-separated word: a single split (maxsplit=1) would leave 'y ' or 'y z' as the second name
        ok = (msc.stmt('$x, $y = $attr.split()[:2]') is not None or msc.stmt('$x, $y, *$rest = $attr.split()') is not None) \
            and msc.name('attr') == sc.params[0] and bool(sc.returns()) and all(norm_text(r.value) == f"({msc.name('x')}, {msc.name('y')})" for r in sc.returns())
        ctx.check('R10.3', ok, "the attribute is split into blank-separated words and (first, second) are the x and y names, in that order; trailing blanks or further names (an elevation coordinate) do not end up in the y name", sc, sc.node)

    # ------------------------------------------------------------------ R10.4
    with ctx.section('R10.4'):
        from ..pattern import Matcher

        def first(m, *alts, within=None):
            """The statement matched by the first alternative that matches exactly once."""
            for a_ in alts:
                st = m.stmt(a_, within)
                if st is not None:
                    return st
            return None

        def table_shape(fi):
            """Shape expression of the numpy.full(...) that the masked table is built from, resolved through locals."""
            fl = ctx.flow(fi)
            mm = Matcher(ctx, fi)
            st = mm.stmt('$table = numpy.ma.masked_array($filled, mask=True)')
            if st is None:
                return None, None
            full = [c for c in calls_in(fi) if callee(ctx, fi, c) == 'numpy.full']
            fuse = next((n for n in ast.walk(st.value) if isinstance(n, ast.Name) and n.id == mm.name('filled')), None)
            if len(full) != 1 or fuse is None or fl.resolve(fuse) is not full[0] or not full[0].args:
                return None, mm.name('table')
            fillv = full[0].args[1] if len(full[0].args) >= 2 else kwarg(full[0], 'fill_value')
            ok_fill = fillv is not None and norm_text(fillv) == 'self.sensible_fill_value'
            return (norm_text(fl.resolve(full[0].args[0])) if ok_fill else None), mm.name('table')

        it = ctx.func(f"{TOPO}._face_and_node_pair_iter")
        iflow = ctx.flow(it)
        ys = [n for n in ast.walk(it.node) if isinstance(n, ast.Yield)]
        ok = False
        detail = ''
        if len(ys) == 1 and isinstance(ys[0].value, ast.Tuple) and len(ys[0].value.elts) == 2:
            fexpr, pexpr = ys[0].value.elts
            ENUM = ('call', ('global', 'enumerate'), (('attr', ('param', 'self'), 'face_node_array'),), ())
            fc = iflow.canon(fexpr)
            pe = iflow.resolve(pexpr)
            if isinstance(pe, ast.Call) and isinstance(pe.func, ast.Name) and pe.func.id == 'list' and len(pe.args) == 1:
                pe = iflow.resolve(pe.args[0])
            if isinstance(pe, ast.Call) and callee(ctx, it, pe) in ('emsarray.utils.pairwise', 'itertools.pairwise') and len(pe.args) == 1:
                xc = iflow.canon(pe.args[0])
                detail = norm_text(iflow.resolve(pe.args[0]))
                okf = isinstance(fc, tuple) and fc[:3] == ('iter', ENUM, (0,))
                okx = False
                if isinstance(xc, tuple) and xc[0] == 'call' and xc[1] == ('attr', ('global', 'numpy'), 'append') and len(xc[2]) == 2 and not xc[3]:
                    c1, c2 = xc[2]
                    row_ok = (isinstance(c1, tuple) and c1[0] == 'call' and isinstance(c1[1], tuple) and c1[1][0] == 'attr' and c1[1][2] == 'compressed'
                              and isinstance(c1[1][1], tuple) and c1[1][1][:3] == ('iter', ENUM, (1,)) and not c1[2])
                    okx = row_ok and c2 == ('sub', c1, ('const', '0'))
                ok = okf and okx
        ctx.check('R10.4', ok, "a face's edges are its consecutive node pairs, closing back to the first node, over the normalised face-node table", it,
                  ys[0] if ys else it.node, construct=f"yield face, pairwise({detail})")
        pw = ctx.func('emsarray.utils.pairwise')
        mp = Matcher(ctx, pw)
        ok = mp.ordered(f"$a, $b = itertools.tee({pw.params[0]})", 'next($b, None)', 'return zip($a, $b)') and len([s_ for s_ in pw.body if not (isinstance(s_, ast.Expr) and isinstance(s_.value, ast.Constant))]) == 3
        ctx.check('R10.4', ok, "pairwise yields (s0,s1), (s1,s2), ...", pw, pw.node)
        me = ctx.func(f"{TOPO}.make_edge_node_array")
        mm = Matcher(ctx, me)
        lp = first(mm, "for $f, $pairs in self._face_and_node_pair_iter():\n    for $pair in $pairs:\n        $low, $high = sorted($pair)\n        $lh[$low].add($high)",
                   "for $f, $pairs in self._face_and_node_pair_iter():\n    for $pair in $pairs:\n        $lh[min($pair)].add(max($pair))")
        ok = lp is not None and mm.stmt('$lh = defaultdict(set)') is not None \
            and first(mm, 'return numpy.array([[$a, $b] for $a, $bs in $lh.items() for $b in $bs], dtype=self.sensible_dtype)',
                      'return numpy.array([[$a, $b] for $a in $lh for $b in $lh[$a]], dtype=self.sensible_dtype)') is not None
        ctx.check('R10.4', ok, "edges are de-duplicated by sorted (unordered) node pair over that iterator", me, lp or me.node)
        mf = ctx.func(f"{TOPO}.make_face_edge_array")
        mm = Matcher(ctx, mf)
        ok = mm.stmt('$map = {frozenset($e): $i for $i, $e in enumerate(self.edge_node_array)}') is not None \
            or mm.has('$en = self.edge_node_array', '$map = dict(zip(map(frozenset, $en), range(len($en))))') \
            or mm.stmt('$map = dict(zip(map(frozenset, self.edge_node_array), range(len(self.edge_node_array))))') is not None
        shp, tbl = table_shape(mf)
        if ok and tbl:
            mm.bind['fe'] = tbl
        lp = first(mm, "for $f, $pairs in self._face_and_node_pair_iter():\n    for $col, $pair in enumerate($pairs):\n        $ei = $map[frozenset($pair)]\n        $fe[$f, $col] = $ei",
                   "for $f, $pairs in self._face_and_node_pair_iter():\n    for $col, $pair in enumerate($pairs):\n        $fe[$f, $col] = $map[frozenset($pair)]",
                   # the leading columns of the row in one assignment
                   "for $f, $pairs in self._face_and_node_pair_iter():\n    $row = [$map[frozenset($pair)] for $pair in $pairs]\n    $fe[$f, :len($row)] = $row") if ok else None
        ctx.check('R10.4', ok and lp is not None, "face-edge: column k of a face is the edge (looked up by unordered pair in the edge-node table in use) of its k-th node pair", mf, lp or mf.node)
        derivation_loops = {'make_face_edge_array': lp}
        ctx.check('R10.4', shp == '(self.face_count, self.max_node_count)', "face-edge has one row per face and max_node_count columns", mf,
                  mf.node, construct=f"face_edge table shape {shp}")
        mef = ctx.func(f"{TOPO}.make_edge_face_array")
        mm = Matcher(ctx, mef)
        shp, tbl = table_shape(mef)
        if tbl:
            mm.bind['ef'] = tbl
        lp = first(mm, "for $f, $edges in enumerate(self.face_edge_array):\n    for $e in $edges.compressed():\n        $ef[$e, $cnt[$e]] = $f\n        $cnt[$e] += 1",
                   "for $f, $edges in enumerate(self.face_edge_array):\n    for $e in $edges.compressed():\n        $ef[$e, $cnt[$e]] = $f\n        $cnt[$e] = $cnt[$e] + 1")
        ok = lp is not None and shp == '(self.edge_count, 2)' and mm.stmt('$cnt = numpy.zeros(self.edge_count, dtype=self.sensible_dtype)') is not None
        ctx.check('R10.4', ok, "edge-face: every face is recorded on each of its edges, in the next free of two slots", mef, lp or mef.node,
                  construct=f"edge_face shape {shp}; loop {'recognised' if lp is not None else 'not recognised'}")
        derivation_loops['make_edge_face_array'] = lp
        mff = ctx.func(f"{TOPO}.make_face_face_array")
        mm = Matcher(ctx, mff)
        shp, tbl = table_shape(mff)
        if tbl:
            mm.bind['ff'] = tbl
        heads = ["for $e, $pair in enumerate(self.edge_face_array):", "for $pair in self.edge_face_array:"]
        skips = ["    if numpy.any(numpy.ma.getmask($pair)):\n        continue", "    if numpy.ma.getmask($pair).any():\n        continue",
                 "    if numpy.ma.is_masked($pair):\n        continue"]
        bodies = ["    $l, $r = $pair\n    $ff[$l, $cnt[$l]] = $r\n    $ff[$r, $cnt[$r]] = $l\n    $cnt[$l] += 1\n    $cnt[$r] += 1",
                  "    $l, $r = $pair\n    $ff[$l, $cnt[$l]] = $r\n    $cnt[$l] += 1\n    $ff[$r, $cnt[$r]] = $l\n    $cnt[$r] += 1"]
        keeps = ["    if not numpy.any(numpy.ma.getmask($pair)):", "    if not numpy.ma.getmask($pair).any():"]
        lp = first(mm, *([f"{h}\n{sk}\n{b_}" for h in heads for sk in skips for b_ in bodies]
                         + [f"{h}\n{kp}\n" + '\n'.join('    ' + line for line in b_.split('\n')) for h in heads for kp in keeps for b_ in bodies]))
        if lp is None:
            # the interior edges picked at once: rows of the edge-face table without a missing entry
            pick = mm.ordered('$boundary = numpy.ma.getmaskarray(self.edge_face_array).any(axis=1)', '$interior = numpy.flatnonzero(~$boundary)')
            if pick:
                lp = first(mm, *[f"for $l, $r in numpy.ma.getdata(self.edge_face_array)[$interior]:\n" + '\n'.join(line for line in b_.split('\n')[1:]) for b_ in bodies])
        ok = lp is not None and mm.stmt('$cnt = numpy.zeros(self.face_count, dtype=self.sensible_dtype)') is not None
        ctx.check('R10.4', ok, "face-face: each interior edge links its two faces in both directions (symmetric adjacency); boundary edges are skipped", mff, lp or mff.node)
        derivation_loops['make_face_face_array'] = lp
        for name in ('make_edge_face_array', 'make_face_face_array', 'make_face_edge_array'):
            fi = ctx.func(f"{TOPO}.{name}")
            shp, tbl = table_shape(fi)
            fl_ = ctx.flow(fi)
            made = [c for c in calls_in(fi) if callee(ctx, fi, c) == 'numpy.ma.masked_array']
            ok = tbl is not None and shp is not None and len(made) == 1 and bool(fi.returns()) and all(fl_.resolve(r.value) is made[0] for r in fi.returns())
            ctx.check('R10.4', ok, "derived tables start fully masked, so unused slots stay missing", fi, fi.node, construct=f"{name}: masked_array(filled, mask=True)")
            # one derivation: nothing but the loop judged above writes into the table (no second, cheaper way for some datasets),
            # and no exit comes before that loop has run
            lp_ = derivation_loops.get(name)
            stores = [n for n in ast.walk(fi.node) if isinstance(n, ast.Subscript) and isinstance(n.ctx, ast.Store) and isinstance(n.value, ast.Name) and n.value.id == tbl]
            outside = [n for n in stores if lp_ is None or not any(x is n for x in ast.walk(lp_))]
            early = [r for r in fi.returns() if lp_ is not None and r.lineno < lp_.lineno]
            ctx.check('R10.4', lp_ is not None and not outside and not early, "the table is filled by that one derivation and returned after it", fi, (outside or early or [fi.node])[0],
                      construct=f"{name}: stores outside the derivation loop: {len(outside)}, exits before it: {len(early)}")

    # ------------------------------------------------------------------ R10.5
    with ctx.section('R10.5'):
        fd = ctx.func(f"{TOPO}.face_dimension")
        rv = [norm_text(r.value) for r in fd.returns()]
        ctx.check('R10.5', rv == ["self.mesh_attributes['face_dimension']", 'self.face_node_connectivity.dims[0]'],
                  "face dimension: the face_dimension attribute, else the first dimension of face_node_connectivity", fd, fd.node, construct=f"returns {rv}")
        nd = ctx.func(f"{TOPO}.node_dimension")
        ctx.check('R10.5', [norm_text(r.value) for r in nd.returns()] == ['self.node_x.dims[0]'], "node dimension: the dimension of node_x", nd, nd.node)
        mn = ctx.func(f"{TOPO}.max_node_dimension")
        txt = [norm_text(s) for s in mn.body]
        ok = 'dims = set(self.face_node_connectivity.dims)' in txt and 'dims.remove(self.face_dimension)' in txt and 'return dims.pop()' in txt
        ctx.check('R10.5', ok, "max-node dimension: the other dimension of face_node_connectivity", mn, mn.node)
        ed = ctx.func(f"{TOPO}.edge_dimension")
        from .common import facts as _facts10, spell_out as _spell10
        edflow = ctx.flow(ed)
        keys_ed = {n.value for n in ast.walk(ed.node) if isinstance(n, ast.Constant) and isinstance(n.value, str) and n.value.endswith('_connectivity')}
        refusals = [n for n in walk_no_nested(ed.node) if isinstance(n, ast.Raise) and ('self.has_edge_dimension', False) in _facts10(ctx, ed, n)]
        attr_ret = [r for r in ed.returns() if norm_text(_spell10(ed, edflow.resolve(r.value))) == "self.mesh_attributes['edge_dimension']"]
        infer_ret = [r for r in ed.returns() if r not in attr_ret]
        # the inferred dimension is dimension 0 of a variable the mesh names under an edge table key and the dataset holds
        tests_ed = {norm_text(_spell10(ed, n)) for n in ast.walk(ed.node) if isinstance(n, ast.Compare) and len(n.ops) == 1 and isinstance(n.ops[0], (ast.In, ast.NotIn))}
        dims_ed = [n for n in ast.walk(ed.node) if isinstance(n, ast.Subscript) and isinstance(n.value, ast.Attribute) and n.value.attr == 'dims']
        asked = any(t.endswith(' in self.mesh_attributes') or t.endswith(' not in self.mesh_attributes') for t in tests_ed if not t.startswith("'edge_dimension'")) \
            and any(t.endswith(' in self.dataset.variables') or t.endswith(' not in self.dataset.variables') for t in tests_ed)
        ok = (bool(refusals) and len(attr_ret) == 1 and len(infer_ret) == 1 and keys_ed == {'edge_node_connectivity', 'edge_face_connectivity'}
              and bool(dims_ed) and all(const_value(n.slice, None) == 0 for n in dims_ed) and asked
              and any(x is dims_ed[0] for x in ast.walk(infer_ret[0])) or (len(infer_ret) == 1 and bool(dims_ed) and edflow.reaches(infer_ret[0].value, lambda n: n is dims_ed[0])
                                                                          and bool(refusals) and len(attr_ret) == 1 and keys_ed == {'edge_node_connectivity', 'edge_face_connectivity'}
                                                                          and all(const_value(n.slice, None) == 0 for n in dims_ed) and asked))
        ctx.check('R10.5', bool(ok), "edge dimension: the edge_dimension attribute, else the first dimension of a supplied edge table", ed, ed.node)
        # the declared attribute wins over the inferred dimension (a transposed table would otherwise name the wrong one)
        declared = ("'edge_dimension' in self.mesh_attributes", True)
        ok = (len(attr_ret) == 1 and len(infer_ret) == 1 and declared in _facts10(ctx, ed, attr_ret[0]) and (declared[0], False) in _facts10(ctx, ed, infer_ret[0]))
        ctx.check('R10.5', ok, "the edge_dimension attribute is consulted first; the first dimension of an edge table is only the fall-back", ed,
                  attr_ret[0] if attr_ret else ed.node, construct=f"edge_dimension returns, in order: {[norm_text(r.value) for r in sorted(ed.returns(), key=lambda r: r.lineno)]}")
        tw = ctx.func(f"{TOPO}.two_dimension")
        mt = Matcher(ctx, tw)
        std = mt.stmt("if $two in self.dataset.sizes and self.dataset.sizes[$two] == 2:\n    return $two")
        two_literal = False
        if std is None:
            # the standard name written as the literal it is
            std = mt.stmt("if 'Two' in self.dataset.sizes and self.dataset.sizes['Two'] == 2:\n    return 'Two'")
            two_literal = std is not None
        # "the first dimension of size 2, else `two`": a first-match loop reads as next((name for name, size in sizes.items() if size == 2), two)
        scan = []
        for r in tw.returns():
            v = r.value
            if isinstance(v, ast.Call) and dotted(v.func) == 'next' and len(v.args) == 2 and isinstance(v.args[0], ast.GeneratorExp) and len(v.args[0].generators) == 1:
                g_ = v.args[0].generators[0]
                if norm_text(g_.iter) == 'self.dataset.sizes.items()' and isinstance(g_.target, ast.Tuple) and len(g_.target.elts) == 2 \
                        and norm_text(v.args[0].elt) == norm_text(g_.target.elts[0]) and [norm_text(t) for t in g_.ifs] == [f"{norm_text(g_.target.elts[1])} == 2"]:
                    scan.append(r)
        two_def = [n for n in walk_no_nested(tw.node) if isinstance(n, ast.Assign) and const_value(n.value, None) == 'Two']
        if two_literal:
            ok = len(scan) == 1 and std.lineno < scan[0].lineno and scan[0] is tw.returns()[-1] and const_value(scan[0].value.args[1], None) == 'Two'
        else:
            ok = std is not None and len(scan) == 1 and std.lineno < scan[0].lineno and len(two_def) == 1 and mt.name('two') == norm_text(two_def[0].targets[0]) \
                and scan[0] is tw.returns()[-1] and norm_text(scan[0].value.args[1]) == mt.name('two')
        ctx.check('R10.5', ok, "without an edge table to say, the size-2 dimension is the one named 'Two' when it exists with size 2, else the first dimension of size 2, else a new 'Two'", tw, tw.node,
                  construct='two_dimension: standard name first, then any size-2 dimension, then the standard name')
        # an unrelated dimension of size two (exactly two time steps) must not be taken for the pair dimension
        # while an edge table is there to say which one it is
        from .common import facts as _facts
        twflow = ctx.flow(tw)
        pref = None
        why = []
        for r in tw.returns():
            if not isinstance(r.value, ast.Name):
                continue
            fs = _facts(ctx, tw, r, expand=False)
            rv_ = r.value.id
            not_edge = (f"{rv_} == self.edge_dimension", False) in fs or (f"self.edge_dimension == {rv_}", False) in fs
            size_two = (f"self.dataset.sizes[{rv_}] == 2", True) in fs
            has_edges = ('self.has_edge_dimension', True) in fs
            declared_only = any("'edge_dimension' in" in t for t, pol in fs)
            # the returned name runs over ALL dimensions of the table (not one picked position) ...
            d_ = twflow.defs_of(r.value)
            all_dims = len(d_) == 1 and d_[0].kind == 'iter' and isinstance(d_[0].value, ast.Attribute) and d_[0].value.attr == 'dims'
            table = d_[0].value.value if all_dims else None
            # ... of a variable named by the mesh attribute of an edge table key, for BOTH edge tables, and present in the dataset
            tname = table.slice if isinstance(table, ast.Subscript) and norm_text(table.value) in ('self.dataset.variables', 'self.dataset') else None
            keys_ = set()
            present = False
            if isinstance(tname, ast.Name):
                present = (f"{tname.id} in self.dataset.variables", True) in fs
                for dn in twflow.defs_of(tname):
                    v_ = dn.value
                    if isinstance(v_, ast.Call) and isinstance(v_.func, ast.Attribute) and v_.func.attr == 'get' and norm_text(v_.func.value) == 'self.mesh_attributes' and v_.args \
                            and isinstance(v_.args[0], ast.Name):
                        for dk in twflow.defs_of(v_.args[0]):
                            if dk.kind == 'iter':
                                it_ = twflow.resolve(dk.value)
                                if isinstance(it_, ast.IfExp):
                                    it_ = it_.body if isinstance(it_.body, (ast.Tuple, ast.List)) and it_.body.elts else it_.orelse
                                if isinstance(it_, (ast.Tuple, ast.List)):
                                    keys_ |= {const_value(e, None) for e in it_.elts}
            both = keys_ == {'edge_node_connectivity', 'edge_face_connectivity'}
            why.append((rv_, dict(not_edge=not_edge, size_two=size_two, has_edges=has_edges, all_dims=all_dims, both_tables=both, present=present)))
            if not_edge and size_two and has_edges and not declared_only and all_dims and both and present:
                pref = r
        ok = pref is not None and len(scan) == 1 and std is not None and pref.lineno < std.lineno < scan[0].lineno
        ctx.check('R10.5', ok, "the pair dimension is first of all the size-2 dimension of a supplied edge table other than the edge dimension (something unrelated may be using the name 'Two'): "
                  "any dimension of either edge table (edge_node or edge_face) that the dataset holds, whichever position it is stored in; only then the name 'Two', then any dimension of size 2", tw,
                  pref or tw.node, construct=f"returns of a loop variable: {why}"[:500])
        he = ctx.func(f"{TOPO}.has_edge_dimension")
        txt = ' '.join(norm_text(s) for s in he.body)
        ok = "if 'edge_dimension' in self.mesh_attributes: return True" in txt.replace('\n', ' ') and all(
            f"'{k}' in self.mesh_attributes and self.mesh_attributes['{k}'] in self.dataset.variables" in txt for k in ('edge_node_connectivity', 'edge_face_connectivity'))
        # ... by EITHER table: the last return is the disjunction of the two tests (one supplied edge table is enough to number the edges)
        rets_he = he.returns()
        last_ = rets_he[-1].value if rets_he else None
        either = isinstance(last_, ast.BoolOp) and isinstance(last_.op, ast.Or) and len(last_.values) == 2 and all(
            any(f"'{k}' in self.mesh_attributes" in norm_text(v) for v in last_.values) for k in ('edge_node_connectivity', 'edge_face_connectivity'))
        if not either and isinstance(last_, ast.Call) and isinstance(last_.func, ast.Name) and last_.func.id == 'any':
            either = True
        ctx.check('R10.5', ok and either, "an edge dimension exists when declared, or implied by a supplied edge table present in the dataset (either table is enough)", he, he.node,
                  construct=f"has_edge_dimension: {norm_text(last_)[:120] if last_ is not None else '?'}")
        for name, dim in (('node_count', 'node_dimension'), ('face_count', 'face_dimension'), ('max_node_count', 'max_node_dimension')):
            fi = ctx.func(f"{TOPO}.{name}")
            ok = [norm_text(r.value) for r in fi.returns()] == [f"self.dataset.sizes[self.{dim}]"]
            ctx.check('R10.5', ok, f"{name} is the size of {dim}", fi, fi.node)



# --------------------------------------------------------------------------- checker self-test
from ..variants import V  # noqa: E402

_U = 'src/emsarray/conventions/ugrid.py'
VARIANTS = [
    V('C10', 'edge-dimension-needs-both-tables', 'src/emsarray/conventions/ugrid.py', "        return any(\n            key in self.mesh_attributes\n            and self.mesh_attributes[key] in self.dataset.variables", "        return all(\n            key in self.mesh_attributes\n            and self.mesh_attributes[key] in self.dataset.variables", 'R10.5'),
    V('C10', 'well-formed-face-node-table-refused', 'src/emsarray/conventions/ugrid.py', "        if actual != expected:\n            warnings.warn(\n                f\"Got a face_node_connectivity variable", "        if actual == expected:\n            warnings.warn(\n                f\"Got a face_node_connectivity variable", 'R10.9'),
    V('C10', 'one-based-not-shifted', 'src/emsarray/conventions/ugrid.py', "        if start_index != 0:\n            values = values - start_index", "        if start_index == 0:\n            values = values - start_index", 'R10.1'),
    V('C10', 'benign-shift-unconditional', 'src/emsarray/conventions/ugrid.py', "        if start_index != 0:\n            values = values - start_index", "        values = values - start_index", None),
    V('C10', 'pair-dimension-any-size-two', _U, "        if self.has_edge_dimension:\n            for key in ['edge_node_connectivity', 'edge_face_connectivity']:\n                name = self.mesh_attributes.get(key)\n                if name in self.dataset.variables:\n                    for dimension in self.dataset.variables[name].dims:\n                        if dimension != self.edge_dimension and self.dataset.sizes[dimension] == 2:\n                            return dimension\n", "", 'R10.5'),
    V('C10', 'start-index-not-subtracted', _U, "        if start_index != 0:\n            values = values - start_index\n\n        return values", "        return values", 'R10.1'),
    V('C10', 'start-index-before-masking', _U, "        values = data_array.values\n\n        if not issubclass", "        values = data_array.values - _get_start_index(data_array)\n\n        if not issubclass", 'R10.1'),
    V('C10', 'transpose-test-last-dim', _U, "        if data_array.dims[0] != primary_dimension:\n            data_array = data_array.transpose()", "        if data_array.dims[-1] != primary_dimension:\n            data_array = data_array.transpose()", 'R10.1'),
    V('C10', 'fill-from-encoding', _U, "        elif '_FillValue' in data_array.attrs:", "        elif '_FillValue' in data_array.encoding:", 'R10.1'),
    V('C10', 'start-index-two-allowed', _U, "    if start_index in {0, 1}:\n", "    if start_index in {0, 1, 2}:\n", 'R10.1'),
    V('C10', 'array-bypasses-normaliser', _U, "        if self.has_valid_edge_face_connectivity:\n            return self._to_index_array(\n                self.edge_face_connectivity, self.edge_dimension)", "        if self.has_valid_edge_face_connectivity:\n            return numpy.ma.masked_invalid(self.edge_face_connectivity.values).astype(int)", 'R10.2'),
    V('C10', 'derived-preferred', _U, "        if self.has_valid_face_edge_connectivity:\n            return self._to_index_array(\n                self.face_edge_connectivity, self.face_dimension)\n\n        return self.make_face_edge_array()", "        return self.make_face_edge_array()", 'R10.2'),
    V('C10', 'face-face-primary-wrong', _U, "                self.face_face_connectivity, self.face_dimension)", "                self.face_face_connectivity, self.max_node_dimension)", 'R10.2'),
    V('C10', 'edge-node-guard-declared-only', _U, "        if not self.has_edge_dimension:\n            return False\n\n        try:\n            data_array = self.dataset.data_vars[self.mesh_attributes[\"edge_node_connectivity\"]]", "        if 'edge_dimension' not in self.mesh_attributes:\n            return False\n\n        try:\n            data_array = self.dataset.data_vars[self.mesh_attributes[\"edge_node_connectivity\"]]", 'R10.2'),
    V('C10', 'edge-face-checks-wrong-attr', _U, "            data_array = self.dataset.data_vars[self.mesh_attributes[\"edge_face_connectivity\"]]", "            data_array = self.dataset.data_vars[self.mesh_attributes[\"edge_node_connectivity\"]]", 'R10.2'),
    V('C10', 'node-y-first-item', _U, "        return self.dataset[self._node_coordinates[1]]", "        return self.dataset[self._node_coordinates[0]]", 'R10.3'),
    V('C10', 'ring-not-closed', _U, "            node_indexes = numpy.append(node_indexes, node_indexes[0])\n", "", 'R10.4'),
    V('C10', 'ordered-pair-lookup', _U, "                edge_index = node_pair_to_edge_index[frozenset(node_pair)]", "                edge_index = node_pair_to_edge_index[tuple(node_pair)]", 'R10.4'),
    V('C10', 'face-face-one-direction', _U, "            face_face[right, face_count[right]] = left\n", "", 'R10.4'),
    V('C10', 'edge-dimension-inferred-first', _U, "        with suppress(KeyError):\n            return self.mesh_attributes['edge_dimension']\n", "", 'R10.5'),
    V('C10', 'two-dimension-name-first', _U, "        two = 'Two'\n", "        two = 'Two'\n        if two in self.dataset.sizes and self.dataset.sizes[two] == 2:\n            return two\n", 'R10.5'),
    V('C10', 'split-coord-once', _U, "    x, y = attr.split()[:2]", "    x, y = attr.split(None, 1)", 'R10.3'),
    V('C10', 'start-index-returned-as-given', _U, "        return int(start_index)\n\n    # Some datasets", "        return start_index\n\n    # Some datasets", 'R10.1'),
    V('C10', 'float-fill-attribute-ignored', _U, "            if '_FillValue' in data_array.attrs:\n                # A float variable that xarray has not applied the fill value to,\n                # opened with mask_and_scale=False\n                masked_values = numpy.ma.masked_equal(masked_values, data_array.attrs['_FillValue'])\n", "", 'R10.1'),
    V('C10', 'fill-check-without-edge-dimension', _U, "        if '_FillValue' in data_array.encoding and self.has_edge_dimension:", "        if '_FillValue' in data_array.encoding:", 'R10.2'),
    V('C10', 'two-dimension-any-size-2', _U, "        if two in self.dataset.sizes and self.dataset.sizes[two] == 2:\n            return two\n", "", 'R10.5'),
    V('C10', 'masked-invalid-no-copy', _U, "            masked_values = numpy.ma.masked_invalid(values)", "            masked_values = numpy.ma.masked_invalid(values, copy=False)", 'R10.6'),
    V('C10', 'face-dimension-fallback-last', _U, "            return self.face_node_connectivity.dims[0]", "            return self.face_node_connectivity.dims[-1]", 'R10.5'),
]
