"""C09 - clipped and subsetted datasets remain valid datasets with unchanged geometry."""
from __future__ import annotations

import ast

from ..cfg import stmt_of
from ..model import AnalysisError, const_value, dotted, kwarg, norm_text, walk_no_nested
from ..report import Context
from .common import arg_or_kw, calls_in, callee, enclosing_ifs, is_none, method_calls
from .common import path_conditions as _pc09, _SubstNames as _Subst09

UGRID = 'emsarray.conventions.ugrid'
TOPO = f"{UGRID}.Mesh2DTopology"
BASE = 'emsarray.conventions._base.Convention'
GRID = 'emsarray.conventions.grid'
ARAKAWA = 'emsarray.conventions.arakawa_c'


def reader_primary(ctx, tab: str):
    """The primary dimension attribute the topology uses when normalising table `tab` (read from <tab>_array)."""
    arr = ctx.func(f"{TOPO}.{tab}_array")
    for c in method_calls(arr, '_to_index_array'):
        if len(c.args) == 2 and norm_text(c.args[0]) == f"self.{tab}_connectivity":
            return norm_text(c.args[1]).replace('self.', '')
    return None


def run(ctx: Context) -> None:
    p = ctx.p
    topo = p.cls(TOPO)
    ctx.rule('R09.1', "writer/reader agreement: every update_connectivity call passes one table's connectivity and normalised array, the primary dimension the topology itself uses for that table, the old-to-new table of the row kind and the old-to-new table of the column kind", floor=15)
    ctx.rule('R09.2', "entries that point at dropped elements become missing: masked new indexes are replaced by the fill value after the start_index shift and the fill value adjustment, and the same fill value marks missing entries in the output", floor=4)
    ctx.rule('R09.3', "index base, integer type, dimension order, name and attributes of each table are preserved; only rows of kept elements are written", floor=8)
    ctx.rule('R09.4', "the geometry inventory of every convention covers every variable its geometry code reads, and tests for presence dataset-wide; select_variables keeps requested + inventory + depth + time and drops the rest", floor=8)
    ctx.rule('R09.5', "grid clip masks carry copies of the coordinate variables; Arakawa masks are built for all four grid kinds", floor=4)
    ctx.rule('R09.6', "every connectivity table the topology can supply is carried over: unconditionally for face-node, under exactly its own validity test (and the presence of the edge table for tables involving edges) for the others, and written with the mesh variable", floor=8)
    ctx.rule('R09.7', "the reopened result is read with the same dimension discovery (shared with C10 R10.5) and re-indexing never writes into the clip mask or the input tables", floor=6)
    ctx.rule('R09.8', "a grid dataset can be clipped whether its coordinate variables are xarray coordinates or plain variables: every variable is masked with the values of the mask only and written under its own name (facts shared with C08 R08.1 / R08.2)", floor=14)
    from . import c08 as _c08
    from .common import share_obligations as _share
    # (R08.7: a mask is applied to one dataset after another of a series - applying it must leave it as it was)
    _share(ctx, _c08, {'R08.1', 'R08.2', 'R08.7'}, 'R09.8')
    from .common import adopt_foundations as _adopt
    _adopt(ctx, 'R09.9', ['masks', 'topology'], floor=60)
    ctx.rule('R09.13', "the marker for missing entries in re-indexed tables lies above every index, and a supplied table is set aside exactly when its dimensions are not the expected pair", floor=5)
    with ctx.section('R09.13'):
        from . import infra as _infra913
        _infra913.mesh_fill_value(ctx, 'R09.13')
        _infra913.mesh_table_dimension_tests(ctx, 'R09.13')
        _infra913.ugrid_inventory(ctx, 'R09.13')
        _infra913.cf_inventory_bounds(ctx, 'R09.13')
    ctx.rule('R09.12', "update_connectivity refuses a table only when it does not have the primary dimension at all (a table stored the other way round is transposed, not refused)", floor=1)
    with ctx.section('R09.12'):
        from . import infra as _infra912
        _infra912.refuses_only_when(ctx, 'R09.12', 'emsarray.conventions.ugrid.update_connectivity', 'does not contain primary dimension',
                                    [('primary_dimension in connectivity.dims', False), ('primary_dimension not in connectivity.dims', True)],
                                    "a connectivity table is refused only when the primary dimension is not one of its dimensions")
    ctx.rule('R09.11', "stored bounds are what the polygons of a clipped grid dataset are made of: the bounds reader uses them whenever they have the expected dimensions, "
             "including when they are nan outside the selection (facts shared with C06 R06.3 / R06.4)", floor=14)
    from . import c06 as _c06
    _share(ctx, _c06, {'R06.3', 'R06.4'}, 'R09.11')
    ctx.rule('R09.10', "the re-assembled result can be saved: an attribute of the input is not copied onto a variable that already holds the same key as an encoding", floor=2)
    ctx.assume("NOT decided: that the saved file reopens as the same convention (needs the file)")
    ctx.assume("xarray/netCDF apply encoding dtype and _FillValue on write")

    ac = ctx.func(f"{UGRID}.UGrid.apply_clip_mask")
    flow = ctx.flow(ac)
    sites = [c for c in calls_in(ac) if callee(ctx, ac, c) == f"{UGRID}.update_connectivity"]
    tables = sorted(n[:-len('_connectivity')] for n, m in topo.methods.items()
                    if n.endswith('_connectivity') and not n.startswith('has_valid') and m.is_property)
    ctx.require(len(tables) >= 5, f"expected >= 5 *_connectivity properties on Mesh2DTopology, found {tables}")

    def mask_kind(expr) -> str:
        """'face' for a value derived from clip_mask.data_vars['new_face_index'] ..."""
        kinds = set()
        for n, _ in flow.expand(expr):
            if isinstance(n, ast.Subscript) and isinstance(n.slice, ast.Constant) and isinstance(n.slice.value, str) \
                    and n.slice.value.startswith('new_') and n.slice.value.endswith('_index') and 'clip_mask' in norm_text(n.value):
                kinds.add(n.slice.value[len('new_'):-len('_index')])
        return '|'.join(sorted(kinds)) or '?'

    by_table = {}
    for c in sites:
        a0 = norm_text(c.args[0]) if c.args else ''
        tab = a0.replace('self.topology.', '').replace('_connectivity', '') if a0.startswith('self.topology.') and a0.endswith('_connectivity') else None
        ctx.check('R09.1', tab in tables, "the first argument is one of the topology's connectivity variables", ac, c, construct=f"update_connectivity({a0}, ...)")
        if tab not in tables:
            continue
        by_table[tab] = c
        a, b = tab.split('_')
        ctx.check('R09.1', len(c.args) >= 2 and norm_text(c.args[1]) == f"self.topology.{tab}_array", f"{tab}: the array re-indexed is the normalised array of the same table", ac, c,
                  construct=f"{tab}: old_array={norm_text(c.args[1]) if len(c.args) > 1 else '?'}")
        row = c.args[2] if len(c.args) > 2 else kwarg(c, 'row_indexes')
        col = c.args[3] if len(c.args) > 3 else kwarg(c, 'column_values')
        ctx.check('R09.1', row is not None and mask_kind(row) == a, f"{tab}: rows are selected with the old-to-new table of {a}s", ac, c,
                  construct=f"{tab}: row_indexes={norm_text(row) if row is not None else '?'} (from new_{mask_kind(row) if row is not None else '?'}_index)")
        ctx.check('R09.1', col is not None and mask_kind(col) == b, f"{tab}: entries are renumbered with the old-to-new table of {b}s", ac, c,
                  construct=f"{tab}: column_values={norm_text(col) if col is not None else '?'} (from new_{mask_kind(col) if col is not None else '?'}_index)")
        prim = kwarg(c, 'primary_dimension') or (c.args[4] if len(c.args) > 4 else None)
        want = reader_primary(ctx, tab)
        ctx.check('R09.1', prim is not None and want is not None and norm_text(prim) == f"self.topology.{want}",
                  f"{tab}: the primary dimension is the one the topology normalises this table with ({want})", ac, c,
                  construct=f"{tab}: primary_dimension={norm_text(prim) if prim is not None else '?'}; reader uses {want}")
        fv = kwarg(c, 'fill_value') or (c.args[5] if len(c.args) > 5 else None)
        ctx.check('R09.1', fv is not None and 'new_node_index' in repr(flow.canon(fv)) and '_FillValue' in repr(flow.canon(fv)),
                  f"{tab}: the fill value is the one recorded in the clip mask", ac, c, construct=f"{tab}: fill_value={norm_text(fv) if fv is not None else '?'}")

    # ------------------------------------------------------------------ R09.6
    with ctx.section('R09.6'):
        for tab in tables:
            c = by_table.get(tab)
            a, b = tab.split('_')
            if c is None:
                ctx.check('R09.6', False, f"{tab}: the table is re-indexed and carried over", ac, ac.node, construct=f"no update_connectivity call for {tab}_connectivity")
                continue
            tests = [(norm_text(st.test), inb) for st, inb in enclosing_ifs(ac, c)]
            from .common import facts as _facts
            EDGE = f"'new_edge_index' in {ac.params[1]}.data_vars"
            if tab == 'face_node':
                ctx.check('R09.6', not tests, "face_node: the required table is always carried over", ac, c, construct=f"face_node guard: {tests or 'none'}")
            else:
                want_valid = f"self.topology.has_valid_{tab}_connectivity"
                needs_edges = 'edge' in (a, b)
                fs = _facts(ctx, ac, c)
                conj = {t for t, pol in fs if pol} - {'has_edges'}
                neg = {t for t, pol in fs if not pol}
                want = {want_valid} | ({EDGE} if needs_edges else set())
                ctx.check('R09.6', conj == want and not neg, f"{tab}: carried over exactly when it is supplied and valid" + (" and the mask has an edge table" if needs_edges else ''), ac, c,
                          construct=f"{tab} guard: {sorted(conj)}")
            # appended to the topology variables
            st = stmt_of(ac, c)
            ok = isinstance(st, ast.Expr) and isinstance(st.value, ast.Call) and isinstance(st.value.func, ast.Attribute) and st.value.func.attr == 'append' \
                and norm_text(st.value.func.value) == 'topology_variables' and st.value.args and st.value.args[0] is c
            ctx.check('R09.6', ok, f"{tab}: the re-indexed table joins the topology variables that are written", ac, c, construct=f"{tab}: topology_variables.append(update_connectivity(...))")
        he = [n for n in walk_no_nested(ac.node) if isinstance(n, ast.Assign) and norm_text(n.targets[0]) == 'has_edges']
        ctx.check('R09.6', not he or norm_text(he[0].value) == EDGE, "a local that stands for 'the clip mask carries an edge table' means exactly that", ac, he[0] if he else ac.node)
        tv = [n for n in walk_no_nested(ac.node) if isinstance(n, (ast.Assign, ast.AnnAssign)) and norm_text(n.targets[0] if isinstance(n, ast.Assign) else n.target) == 'topology_variables']
        ok = bool(tv) and norm_text(tv[0].value) == '[self.topology.mesh_variable]'
        dsc = [c for c in calls_in(ac) if (callee(ctx, ac, c) or '').endswith('xarray.Dataset')]
        ok2 = any(norm_text(kwarg(c, 'data_vars') or ast.Constant(None)) == '{variable.name: variable for variable in topology_variables}' for c in dsc)
        ctx.check('R09.6', ok and ok2, "the mesh variable and all re-indexed tables are written as one topology dataset", ac, dsc[0] if dsc else ac.node,
                  construct='topology_variables = [mesh_variable] + tables -> xarray.Dataset(data_vars={name: variable})')

    # ------------------------------------------------------------------ R09.2 / R09.3 update_connectivity
    with ctx.section('R09.2 / R09.3 update_connectivity'):
        uc = ctx.func(f"{UGRID}.update_connectivity")
        uflow = ctx.flow(uc)
        ucfg = ctx.cfg(uc)
        col_p, fill_p, row_p, old_p, conn_p, prim_p = 'column_values', 'fill_value', 'row_indexes', 'old_array', 'connectivity', 'primary_dimension'
        fills = [n for n in walk_no_nested(uc.node) if isinstance(n, ast.Assign) and isinstance(n.value, ast.Call)
                 and callee(ctx, uc, n.value) == 'numpy.ma.filled' and norm_text(n.targets[0]) == col_p]
        ctx.need('R09.2', len(fills) == 1, "update_connectivity replaces masked new indexes by the fill value (numpy.ma.filled)", uc)
        fl = fills[0]
        ok = len(fl.value.args) == 2 and norm_text(fl.value.args[0]) == col_p and norm_text(fl.value.args[1]) == fill_p
        ctx.check('R09.2', ok, "masked column values are filled with the (adjusted) fill value", uc, fl)
        adds = [n for n in walk_no_nested(uc.node) if isinstance(n, ast.Assign) and norm_text(n.targets[0]) == col_p and isinstance(n.value, ast.BinOp)]
        ok_add = (len(adds) == 1 and isinstance(adds[0].value.op, ast.Add) and norm_text(adds[0].value.left) == col_p
                  and uflow.reaches(adds[0].value.right, lambda m: isinstance(m, ast.Call) and callee(ctx, uc, m) == f"{UGRID}._get_start_index"
                                    and norm_text(m.args[0]) == conn_p))
        ctx.check('R09.3', ok_add, "the index base is restored: new indexes are shifted by the table's own start_index", uc, adds[0] if adds else uc.node,
                  construct=f"shift: {norm_text(adds[0]) if adds else 'absent'}")
        if adds:
            g = [(norm_text(st.test), inb) for st, inb in enclosing_ifs(uc, adds[0])]
            ctx.check('R09.3', ('start_index != 0', True) in g or not g, "the shift is applied whenever the base is not zero", uc, adds[0], construct=f"shift guard {g}")
            order_ok = adds[0].lineno < fl.lineno and not any(x is adds[0] for x in ast.walk(fl))
            # nothing modifies column_values between the fill and its use
            later = [n for n in walk_no_nested(uc.node) if isinstance(n, (ast.Assign, ast.AugAssign)) and norm_text(getattr(n, 'targets', [getattr(n, 'target', None)])[0]) == col_p
                     and n.lineno > fl.lineno]
            ctx.check('R09.2', order_ok and not later, "the fill comes after the start_index shift and is the last change to the column values (a missing entry is exactly the fill value)", uc, fl,
                      construct=f"order: shift line {adds[0].lineno}, fill line {fl.lineno}, later changes {[norm_text(x) for x in later]}")
        fv_adjust = [n for n in ast.walk(uc.node) if isinstance(n, ast.Assign) and norm_text(n.targets[0]) == fill_p]
        ok = all(n.lineno < fl.lineno for n in fv_adjust)
        ctx.check('R09.2', ok, "the fill value is final before it is used to fill", uc, fv_adjust[0] if fv_adjust else fl,
                  construct=f"fill value adjustments at lines {[n.lineno for n in fv_adjust]} before the fill at line {fl.lineno}")
        meq = [c for c in calls_in(uc) if callee(ctx, uc, c) == 'numpy.ma.masked_equal']
        mk = [c for c in calls_in(uc) if callee(ctx, uc, c) == f"{UGRID}._masked_integer_data_array"]
        ok = (len(meq) == 1 and norm_text(meq[0].args[1]) == fill_p and len(mk) == 1 and norm_text(kwarg(mk[0], 'fill_value') or ast.Constant(None)) == fill_p
              and uflow.canon(meq[0].args[1]) == uflow.canon(fl.value.args[1]))
        ctx.check('R09.2', ok, "entries equal to that same fill value are the missing entries of the output and its declared _FillValue", uc, meq[0] if meq else uc.node)
        comps = [n for n in ast.walk(uc.node) if isinstance(n, ast.ListComp) and isinstance(n.elt, ast.ListComp)]
        ctx.need('R09.3', len(comps) == 1, "update_connectivity rebuilds the table row by row", uc)
        outer, inner = comps[0], comps[0].elt
        # rows: old_array[<not the mask of the row indexes>], named or not
        rows = uflow.resolve(outer.generators[0].iter)
        ok_rows, inc_text = False, '?'
        if isinstance(rows, ast.Subscript) and norm_text(rows.value) == old_p and not outer.generators[0].ifs:
            sel = uflow.resolve(rows.slice)
            inc_text = norm_text(sel)
            inner_ = None
            if isinstance(sel, ast.UnaryOp) and isinstance(sel.op, ast.Invert):
                inner_ = sel.operand
            elif isinstance(sel, ast.Call) and callee(ctx, uc, sel) in ('numpy.logical_not', 'numpy.invert', 'numpy.bitwise_not') and len(sel.args) == 1 and not sel.keywords:
                inner_ = sel.args[0]
            inner_ = uflow.resolve(inner_) if inner_ is not None else None
            ok_rows = (isinstance(inner_, ast.Call) and callee(ctx, uc, inner_) in ('numpy.ma.getmask', 'numpy.ma.getmaskarray') and len(inner_.args) == 1
                       and norm_text(inner_.args[0]) == row_p)
        ctx.check('R09.3', ok_rows, "exactly the rows of kept elements are written, in their original order", uc, outer,
                  construct=f"rows: {norm_text(rows)[:60]} selected by {inc_text[:60]}")
        e = inner.elt
        # (conditional expressions are normalised to their positive test)
        ivar = inner.generators[0].target.id if isinstance(inner.generators[0].target, ast.Name) else '?'
        ok_item = (isinstance(e, ast.IfExp) and norm_text(e.orelse) == f"{col_p}[{ivar}]" and norm_text(e.test) == f"{ivar} is numpy.ma.masked"
                   and norm_text(e.body) == fill_p and norm_text(inner.generators[0].iter) == norm_text(outer.generators[0].target)
                   and not inner.generators[0].ifs)
        ctx.check('R09.3', ok_item, "each present entry is replaced by its new index, each missing entry by the fill value, column order kept", uc, inner)
        arrs = [c for c in calls_in(uc) if callee(ctx, uc, c) == 'numpy.array' and c.args and uflow.resolve(c.args[0]) is comps[0]]
        dt = [n for n in walk_no_nested(uc.node) if isinstance(n, ast.Assign) and norm_text(n.targets[0]) == 'dtype']
        stored = f"{conn_p}.encoding.get('dtype', {conn_p}.dtype)"
        ok = (len(arrs) == 1 and norm_text(kwarg(arrs[0], 'dtype') or ast.Constant(None)) == 'dtype' and len(dt) == 1
              and norm_text(dt[0].value) in (stored, f"numpy.dtype({stored})"))
        ctx.check('R09.3', ok, "the integer type is the one the table is stored with", uc, dt[0] if dt else uc.node)
        # the encoding may spell the type as 'int32' or numpy.int32: anything that reads .kind / iinfo needs a numpy.dtype
        ok = len(dt) == 1 and isinstance(dt[0].value, ast.Call) and callee(ctx, uc, dt[0].value) == 'numpy.dtype'
        ctx.check('R09.3', ok, "the stored type is normalised with numpy.dtype(...) before its kind is read (xarray accepts a string or a scalar type in encoding['dtype'])", uc, dt[0] if dt else uc.node)
        # the fill value is clamped to what the stored type can hold, for every integer kind
        clamp = [n for n in fv_adjust if 'max' in norm_text(n.value)]
        kinds_ok = False
        gtxt = '?'
        if len(clamp) == 1:
            from .common import guards as _guards
            gs_ = _guards(uc, clamp[0])
            gtxt = str(gs_)
            for text, pol in gs_:
                if pol and text.replace('"', "'") in ("dtype.kind in 'iu'", "dtype.kind in 'ui'", "dtype.kind in ('i', 'u')", "dtype.kind in ('u', 'i')",
                                                      'numpy.issubdtype(dtype, numpy.integer)'):
                    kinds_ok = True
        # ... and only clamped: a fill value that fits is kept (it is the one the masks and the other tables were made with, and the
        # largest int64 is not a float64: a table that passes through floating point cannot hold it)
        def is_max(e) -> bool:
            e = uflow.resolve(e)
            if isinstance(e, ast.Call) and dotted(e.func) == 'int' and len(e.args) == 1:
                e = uflow.resolve(e.args[0])
            return isinstance(e, ast.Attribute) and e.attr == 'max' and isinstance(e.value, ast.Call) and callee(ctx, uc, e.value) == 'numpy.iinfo'
        only_clamped = False
        if len(clamp) == 1:
            v_ = uflow.resolve(clamp[0].value)
            if isinstance(v_, ast.Call) and dotted(v_.func) == 'min' and len(v_.args) == 2 and not v_.keywords:
                a_, b_ = v_.args
                only_clamped = (norm_text(a_) == fill_p and is_max(b_)) or (norm_text(b_) == fill_p and is_max(a_))
            elif isinstance(v_, ast.IfExp) and isinstance(v_.test, ast.Compare) and len(v_.test.ops) == 1:
                l_, r_, op_ = v_.test.left, v_.test.comparators[0], v_.test.ops[0]
                too_big = None      # truth of the test when the given fill value exceeds the largest integer
                if is_max(l_) and norm_text(r_) == fill_p:
                    too_big = True if isinstance(op_, (ast.Lt, ast.LtE)) else False if isinstance(op_, (ast.Gt, ast.GtE)) else None
                elif norm_text(l_) == fill_p and is_max(r_):
                    too_big = True if isinstance(op_, (ast.Gt, ast.GtE)) else False if isinstance(op_, (ast.Lt, ast.LtE)) else None
                if too_big is not None:
                    big_arm, fits_arm = (v_.body, v_.orelse) if too_big else (v_.orelse, v_.body)
                    only_clamped = is_max(big_arm) and norm_text(fits_arm) == fill_p
            elif is_max(clamp[0].value):
                from .common import path_conditions as _pc09b
                for t, pol in _pc09b(uc, clamp[0]):
                    if isinstance(t, ast.Compare) and len(t.ops) == 1 and pol:
                        l_, r_ = t.left, t.comparators[0]
                        if isinstance(t.ops[0], (ast.Lt, ast.LtE)) and is_max(l_) and norm_text(r_) == fill_p:
                            only_clamped = True
                        if isinstance(t.ops[0], (ast.Gt, ast.GtE)) and norm_text(l_) == fill_p and is_max(r_):
                            only_clamped = True
        ctx.check('R09.3', only_clamped, "the given fill value is kept whenever the stored type can hold it, and replaced by the largest representable integer only when it cannot", uc,
                  clamp[0] if clamp else uc.node, construct=f"fill value adjustment: {norm_text(clamp[0])[:100] if clamp else 'absent'}")
        ctx.check('R09.3', kinds_ok, "the fill value is clamped to the representable range for signed and unsigned integer types alike (uint8 / uint16 tables overflow otherwise)", uc,
                  clamp[0] if clamp else uc.node, construct=f"clamp guards: {gtxt}")
        trs = [c for c in calls_in(uc) if callee(ctx, uc, c) == 'numpy.transpose']
        ok = False
        if len(trs) == 1:
            g = [(norm_text(st.test), inb) for st, inb in enclosing_ifs(uc, trs[0])]
            ok = (f"{conn_p}.dims[1] == {prim_p}", True) in g
        ctx.check('R09.3', ok, "a table stored with its primary dimension second is transposed back", uc, trs[0] if trs else uc.node)
        kws = {k.arg: k.value for k in mk[0].keywords} if len(mk) == 1 else {}
        ok = {k: norm_text(v) for k, v in kws.items() if k != 'attrs'} == {
            'data': 'values', 'fill_value': fill_p, 'dims': f"{conn_p}.dims", 'name': f"{conn_p}.name"}
        ok = ok and all(uflow.resolve(r.value) is mk[0] for r in uc.returns())
        ctx.check('R09.3', ok, "dims and name are those of the input table", uc, mk[0] if mk else uc.node)
        # attributes: the table's own, minus the fill value (which _masked_integer_data_array declares in the encoding:
        # xarray refuses to save a variable that has it in both places)
        av = uflow.resolve(kws['attrs']) if 'attrs' in kws else None
        dropped = None
        if isinstance(av, ast.DictComp) and len(av.generators) == 1 and len(av.generators[0].ifs) == 1:
            g_ = av.generators[0]
            it_ = uflow.resolve(g_.iter)
            tgt = g_.target
            if isinstance(it_, ast.Call) and isinstance(it_.func, ast.Attribute) and it_.func.attr == 'items' and norm_text(it_.func.value) == f"{conn_p}.attrs" \
                    and isinstance(tgt, ast.Tuple) and len(tgt.elts) == 2 and norm_text(av.key) == norm_text(tgt.elts[0]) and norm_text(av.value) == norm_text(tgt.elts[1]):
                t_ = g_.ifs[0]
                if isinstance(t_, ast.Compare) and len(t_.ops) == 1 and norm_text(t_.left) == norm_text(tgt.elts[0]):
                    if isinstance(t_.ops[0], ast.NotEq) and isinstance(const_value(t_.comparators[0], None), str):
                        dropped = {const_value(t_.comparators[0], None)}
                    elif isinstance(t_.ops[0], ast.NotIn):
                        from .common import literal_strings
                        ls = literal_strings(t_.comparators[0])
                        dropped = set(ls) if ls is not None else None
        elif av is not None and norm_text(av) == f"{conn_p}.attrs":
            dropped = set()
        elif av is not None and 'attrs' in kws and isinstance(kws['attrs'], ast.Name):
            # a copy of the table's attributes with keys taken out of it: dict(attrs) / attrs.copy() / {**attrs}, then .pop(key, default)
            is_copy = ((isinstance(av, ast.Call) and dotted(av.func) == 'dict' and len(av.args) == 1 and not av.keywords and norm_text(av.args[0]) == f"{conn_p}.attrs")
                       or (isinstance(av, ast.Call) and isinstance(av.func, ast.Attribute) and av.func.attr == 'copy' and not av.args and norm_text(av.func.value) == f"{conn_p}.attrs")
                       or (isinstance(av, ast.Dict) and av.keys == [None] and norm_text(av.values[0]) == f"{conn_p}.attrs"))
            name_ = kws['attrs'].id
            uses = [n for n in ast.walk(uc.node) if isinstance(n, ast.Name) and n.id == name_ and isinstance(n.ctx, ast.Load) and n is not kws['attrs']]
            pops = [c for c in calls_in(uc) if isinstance(c.func, ast.Attribute) and c.func.attr == 'pop' and isinstance(c.func.value, ast.Name) and c.func.value.id == name_
                    and len(c.args) == 2 and isinstance(const_value(c.args[0], None), str) and not _pc09(uc, c) and c.lineno < mk[0].lineno]
            if is_copy and len(uflow.defs_of(kws['attrs'])) == 1 and all(any(u is c.func.value for c in pops) for u in uses):
                dropped = {const_value(c.args[0], None) for c in pops}
        ctx.check('R09.3', dropped is not None and dropped <= {'_FillValue', 'missing_value'},
                  "the attributes are those of the input table (start_index, cf_role, long_name ... are kept); only fill declarations may be left out", uc, mk[0] if mk else uc.node,
                  construct=f"attrs = {norm_text(av) if av is not None else '?'}; left out: {sorted(dropped) if dropped is not None else '?'}")
        ctx.check('R09.3', dropped is not None and '_FillValue' in dropped,
                  "the _FillValue attribute of a table opened without masking is not copied next to the _FillValue encoding of the new table (such a variable cannot be saved)", uc, mk[0] if mk else uc.node,
                  construct=f"attributes left out: {sorted(dropped) if dropped is not None else '?'}")
        mi = ctx.func(f"{UGRID}._masked_integer_data_array")
        ok = any("data_array.encoding.update({'dtype': data.dtype, '_FillValue': fill_value})" == norm_text(s) for s in mi.body)
        ctx.check('R09.3', ok, "the written variable is encoded with the integer dtype and that _FillValue", mi, mi.node)

        from . import c10
        from .common import purity_obligations, share_obligations
        share_obligations(ctx, c10, {'R10.5'}, 'R09.7')
        purity_obligations(ctx, 'R09.7', uc, ['connectivity', 'old_array', 'row_indexes', 'column_values'], "update_connectivity")
        purity_obligations(ctx, 'R09.7', ac, ['clip_mask'], "UGrid.apply_clip_mask")

    # ------------------------------------------------------------------ R09.4
    with ctx.section('R09.4'):
        from ..handles import inventory_obligations
        inventory_obligations(ctx, 'R09.4')
        base = p.cls(BASE)
        for fi in p.implementations(base, 'get_all_geometry_names'):
            bad = [n for n in ast.walk(fi.node) if isinstance(n, ast.Compare) and isinstance(n.ops[0], (ast.In, ast.NotIn))
                   and isinstance(n.comparators[0], ast.Attribute) and n.comparators[0].attr in ('data_vars', 'coords')]
            ctx.check('R09.4', not bad, "presence of a geometry variable is tested dataset-wide (variables), not only among data variables", fi,
                      bad[0] if bad else fi.node, construct=f"{fi.short}: membership tests on partial namespaces: {[norm_text(b) for b in bad] or 'none'}")
        for fi in p.implementations(base, 'get_all_geometry_names'):
            coupled = []
            for n in ast.walk(fi.node):
                body = None
                if isinstance(n, ast.Try):
                    body = n.body
                elif isinstance(n, ast.With) and any('suppress' in norm_text(i.context_expr) for i in n.items):
                    body = n.body
                if body is None:
                    continue
                optional = [x for b in body for x in ast.walk(b) if isinstance(x, ast.Subscript) and isinstance(x.value, ast.Attribute) and x.value.attr == 'attrs'
                            and isinstance(x.ctx, ast.Load)]
                if len(optional) > 1:
                    coupled.append(n)
            ctx.check('R09.4', not coupled, "each optional geometry variable is looked up on its own: a missing attribute of one does not hide another", fi,
                      coupled[0] if coupled else fi.node, construct=f"{fi.short}: guarded blocks with several optional attribute lookups: {len(coupled)}")
        sv = ctx.func(f"{BASE}.select_variables")
        sflow = ctx.flow(sv)
        from ..pattern import Matcher
        msv = Matcher(ctx, sv)
        vp = sv.params[1]
        keep = msv.stmt(f"$keep = [*{vp}, *self.get_all_geometry_names(), *self.depth_coordinates]")
        ok = keep is not None and msv.stmt('$keep.append(self.time_coordinate)') is not None \
            and len([c for c in method_calls(sv, 'append') if isinstance(c.func.value, ast.Name) and c.func.value.id == msv.name('keep')]) == 1 \
            and not any(isinstance(c.func.value, ast.Name) and c.func.value.id == msv.name('keep') for c in calls_in(sv)
                        if isinstance(c.func, ast.Attribute) and c.func.attr in ('remove', 'pop', 'clear'))
        ctx.check('R09.4', ok, "kept = requested variables + geometry inventory + depth coordinates + time coordinate", sv, keep or sv.node)
        drops = [c for c in method_calls(sv, 'drop_vars')]
        ok = (len(drops) == 1 and keep is not None
              and msv.match('self.dataset.drop_vars(set(self.dataset.variables) - {utils.data_array_to_name(self.dataset, $v) for $v in $keep})', drops[0], commit=False)
              and all(sflow.resolve(r.value) is drops[0] for r in sv.returns()))
        ctx.check('R09.4', bool(ok), "exactly the complement (over all variables) is dropped", sv, drops[0] if drops else sv.node)

    # ------------------------------------------------------------------ R09.5
    with ctx.section('R09.5'):
        mc = ctx.func(f"{GRID}.CFGrid.make_clip_mask")
        dsc = [c for c in calls_in(mc) if (callee(ctx, mc, c) or '').endswith('xarray.Dataset')]
        ok = False
        if len(dsc) == 1:
            co = kwarg(dsc[0], 'coords')
            co = ctx.flow(mc).resolve(co) if co is not None else None
            ok = isinstance(co, ast.Dict) and {norm_text(k): norm_text(v) for k, v in zip(co.keys, co.values)} == {
                'self.topology.latitude_name': 'self.topology.latitude.copy()', 'self.topology.longitude_name': 'self.topology.longitude.copy()'}
        ctx.check('R09.5', ok, "the CF clip mask carries copies of latitude and longitude under their own names", mc, dsc[0] if dsc else mc.node)
        am = ctx.func(f"{ARAKAWA}.ArakawaC.make_clip_mask")
        cm = [c for c in calls_in(am) if callee(ctx, am, c) == f"{ARAKAWA}.c_mask_from_centres"]
        _co = arg_or_kw(cm[0], 2, 'coords') if cm else None
        ok = len(cm) == 1 and _co is not None and norm_text(_co) == 'self.dataset.coords' and all(ctx.flow(am).resolve(r.value) is cm[0] for r in am.returns())
        ctx.check('R09.5', ok, "the Arakawa clip mask carries the dataset's coordinates", am, cm[0] if cm else am.node)
        from .common import arakawa_mask_table
        table = arakawa_mask_table(ctx)
        cf = table['_fi']
        dsc = [table['_call']] if table['_call'] is not None else []
        names = {k for k in table if not str(k).startswith('_')}
        ok = bool(dsc) and names == {'face_mask', 'back_mask', 'left_mask', 'node_mask'} and table['_coords'] == ('param', cf.params[2])
        for k in names:
            kind = str(k).replace('_mask', '')
            ok = ok and table[k][0] is not None and table[k][1] == f"{cf.params[1]}[ArakawaCGridKind.{kind}]"
        ctx.check('R09.5', ok, "one mask per Arakawa grid kind, each on that kind's own dimensions", cf, dsc[0] if dsc else cf.node)
        for cq in (f"{GRID}.CFGrid.apply_clip_mask", f"{ARAKAWA}.ArakawaC.apply_clip_mask"):
            fi = ctx.func(cq)
            ok = all(norm_text(r.value) == 'masking.mask_grid_dataset(self.dataset, clip_mask, work_dir)' for r in fi.returns()) and fi.returns()
            ctx.check('R09.5', bool(ok), "grid conventions apply the mask to their own dataset through masking.mask_grid_dataset", fi, fi.node)

    # ------------------------------------------------------------------ R09.10 dataset_like
    with ctx.section('R09.10'):
        from ..pattern import Matcher
        dl = ctx.func('emsarray.utils.dataset_like')
        dflow = ctx.flow(dl)
        m = Matcher(ctx, dl)
        loop = m.stmt('for $key, $sample in $sample_dataset.variables.items():\n    ...')
        ctx.need('R09.10', loop is not None and m.stmt('$new = $like.variables[$key]', within=loop) is not None, "dataset_like copies attributes variable by variable", dl)
        # the rebuilt dataset holds every variable of the example, data variables and coordinates alike, each taken from the new dataset under its own name
        mk = [c for c in calls_in(dl) if callee(ctx, dl, c) == 'xarray.Dataset']
        ctx.need('R09.10', len(mk) == 1, "dataset_like builds one dataset", dl)
        for kw_, member in (('data_vars', 'data_vars'), ('coords', 'coords')):
            v_ = kwarg(mk[0], kw_)
            v_ = dflow.resolve(v_) if v_ is not None else None
            ok_ = False
            how_ = 'absent'
            if isinstance(v_, ast.DictComp) and len(v_.generators) == 1 and not v_.generators[0].ifs:
                g_ = v_.generators[0]
                k_ = norm_text(g_.target)
                it_ = norm_text(dflow.resolve(g_.iter))
                ok_ = norm_text(v_.key) == k_ and norm_text(v_.value) == f"{dl.params[1]}[{k_}]" and it_ in (
                    f"{dl.params[0]}.{member}.keys()", f"{dl.params[0]}.{member}", f"list({dl.params[0]}.{member})", f"tuple({dl.params[0]}.{member})",
                    f"list({dl.params[0]}.{member}.keys())", f"tuple({dl.params[0]}.{member}.keys())")
                how_ = norm_text(v_)[:90]
            ctx.check('R09.10', ok_, f"the rebuilt dataset has every one of the example's {member}, in the example's order, each read from the new dataset under its own name", dl, mk[0],
                      construct=f"{kw_} = {how_}")
        from .common import Undecided, item_outcome, simple_aliases
        import itertools
        new_, sample_ = m.name('new'), m.name('sample')
        aliases = simple_aliases(dl)
        nc = ctx.func('emsarray.utils._update_no_clobber')
        mn = Matcher(ctx, nc)
        helper_ok = mn.stmt('for $k, $v in $source.items():\n    if $k not in $dest:\n        $dest[$k] = $v') is not None and len(nc.body) == 1

        def spelled(e):
            return norm_text(_Subst09(aliases).visit(__import__('copy').deepcopy(e)))
        # one attribute of the input variable at a time: is it stored on the new variable, given whether the new variable
        # already holds the key as an encoding / as an attribute?  Either the helper fed with a filtered copy, or a loop written out.
        ups = [c for c in ast.walk(loop) if isinstance(c, ast.Call) and callee(ctx, dl, c) == 'emsarray.utils._update_no_clobber' and len(c.args) == 2
               and spelled(c.args[1]) == f"{new_}.attrs"]
        loops = [n for n in ast.walk(loop) if isinstance(n, ast.For) and n is not loop and isinstance(n.iter, ast.Call) and isinstance(n.iter.func, ast.Attribute)
                 and n.iter.func.attr == 'items' and spelled(n.iter.func.value) == f"{sample_}.attrs"]
        ctx.need('R09.10', len(ups) + len(loops) == 1, "one attribute update per variable", dl)
        site = (ups + loops)[0]
        table, why = {}, '?'
        try:
            for enc, att in itertools.product((True, False), repeat=2):
                if ups:
                    src = dflow.resolve(ups[0].args[0])
                    if isinstance(src, ast.DictComp) and len(src.generators) == 1:
                        g = src.generators[0]
                        it = dflow.resolve(g.iter)
                        if not (isinstance(it, ast.Call) and isinstance(it.func, ast.Attribute) and it.func.attr == 'items' and spelled(it.func.value) == f"{sample_}.attrs"
                                and isinstance(g.target, ast.Tuple) and len(g.target.elts) == 2 and all(isinstance(e_, ast.Name) for e_ in g.target.elts) and helper_ok):
                            raise Undecided('the source of the update')
                        k_, v_ = g.target.elts[0].id, g.target.elts[1].id
                        out = item_outcome(src, {f"{k_} in {new_}.encoding": enc}, env=aliases)
                        out = [(k, norm_text(v)) for _, k, v in out]
                        table[(enc, att)] = bool(out) and out == [(k_, v_)] and not att
                        if out and out != [(k_, v_)]:
                            raise Undecided(f"entry {out}")
                    elif spelled(src) == f"{sample_}.attrs" and helper_ok:
                        table[(enc, att)] = not att
                    else:
                        raise Undecided('the source of the update')
                else:
                    lp = loops[0]
                    if not (isinstance(lp.target, ast.Tuple) and len(lp.target.elts) == 2 and all(isinstance(e_, ast.Name) for e_ in lp.target.elts) and not lp.orelse):
                        raise Undecided('the loop target')
                    k_, v_ = lp.target.elts[0].id, lp.target.elts[1].id
                    out = item_outcome(lp.body, {f"{k_} in {new_}.encoding": enc, f"{k_} in {new_}.attrs": att}, env=aliases)
                    out = [(m_, k, norm_text(v)) for m_, k, v in out]
                    if out and out != [(f"{new_}.attrs", k_, v_)]:
                        raise Undecided(f"store {out}")
                    table[(enc, att)] = bool(out)
            why = ', '.join(f"{'encoded' if e else 'not encoded'}/{'present' if a_ else 'absent'}: {'copied' if t else 'left'}" for (e, a_), t in sorted(table.items()))
        except Undecided as exc:
            table, why = None, f"not understood: {exc}"
        ok = table is not None and not table[(True, True)] and not table[(True, False)]
        ctx.check('R09.10', ok, "the attributes copied from the input variable leave out every key the new variable holds as an encoding "
                  "(_FillValue, missing_value, units of a re-decoded work file): xarray refuses to save a variable with the key in both places", dl, site,
                  construct=f"attribute of the input variable: {why}")
        ok = table is not None and table[(False, False)] and not table[(False, True)]
        ctx.check('R09.10', ok, "every other attribute of the input variable is copied, without replacing an attribute the new variable already has", dl, site,
                  construct=f"attribute of the input variable: {why}")
        encs = [c for c in ast.walk(loop) if isinstance(c, ast.Call) and callee(ctx, dl, c) == 'emsarray.utils._update_no_clobber' and len(c.args) == 2
                and spelled(c.args[1]) == f"{new_}.encoding" and spelled(c.args[0]) == f"{sample_}.encoding"]
        ok = len(encs) == 1 and helper_ok
        ctx.check('R09.10', ok, "encodings are copied from the input variable without replacing what the new variable already has", dl, encs[0] if encs else loop)


# --------------------------------------------------------------------------- checker self-test
from ..variants import V  # noqa: E402

_U = 'src/emsarray/conventions/ugrid.py'
_G = 'src/emsarray/conventions/grid.py'
_B = 'src/emsarray/conventions/_base.py'
VARIANTS = [
    V('C09', 'edge-node-table-not-geometry', 'src/emsarray/conventions/ugrid.py', "        if topology.has_valid_edge_node_connectivity:\n            names.append(topology.edge_node_connectivity.name)\n", "", 'R09.13'),
    V('C09', 'face-x-listed-when-absent', 'src/emsarray/conventions/ugrid.py', "        if topology.face_x is not None:\n            names.append(topology.face_x.name)", "        if topology.face_x is None:\n            names.append(topology.face_x.name)", 'R09.13'),
    V('C09', 'fill-value-among-the-indexes', 'src/emsarray/conventions/ugrid.py', "        return int('9' * (len(str(max_count)) + 1))", "        return int('9' * (len(str(max_count)) - 1))", 'R09.13'),
    V('C09', 'benign-fill-value-one-digit-more', 'src/emsarray/conventions/ugrid.py', "        return int('9' * (len(str(max_count)) + 1))", "        return int('9' * (len(str(max_count)) + 2))", None),
    V('C09', 'face-edge-primary-swapped', _U, "                new_face_indexes, new_edge_indexes,\n                primary_dimension=topology.face_dimension, fill_value=new_fill_value))", "                new_face_indexes, new_edge_indexes,\n                primary_dimension=topology.edge_dimension, fill_value=new_fill_value))", 'R09.1'),
    V('C09', 'edge-node-columns-faces', _U, "                new_edge_indexes, new_node_indexes,", "                new_edge_indexes, new_face_indexes,", 'R09.1'),
    V('C09', 'face-face-array-mismatch', _U, "                topology.face_face_connectivity, topology.face_face_array,", "                topology.face_face_connectivity, topology.face_edge_array,", 'R09.1'),
    V('C09', 'edge-face-site-deleted', _U, "        if has_edges and topology.has_valid_edge_face_connectivity:\n            topology_variables.append(update_connectivity(\n                topology.edge_face_connectivity, topology.edge_face_array,\n                new_edge_indexes, new_face_indexes,\n                primary_dimension=topology.edge_dimension, fill_value=new_fill_value))\n", "", 'R09.6'),
    V('C09', 'face-edge-wrong-guard', _U, "        if has_edges and topology.has_valid_face_edge_connectivity:", "        if has_edges and topology.has_valid_edge_node_connectivity:", 'R09.6'),
    V('C09', 'face-face-needs-edges', _U, "        if topology.has_valid_face_face_connectivity:\n            topology_variables", "        if has_edges and topology.has_valid_face_face_connectivity:\n            topology_variables", 'R09.6'),
    V('C09', 'start-index-not-readded', _U, "    if start_index != 0:\n        column_values = column_values + start_index\n", "", 'R09.3'),
    V('C09', 'shift-after-fill', _U, "    start_index = _get_start_index(connectivity)\n    if start_index != 0:\n        column_values = column_values + start_index\n", "    start_index = _get_start_index(connectivity)\n", ('R09.2', 'R09.3')),
    V('C09', 'masked-columns-not-filled', _U, "    column_values = numpy.ma.filled(column_values, fill_value)\n", "", 'R09.2'),
    V('C09', 'attrs-dropped', _U, "        attrs={\n            key: value for key, value in connectivity.attrs.items()\n            if key != '_FillValue'\n        },\n", "", 'R09.3'),
    V('C09', 'attrs-fill-value-copied', _U, "        attrs={\n            key: value for key, value in connectivity.attrs.items()\n            if key != '_FillValue'\n        },\n", "        attrs=connectivity.attrs,\n", 'R09.3'),
    V('C09', 'attrs-start-index-left-out', _U, "            if key != '_FillValue'\n", "            if key not in ('_FillValue', 'start_index')\n", 'R09.3'),
    V('C09', 'benign-attrs-missing-value-left-out', _U, "            if key != '_FillValue'\n", "            if key not in ('_FillValue', 'missing_value')\n", None),
    V('C09', 'clamp-signed-only', _U, "    if dtype.kind in 'iu':", "    if dtype.kind == 'i':", 'R09.3'),
    V('C09', 'dtype-not-normalised', _U, "    dtype = numpy.dtype(connectivity.encoding.get('dtype', connectivity.dtype))", "    dtype = connectivity.encoding.get('dtype', connectivity.dtype)", 'R09.3'),
    V('C09', 'dataset-like-copies-encoded-keys', 'src/emsarray/utils.py', "        _update_no_clobber({\n            name: value for name, value in sample_variable.attrs.items()\n            if name not in new_variable.encoding\n        }, new_variable.attrs)", "        _update_no_clobber(sample_variable.attrs, new_variable.attrs)", 'R09.10'),
    V('C09', 'all-rows-written', _U, "        for row in old_array[include_row]", "        for row in old_array", 'R09.3'),
    V('C09', 'cf-inventory-data-vars-only', _G, "            if bounds_name is not None and bounds_name in self.dataset.variables:", "            if bounds_name is not None and bounds_name in self.dataset.data_vars:", 'R09.4'),
    V('C09', 'select-variables-forgets-depth', _B, "            *self.get_all_geometry_names(),\n            *self.depth_coordinates,\n        ]", "            *self.get_all_geometry_names(),\n        ]", 'R09.4'),
    V('C09', 'ugrid-inventory-drops-face-node', _U, "            topology.face_node_connectivity.name,\n            topology.node_x.name,", "            topology.node_x.name,", 'R09.4'),
    V('C09', 'bounds-lookups-coupled', _G, "        bounds_names: list[Hashable | None] = [\n            self.topology.longitude.attrs.get('bounds', None),\n            self.topology.latitude.attrs.get('bounds', None),\n        ]\n        for bounds_name in bounds_names:\n            if bounds_name is not None and bounds_name in self.dataset.variables:\n                names.append(bounds_name)",
      "        with suppress(KeyError):\n            bounds_names = [\n                self.topology.longitude.attrs['bounds'],\n                self.topology.latitude.attrs['bounds'],\n            ]\n            names.extend(bounds_name for bounds_name in bounds_names if bounds_name in self.dataset.variables)", 'R09.4'),
    V('C09', 'column-values-shifted-in-place', _U, "        column_values = column_values + start_index", "        column_values += start_index", 'R09.7'),
    V('C09', 'cf-mask-without-coords', _G, "            coords={\n                topology.latitude_name: topology.latitude.copy(),\n                topology.longitude_name: topology.longitude.copy(),\n            },\n", "", 'R09.5'),
]
