"""Interpretation of the polygon / centre / bounds building code over labelled axes (shared by C02, C06, C07)."""
from __future__ import annotations

import ast
from typing import Optional

from ..axes import (
    Arr, ArrayInterp, Axis, Case, Const, DataArrayVal, Leaf, Op, Polygons, Top, fix, fresh, leaves, merged_order, source,
)
from ..linear import Lin, const, symbol
from ..model import AnalysisError, const_value, dotted, norm_text
from ..report import Context

GRID = 'emsarray.conventions.grid'
ARAKAWA = 'emsarray.conventions.arakawa_c'


def size_sym(handle: str) -> Lin:
    return symbol(('size', handle))


def topology_shape(ctx: Context, cls_qual: str):
    """Interpret `<Topology>.shape`: a tuple of sizes[self.<handle>] -> [size symbols]; None if not of that form."""
    ci = ctx.p.cls(cls_qual)
    fi = ctx.p.resolve_method(ci, 'shape')
    if fi is None:
        return None, None
    flow = ctx.flow(fi)
    rets = fi.returns()
    if len(rets) != 1:
        return fi, None
    v = flow.resolve(rets[0].value)
    if not isinstance(v, ast.Tuple):
        return fi, None
    out = []
    for e in v.elts:
        e = flow.resolve(e)
        if isinstance(e, ast.Subscript) and isinstance(flow.resolve(e.value), ast.Attribute) and flow.resolve(e.value).attr == 'sizes' \
                and isinstance(e.slice, ast.Attribute) and isinstance(e.slice.value, ast.Name) and e.slice.value.id == 'self':
            out.append(size_sym(e.slice.attr))
        else:
            return fi, None
    return fi, out


def strip_values(e: ast.AST) -> ast.AST:
    while True:
        if isinstance(e, ast.Attribute) and e.attr in ('values', 'data'):
            e = e.value
        elif isinstance(e, ast.Call) and isinstance(e.func, ast.Attribute) and e.func.attr in ('copy', 'to_numpy') and not e.args:
            e = e.func.value
        else:
            return e


class Sources:
    """source_of callback: types the arrays a builder reads from the topology contract."""

    def __init__(self, ctx: Context, fi, table: dict, shapes: dict, passthrough=()):
        self.ctx = ctx
        self.fi = fi
        self.flow = ctx.flow(fi)
        self.table = table          # normalised text -> (source name, [sizes])
        self.shapes = shapes        # normalised text -> [sizes]  (for `.shape` tuples)
        self.passthrough = set(passthrough)
        self.cache: dict[str, Arr] = {}
        self.unknown: list[str] = []

    def __call__(self, e: ast.AST, interp: ArrayInterp):
        core = strip_values(e)
        txt = norm_text(core)
        if isinstance(core, ast.Name):
            d = self.flow.single_def(core)
            if d is not None and d.kind == 'assign' and d.value is not None and core.id not in interp.env:
                return interp.eval(d.value)
        if txt in self.shapes:
            return ('tuple', list(self.shapes[txt]))
        if txt in self.table:
            if txt not in self.cache:
                name, sizes = self.table[txt]
                self.cache[txt] = source(name, sizes)
            a = self.cache[txt]
            return Arr(list(a.axes), a.body)
        if isinstance(core, ast.Call):
            q = interp.qualify(core.func) or ''
            if q.rsplit('.', 1)[-1] in self.passthrough and core.args:
                return interp.eval(core.args[0])
        self.unknown.append(txt)
        return Top(f"unknown source `{txt[:60]}`")


def interpret(ctx: Context, fi, table, shapes, self_class=None, passthrough=(), env=None):
    types = ctx.types(fi, self_class)
    qualify = lambda n: ctx.p.qualify(n, fi, types)  # noqa: E731
    src = Sources(ctx, fi, table, shapes, passthrough)
    it = ArrayInterp(fi, qualify, src, env)
    it.run()
    ctx.functions_analysed.add(fi.qualname)
    return it, src


# --------------------------------------------------------------------------- per builder facts

def corner_offsets(points: Arr, corner_axis: Axis, xy_axis: Axis, *, lon_src: str, lat_src: str, spatial: list[Axis]):
    """For each corner c and slot k: the set of (source, index offsets relative to the spatial axes, extra picks)."""
    out = []
    n = int(corner_axis.size.const)
    for c in range(n):
        row = []
        for k in range(2):
            b = fix(fix(points.body, corner_axis.key, c), xy_axis.key, k)
            row.append(leaves(b))
        out.append(row)
    return out


def gray_cycle(pairs: list[tuple[int, int]]) -> bool:
    """Four corners of the unit square visited as a Hamiltonian cycle (any start, any orientation)."""
    if len(pairs) != 4 or set(pairs) != {(0, 0), (0, 1), (1, 0), (1, 1)}:
        return False
    for i in range(4):
        a, b = pairs[i], pairs[(i + 1) % 4]
        if abs(a[0] - b[0]) + abs(a[1] - b[1]) != 1:
            return False
    return True


def offset_of(l: Lin, key: str) -> Optional[int]:
    """l == key + k  ->  k ; None otherwise."""
    if l.get(key, 0) != 1:
        return None
    rest = {k: v for k, v in l.items() if k not in (key, 1)}
    if rest:
        return None
    return int(l.get(1, 0))


def grid_dimension_handles(ctx: Context, cls_qual: str) -> Optional[list[str]]:
    """`CFGrid.grid_dimensions` -> ['y_dimension', 'x_dimension'] (attribute names on self.topology)."""
    fi = ctx.p.func(cls_qual + '.grid_dimensions')
    for node in ast.walk(fi.node):
        if isinstance(node, ast.Dict) and len(node.values) == 1 and isinstance(node.values[0], (ast.List, ast.Tuple)):
            out = []
            for e in node.values[0].elts:
                d = dotted(e) or ''
                if d.startswith('self.topology.'):
                    out.append(d.split('.')[-1])
                else:
                    return None
            return out
    return None
