"""C11 - convention detection and binding are deterministic and stable."""
from __future__ import annotations

import ast
import re

from ..callgraph import CallGraph
from ..effects import noncanonical_sources, roots_of, writes_in
from ..model import AnalysisError, const_value, dotted, kwarg, norm_text, walk_no_nested
from ..report import Context
from .common import calls_in, callee, enclosing_ifs, expand_locals, following_guards, is_none, method_calls

BASE = 'emsarray.conventions._base.Convention'
SPEC = 'emsarray.conventions._base.Specificity'
REG = 'emsarray.conventions._registry'
STATE = 'emsarray.state.State'
GENERIC = ('emsarray.conventions.grid.CFGrid1D', 'emsarray.conventions.grid.CFGrid2D')


def specificity_values(ctx):
    ci = ctx.p.cls(SPEC)
    vals = {}
    for k, v in ci.attrs.items():
        c = const_value(v, None)
        if isinstance(c, int):
            vals[k] = c
    ctx.require(len(vals) >= 2, "Specificity enum values not readable")
    return vals


def return_values(ctx, fi, spec):
    """[(return node, value)] with value an int, None, or ('?', text)."""
    flow = ctx.flow(fi)
    out = []
    for r in fi.returns():
        v = flow.resolve(r.value) if r.value is not None else None
        if v is None or is_none(v):
            out.append((r, None))
            continue
        d = dotted(v)
        if d and d.rsplit('.', 1)[0].endswith('Specificity') and d.rsplit('.', 1)[-1] in spec:
            out.append((r, spec[d.rsplit('.', 1)[-1]]))
            continue
        c = const_value(v, None)
        if isinstance(c, int) and not isinstance(c, bool):
            out.append((r, c))
            continue
        out.append((r, ('?', norm_text(v))))
    return out


def early_none_tests(ctx, fi, ret):
    """Tests of `if T: return None` statements that dominate `ret`, plus enclosing ifs (negated when in else)."""
    flow = ctx.flow(fi)
    tests = []
    for st in following_guards(fi, ret):
        if all(isinstance(s, ast.Return) and (s.value is None or is_none(s.value)) for s in st.body):
            tests.append(('unless', st.test))
    for st, inb in enclosing_ifs(fi, ret):
        tests.append(('if' if inb else 'unless', st.test))
    return tests


def _recorded_iff_not_none(ctx, fi, append_call, result_expr) -> bool:
    """What is known where the pair is recorded is exactly `<result> is None` being false (as a nested test or a guard clause that continues)."""
    from .common import facts
    name = norm_text(result_expr)
    fs = facts(ctx, fi, append_call, expand=False)
    return fs == {(f"{name} is None", False)}


def run(ctx: Context) -> None:
    p = ctx.p
    base = p.cls(BASE)
    cg = CallGraph(p)
    spec = specificity_values(ctx)
    ctx.rule('R11.1', "specificity table: generic CF grids return the lowest value, every other convention strictly more, a subclass outranks the ancestor whose test it also satisfies; non-None results are returned only after the convention's distinguishing tests", floor=12)
    ctx.rule('R11.2', "choice rule: conventions are tried registered-first then entry points, de-duplicated in order; matches are sorted by specificity descending with a stable sort; the first is chosen, none is refused; registering invalidates the cached list", floor=10)
    ctx.rule('R11.3', "detection is a function of the dataset: nothing reachable from check_dataset writes to the dataset, to class/global state, or reads a non-deterministic source", floor=5)
    ctx.rule('R11.4', "binding typestate: State.convention has one writer (bind_convention) whose only caller is Convention.bind behind the is_bound test; the accessor returns the bound object or constructs, binds and returns one object", floor=10)
    ctx.rule('R11.5', "detection reads class level tables: no instance changes them in place, and a hand built ArakawaC keeps its names on the instance", floor=8)
    from . import infra as _infra
    _infra.class_state(ctx, 'R11.5')
    _infra.arakawa_names(ctx, 'R11.5')
    ctx.assume("xarray creates one accessor/state object per Dataset object and none for copies (register_dataset_accessor caching)")

    # ------------------------------------------------------------------ R11.1
    with ctx.section('R11.1'):
        impls = p.implementations(base, 'check_dataset')
        ctx.require(len(impls) >= 5, f"expected >= 5 check_dataset implementations, found {len(impls)}")
        table = {}
        for fi in impls:
            rv = return_values(ctx, fi, spec)
            unknown = [v for _, v in rv if isinstance(v, tuple)]
            ctx.check('R11.1', not unknown, "check_dataset returns a Specificity constant or None on every exit", fi, fi.node,
                      construct=f"{fi.cls.short}.check_dataset returns {[v for _, v in rv]}")
            table[fi.cls.qualname] = [v for _, v in rv if isinstance(v, int)]
        low = min(spec.values())
        for q in GENERIC:
            q = p.canonical(q)
            ctx.check('R11.1', table.get(q) and set(table[q]) == {low}, "generic CF grid conventions match with the lowest specificity", p.func(q + '.check_dataset'),
                      p.func(q + '.check_dataset').node, construct=f"{q.rsplit('.', 1)[-1]}: {table.get(q)}")
        generic_max = max((max(table[p.canonical(q)]) for q in GENERIC if table.get(p.canonical(q))), default=low)
        for fi in impls:
            q = fi.cls.qualname
            if q in [p.canonical(g) for g in GENERIC]:
                continue
            vals = table[q]
            ctx.check('R11.1', bool(vals) and min(vals) > generic_max, "a specific convention outranks the generic CF grids", fi, fi.node,
                      construct=f"{fi.cls.short}: {vals} vs generic {generic_max}")
            # subclass vs ancestor with its own test
            for anc in p.mro(fi.cls)[1:]:
                if anc.qualname in table and table[anc.qualname] and anc.qualname != q:
                    ctx.check('R11.1', bool(vals) and min(vals) > max(table[anc.qualname]),
                              "a subclass outranks the ancestor convention it also matches", fi, fi.node,
                              construct=f"{fi.cls.short} {vals} vs {anc.short} {table[anc.qualname]}")
        # distinguishing tests dominate the non-None return
        def tests_text(fi):
            rv = return_values(ctx, fi, spec)
            out = []
            for r, v in rv:
                if isinstance(v, int):
                    fl_ = ctx.flow(fi)
                    out.append((r, [(pol, norm_text(expand_locals(fl_, t))) for pol, t in early_none_tests(ctx, fi, r)]))
            return out

        ug = ctx.func('emsarray.conventions.ugrid.UGrid.check_dataset')
        for r, tests in tests_text(ug):
            marker = any(pol == 'unless' and re.search(r"'[^']*ugrid[^']*'\s+not in", t, re.I) or
                         pol == 'if' and re.search(r"'[^']*ugrid[^']*'\s+in", t, re.I) for pol, t in tests)
            dim2 = any((pol == 'unless' and re.search(r"topology_dimension'?\)?\s*!=\s*2", t)) or
                       (pol == 'if' and re.search(r"topology_dimension'?\)?\s*==\s*2", t)) for pol, t in tests)
            ctx.check('R11.1', bool(marker), "UGRID matches only when the Conventions attribute carries the UGRID marker", ug, r,
                      construct=f"tests before `{norm_text(r)}`: {[t for _, t in tests]}")
            ctx.check('R11.1', bool(dim2), "UGRID matches only a mesh variable with topology_dimension == 2", ug, r,
                      construct=f"topology_dimension test before `{norm_text(r)}`")
            flow = ctx.flow(ug)
            # the marker is read from the dataset's Conventions attribute
            src_ok = any(isinstance(n, ast.Call) and isinstance(n.func, ast.Attribute) and n.func.attr == 'get' and n.args
                         and const_value(n.args[0], None) == 'Conventions' and norm_text(n.func.value) == f"{ug.params[1]}.attrs"
                         for n in ast.walk(ug.node))
            ctx.check('R11.1', src_ok, "the marker is looked for in dataset.attrs['Conventions']", ug, ug.node, construct="dataset.attrs.get('Conventions', ...)")
        # a missing mesh variable means no match
        handlers = [h for n in walk_no_nested(ug.node) if isinstance(n, ast.Try) for h in n.handlers]
        ctx.check('R11.1', any(all(isinstance(s, ast.Return) and is_none(s.value) for s in h.body) for h in handlers),
                  "no mesh variable means no match (not an exception)", ug, ug.node, construct='except ValueError: return None')
        ss = ctx.func('emsarray.conventions.shoc.ShocSimple.check_dataset')
        from .common import facts as _facts11
        for r, tests in tests_text(ss):
            known = _facts11(ctx, ss, r)
            t1 = any(pol and "'ems_version' in " in t and '.attrs' in t for t, pol in known)
            t2 = any(pol and 'issuperset(cls._dimensions)' in t for t, pol in known)
            ctx.check('R11.1', t1 and t2, "SHOC simple matches only with the ems_version attribute and its (j, i) dimensions", ss, r,
                      construct=f"known at `{norm_text(r)}`: {sorted(t for t, pol in known if pol)}"[:300])
        ak = ctx.func('emsarray.conventions.arakawa_c.ArakawaC.check_dataset')
        for r, tests in tests_text(ak):
            known = _facts11(ctx, ak, r)
            t1 = any(pol and t.startswith('all(') and 'in dataset.variables' in t and 'coordinate_names' in t for t, pol in known)
            t0 = any(pol and t == "hasattr(cls, 'coordinate_names')" for t, pol in known)
            ctx.check('R11.1', t1 and t0, "Arakawa C conventions match only when all their coordinate variables are present", ak, r,
                      construct=f"tests before `{norm_text(r)}`: {[t for _, t in tests]}")
        from .common import facts as _facts
        for q, n in (('emsarray.conventions.grid.CFGrid1D', 1), ('emsarray.conventions.grid.CFGrid2D', 2)):
            fi = ctx.func(q + '.check_dataset')
            lows = [r for r in fi.returns() if norm_text(r.value).endswith('Specificity.LOW')]
            ctx.need('R11.1', bool(lows), f"CF {n}-D grid returns Specificity.LOW somewhere", fi)
            for r in lows:
                fs = _facts(ctx, fi, r)
                txt = sorted(fs)
                lat_n = any(pol and re.fullmatch(rf"len\((?:[\w.()]*\.)?latitude\.dims\) == {n}", t) for t, pol in fs)
                lon_n = any(pol and re.fullmatch(rf"len\((?:[\w.()]*\.)?longitude\.dims\) == {n}", t) for t, pol in fs)
                ctx.check('R11.1', lat_n and lon_n, f"CF {n}-D grid matches only {n}-dimensional latitude and longitude", fi, r,
                          construct=f"known where `{norm_text(r)}`: {txt}"[:400])
                same = [(t, pol) for t, pol in fs if re.fullmatch(r"(?:[\w.()]*\.)?(latitude|longitude)\.dims == (?:[\w.()]*\.)?(latitude|longitude)\.dims", t)]
                same_set = [(t, pol) for t, pol in fs if re.fullmatch(r"set\((?:[\w.()]*\.)?(latitude|longitude)\.dims\) == set\((?:[\w.()]*\.)?(latitude|longitude)\.dims\)", t)]
                if n == 1:
                    ok2 = any(not pol for t, pol in same)
                    ctx.check('R11.1', ok2, "a CF 1-D grid needs latitude and longitude on two different dimensions: both along one dimension is a list of locations, "
                              "which no convention handles and which must be refused", fi, r, construct=f"known where `{norm_text(r)}`: {txt}"[:400])
                else:
                    ok2 = any(pol for t, pol in same + same_set)
                    ctx.check('R11.1', ok2, "a CF 2-D grid needs latitude and longitude on the same two dimensions (a latitude on the node grid with a longitude on the face grid is not a grid)",
                              fi, r, construct=f"known where `{norm_text(r)}`: {txt}"[:400])
        from . import infra as _infra3
        for q in ('latitude_name', 'longitude_name'):
            _infra3.bounds_excluded(ctx, 'R11.1', f"emsarray.conventions.grid.CFGridTopology.{q}", f"{q[:-5]} discovery")
        _infra3.bounds_names_helper(ctx, 'R11.1')

    # ------------------------------------------------------------------ R11.2
    with ctx.section('R11.2'):
        mc = ctx.func(f"{REG}.ConventionRegistry.match_conventions")
        flow = ctx.flow(mc)
        CONVS = ('attr', ('param', 'self'), 'conventions')
        # the match list: (convention, convention.check_dataset(dataset)) for every convention in order, kept iff not None.
        # Two spellings: an accumulator loop, or one comprehension whose filter binds the result (`:=`).
        loops = [n for n in walk_no_nested(mc.node) if isinstance(n, ast.For)]
        cd = [c for c in method_calls(mc, 'check_dataset')]
        ok_loop = ok_app = False
        matches_c = None
        site = mc.node
        if len(loops) == 1 and len(cd) == 1:
            ok_loop = flow.canon(loops[0].iter) == CONVS
            site = loops[0]
            appends = [c for c in method_calls(mc, 'append')]
            if len(appends) == 1 and ok_loop:
                a = appends[0]
                g = enclosing_ifs(mc, a)
                item = a.args[0] if a.args else None
                ok_app = (isinstance(item, ast.Tuple) and len(item.elts) == 2
                          and isinstance(item.elts[0], ast.Name) and isinstance(loops[0].target, ast.Name) and item.elts[0].id == loops[0].target.id
                          and flow.resolve(item.elts[1]) is cd[0]
                          and isinstance(cd[0].func.value, ast.Name) and cd[0].func.value.id == loops[0].target.id
                          and len(cd[0].args) == 1 and flow.canon(cd[0].args[0]) == ('param', mc.params[1])
                          and _recorded_iff_not_none(ctx, mc, a, item.elts[1])
                          and not [x for x in ast.walk(loops[0]) if isinstance(x, (ast.Break, ast.Return))])
                matches_c = flow.canon(a.func.value)
                site = a
        else:
            comps = [n for n in ast.walk(mc.node) if isinstance(n, ast.ListComp)]
            if len(comps) == 1 and len(cd) == 1 and len(comps[0].generators) == 1:
                lc, gen = comps[0], comps[0].generators[0]
                site = lc
                ok_loop = flow.canon(gen.iter) == CONVS and isinstance(gen.target, ast.Name)
                bound = None
                if len(gen.ifs) == 1 and isinstance(gen.ifs[0], ast.Compare) and len(gen.ifs[0].ops) == 1 and isinstance(gen.ifs[0].ops[0], ast.IsNot) \
                        and is_none(gen.ifs[0].comparators[0]) and isinstance(gen.ifs[0].left, ast.NamedExpr) and gen.ifs[0].left.value is cd[0]:
                    bound = gen.ifs[0].left.target.id
                ok_app = (ok_loop and bound is not None and isinstance(lc.elt, ast.Tuple) and len(lc.elt.elts) == 2
                          and isinstance(lc.elt.elts[0], ast.Name) and lc.elt.elts[0].id == gen.target.id
                          and isinstance(lc.elt.elts[1], ast.Name) and lc.elt.elts[1].id == bound
                          and isinstance(cd[0].func.value, ast.Name) and cd[0].func.value.id == gen.target.id
                          and len(cd[0].args) == 1 and flow.canon(cd[0].args[0]) == ('param', mc.params[1]))
                matches_c = ('node', id(lc))
        ctx.check('R11.2', ok_loop, "conventions are tried in the order of self.conventions", mc, site)
        ctx.check('R11.2', ok_app, "(convention, check_dataset(dataset)) is recorded exactly when the result is not None", mc, site)
        rets = mc.returns()
        ok_sort = False
        detail = ''
        if len(rets) == 1:
            v = flow.resolve(rets[0].value)
            detail = norm_text(v)
            if isinstance(v, ast.Call) and dotted(v.func) == 'sorted' and len(v.args) == 1 and matches_c is not None \
                    and (flow.canon(v.args[0]) == matches_c or ('node', id(flow.resolve(v.args[0]))) == matches_c):
                key = kwarg(v, 'key')
                rev = kwarg(v, 'reverse')
                key_idx = None
                negated = False
                if isinstance(key, ast.Lambda) and len(key.args.args) == 1:
                    body = key.body
                    if isinstance(body, ast.UnaryOp) and isinstance(body.op, ast.USub):
                        negated = True
                        body = body.operand
                    if isinstance(body, ast.Subscript) and isinstance(body.value, ast.Name) and body.value.id == key.args.args[0].arg:
                        key_idx = const_value(body.slice, None)
                elif isinstance(key, ast.Call) and callee(ctx, mc, key) == 'operator.itemgetter' and len(key.args) == 1:
                    key_idx = const_value(key.args[0], None)
                rev_true = rev is not None and const_value(rev, None) is True
                ok_sort = key_idx == 1 and (rev_true != negated)
        ctx.check('R11.2', ok_sort, "matches are returned by a stable sort on the specificity component, descending", mc,
                  rets[0] if rets else mc.node, construct=f"return {detail}")
        gc = ctx.func(f"{REG}.ConventionRegistry.guess_convention")
        flow = ctx.flow(gc)
        from .common import guards as _guards, known_empty
        mcalls = [c for c in method_calls(gc, 'match_conventions')]
        ok_first = False
        ok_none = False
        for r in gc.returns():
            v = flow.resolve(r.value) if r.value is not None else None
            first_of_first = False
            if isinstance(v, ast.Subscript) and const_value(v.slice, None) == 0 and isinstance(v.value, ast.Subscript) \
                    and const_value(v.value.slice, None) == 0 and mcalls and flow.resolve(v.value.value) is mcalls[0]:
                first_of_first = True
            elif r.value is not None and mcalls:
                cv_ = flow.canon(r.value)
                # best, _ = matches[0]
                if isinstance(cv_, tuple) and cv_[0] == 'unpack' and cv_[2] == (0,) and isinstance(cv_[1], tuple) and cv_[1][0] == 'sub' \
                        and cv_[1][2] == ('const', '0') and cv_[1][1] == flow.canon(mcalls[0]):
                    first_of_first = True
            emp = known_empty(gc, r, flow, lambda e: mcalls and flow.resolve(e) is mcalls[0], truthiness=True)
            if is_none(v):
                ok_none = ok_none or emp is True or emp is None and not first_of_first
                ok_none = ok_none and emp is not False
            elif first_of_first:
                ok_first = emp is False
        ctx.check('R11.2', ok_first and len(mcalls) == 1 and flow.canon(mcalls[0].args[0]) == ('param', gc.params[1]),
                  "the first (most specific, earliest registered) match of this dataset is chosen", gc, gc.node, construct='return matches[0][0] when matches')
        ctx.check('R11.2', ok_none, "no match yields None", gc, gc.node, construct='return None when no matches')
        cv = ctx.func(f"{REG}.ConventionRegistry.conventions")
        flow = ctx.flow(cv)
        REGD, ENTRY = ('attr', ('param', 'self'), 'registered_conventions'), ('attr', ('param', 'self'), 'entry_point_conventions')
        chains = [c for c in calls_in(cv) if callee(ctx, cv, c) == 'itertools.chain']
        ok_chain = len(chains) == 1 and len(chains[0].args) == 2 and flow.canon(chains[0].args[0]) == REGD and flow.canon(chains[0].args[1]) == ENTRY
        ctx.check('R11.2', ok_chain, "manually registered conventions come before entry point conventions", cv, chains[0] if chains else cv.node)
        loops = [n for n in walk_no_nested(cv.node) if isinstance(n, ast.For)]
        appends = [c for c in method_calls(cv, 'append')]
        ok_dd = False
        dd_site = cv.node
        if len(appends) == 1 and len(loops) == 1 and chains:
            g = enclosing_ifs(cv, appends[0])
            dd_site = appends[0]
            ok_dd = (flow.resolve(loops[0].iter) is chains[0]
                     and any(inb and isinstance(st.test, ast.Compare) and isinstance(st.test.ops[0], ast.NotIn) for st, inb in g)
                     and isinstance(appends[0].args[0], ast.Name) and isinstance(loops[0].target, ast.Name)
                     and appends[0].args[0].id == loops[0].target.id
                     and all(flow.canon(r.value) == flow.canon(appends[0].func.value) for r in cv.returns()))
        elif chains and not loops:
            # list(dict.fromkeys(chain(...))): first occurrence of every key, in order
            for r in cv.returns():
                v = flow.resolve(r.value)
                dd_site = r
                ok_dd = (isinstance(v, ast.Call) and isinstance(v.func, ast.Name) and v.func.id in ('list', 'tuple') and len(v.args) == 1
                         and isinstance(flow.resolve(v.args[0]), ast.Call) and dotted(flow.resolve(v.args[0]).func) == 'dict.fromkeys'
                         and len(flow.resolve(v.args[0]).args) == 1 and flow.resolve(flow.resolve(v.args[0]).args[0]) is chains[0])
        ctx.check('R11.2', ok_dd, "duplicates are dropped keeping the first occurrence; the list is returned in that order", cv, dd_site)
        ac = ctx.func(f"{REG}.ConventionRegistry.add_convention")
        flow = ctx.flow(ac)
        dels = [n for n in ast.walk(ac.node) if isinstance(n, ast.Delete) and any(norm_text(t) == 'self.conventions' for t in n.targets)]
        apps = [c for c in method_calls(ac, 'append') if flow.canon(c.func.value) == ('attr', ('param', 'self'), 'registered_conventions')
                and c.args and flow.canon(c.args[0]) == ('param', ac.params[1])]
        ctx.check('R11.2', len(dels) == 1, "registering a convention invalidates the cached convention list", ac, dels[0] if dels else ac.node,
                  construct='del self.conventions')
        ctx.check('R11.2', len(apps) == 1, "the convention is appended to the registered list", ac, apps[0] if apps else ac.node,
                  construct='self.registered_conventions.append(convention)')
        from .common import path_conditions
        conds = [(norm_text(t), pol) for n_ in (apps[:1] + dels[:1]) for t, pol in path_conditions(ac, n_)]
        ctx.check('R11.2', bool(apps) and bool(dels) and not conds and not any(isinstance(n_, ast.Return) for n_ in walk_no_nested(ac.node)),
                  "registration is unconditional: every call appends and invalidates, whatever is already known (a convention registered by hand that is also an entry point must move to the front)",
                  ac, apps[0] if apps else ac.node, construct=f"add_convention registers under conditions {conds}")
        gd = ctx.func(f"{REG}.get_dataset_convention")
        flow = ctx.flow(gd)
        ok = False
        for r in gd.returns():
            v = flow.resolve(r.value)
            ok = (isinstance(v, ast.Call) and norm_text(v.func) == 'registry.guess_convention' and len(v.args) == 1
                  and flow.canon(v.args[0]) == ('param', gd.params[0]))
        reg_assign = p.module(REG).assigns.get('registry')
        ok = ok and isinstance(reg_assign, ast.Call) and dotted(reg_assign.func) == 'ConventionRegistry'
        ctx.check('R11.2', ok, "get_dataset_convention asks the one module level registry", gd, gd.node)

    # ------------------------------------------------------------------ R11.3 purity of detection
    with ctx.section('R11.3 purity of detection'):
        n_funcs = 0
        for fi in impls:
            concrete = [c for c in p.subclasses(fi.cls) if p.resolve_method(c, 'check_dataset') is fi]
            for cc in concrete[:4]:
                closure = cg.closure([(fi, cc)], stop=lambda f: not f.qualname.startswith('emsarray.'))
                bad = []
                for g, gcls in closure:
                    n_funcs += 1
                    gflow = ctx.flow(g)
                    for node, obj, how in writes_in(g, gflow):
                        roots = roots_of(gflow, obj)
                        # writes to the receiver's own fresh object (`self.x = ...` in __init__ of a helper) are fine
                        rootname = norm_text(obj).split('.')[0].split('[')[0]
                        if rootname == 'self' and g.name in ('__init__', '__post_init__'):
                            continue
                        params_hit = [r for r in roots if r.startswith('param:') and r != 'param:self']
                        if rootname in ('cls',) or any(r.startswith('global:') for r in roots) or params_hit or rootname == 'self':
                            if roots == {'fresh'}:
                                continue
                            bad.append(f"{g.short}: {how}")
                    for node in ast.walk(g.node):
                        if isinstance(node, (ast.Global, ast.Nonlocal)):
                            bad.append(f"{g.short}: {norm_text(node)}")
                    for node, q, why in noncanonical_sources(g, lambda n, g=g: p.qualify(n, g)):
                        bad.append(f"{g.short}: {q} ({why})")
                ctx.check('R11.3', not bad, "everything reachable from check_dataset is effect free and deterministic", fi, fi.node,
                          construct=f"{cc.short}.check_dataset closure ({len(closure)} functions): " + ('; '.join(sorted(set(bad))[:4]) if bad else 'no writes, no non-deterministic reads'))
        ctx.notes.append(f"R11.3 analysed {n_funcs} function instances in check_dataset closures")
        # scans take the first match in dataset order
        for q in ('emsarray.conventions.grid.CFGridTopology.latitude_name', 'emsarray.conventions.grid.CFGridTopology.longitude_name'):
            fi = ctx.func(q)
            fl_ = ctx.flow(fi)
            nx = [c for c in calls_in(fi) if dotted(c.func) == 'next' and c.args and isinstance(fl_.resolve(c.args[0]), ast.GeneratorExp)]
            ok = False
            for c in nx:
                it = norm_text(fl_.resolve(c.args[0]).generators[0].iter)
                ok = ok or it in ('self.dataset.variables.items()', 'self.dataset.data_vars.values()', 'self.dataset.variables.values()',
                                  'self.dataset.data_vars.items()', 'self.dataset.variables', 'self.dataset.variables.keys()', 'self.dataset.data_vars', 'self.dataset.data_vars.keys()')
            ctx.check('R11.3', ok, "coordinate discovery takes the first match in dataset variable order", fi, nx[0] if nx else fi.node,
                      construct=f"next(... for ... in {norm_text(fl_.resolve(nx[0].args[0]).generators[0].iter) if nx else '?'})")
        # the mesh variable: of the variables with cf_role mesh_topology, the 2-D one whatever its position
        # (a 1-D network listed first must not decide whether the dataset is a UGRID dataset)
        from .common import path_conditions
        mv = ctx.func('emsarray.conventions.ugrid.Mesh2DTopology.mesh_variable')
        mflow = ctx.flow(mv)

        def role_filtered(e) -> bool:
            return mflow.reaches(e, lambda n: isinstance(n, ast.Compare) and "attrs.get('cf_role') == 'mesh_topology'" in norm_text(n)) and \
                mflow.reaches(e, lambda n: norm_text(n) in ('self.dataset.data_vars.values()', 'self.dataset.data_vars.items()', 'self.dataset.data_vars'))
        preferred, fallback, next_forms = [], [], []
        for r in mv.returns():
            conds = path_conditions(mv, r)
            if any('topology_key' in norm_text(t) and pol for t, pol in conds if not (isinstance(t, ast.Compare) and isinstance(t.ops[0], ast.Is))) or \
                    any(norm_text(t) == 'self.topology_key is not None' and pol or norm_text(t) == 'self.topology_key is None' and not pol for t, pol in conds):
                continue
            two_d = any("attrs.get('topology_dimension') == 2" in norm_text(t) and pol for t, pol in conds)
            comp = mflow.resolve(r.value)
            if isinstance(comp, ast.Call) and dotted(comp.func) == 'next' and comp.args and isinstance(mflow.resolve(comp.args[0]), ast.GeneratorExp):
                gen_ = mflow.resolve(comp.args[0])
                two_d = two_d or any("attrs.get('topology_dimension') == 2" in norm_text(i) for g_ in gen_.generators for i in g_.ifs)
                if two_d and len(comp.args) == 2:
                    # next(<2-D candidates>, <first candidate>): preference and fall-back in one expression
                    both_ok = role_filtered(gen_.generators[0].iter) and role_filtered(comp.args[1])
                    if both_ok:
                        next_forms.append(r)
                        continue
            (preferred if two_d else fallback).append(r)
        ok = (bool(preferred) or bool(next_forms)) and all(role_filtered(r.value) for r in preferred + fallback) and \
            all(min(x.lineno for x in preferred + next_forms) <= f.lineno for f in fallback)
        ctx.check('R11.3', ok, "the mesh variable is looked for among the data variables with cf_role 'mesh_topology', and one with topology_dimension 2 is taken before any other, wherever it stands", mv,
                  (preferred or fallback or [mv.node])[0],
                  construct=f"returns preferring topology_dimension == 2: {[norm_text(r.value) for r in preferred]}; fall-back: {[norm_text(r.value) for r in fallback]}")

    # ------------------------------------------------------------------ R11.4 typestate
    with ctx.section('R11.4 typestate'):
        state = p.cls(STATE)
        writers = []
        for fi in p.functions.values():
            for node in ast.walk(fi.node):
                if isinstance(node, ast.Attribute) and isinstance(node.ctx, (ast.Store, ast.Del)) and node.attr == 'convention':
                    if fi.parent is not None and (fi.parent.qualname, id(node)) in {(w[0].qualname, id(w[1])) for w in writers}:
                        continue
                    # receivers known to be some other class (Transect.convention) are not the binding state
                    rt = ctx.types(fi).type_of(node.value)
                    if rt is not None and rt in p.classes and not p.is_subclass(p.classes[rt], STATE):
                        continue
                    writers.append((fi, node))
                if isinstance(node, ast.Call) and dotted(node.func) in ('setattr', 'object.__setattr__') and len(node.args) >= 2 \
                        and const_value(node.args[1], None) == 'convention':
                    writers.append((fi, node))
        uniq = {(f.qualname.split('.<locals>')[0], getattr(n, 'lineno', 0)) for f, n in writers}
        ok_w = uniq and all(q == f"{STATE}.bind_convention" for q, _ in uniq) and len(uniq) == 1
        ctx.check('R11.4', bool(ok_w), "the only store to <state>.convention is in State.bind_convention", writers[0][0] if writers else None,
                  writers[0][1] if writers else None, construct=f"writers of .convention: {sorted(q for q, _ in uniq)}")
        bc = ctx.func(f"{STATE}.bind_convention")
        flow = ctx.flow(bc)
        stores = [n for n in walk_no_nested(bc.node) if isinstance(n, ast.Assign) and norm_text(n.targets[0]) == 'self.convention']
        from .common import guards as _guards11
        g_store = _guards11(bc, stores[0]) if len(stores) == 1 else []
        raises_bc = [n for n in ast.walk(bc.node) if isinstance(n, ast.Raise)]
        ok_refuse = len(stores) == 1 and ('self.is_bound()', False) in g_store and any(('self.is_bound()', True) in _guards11(bc, r_) for r_ in raises_bc)
        ctx.check('R11.4', ok_refuse, "bind_convention itself refuses a second convention (as its docstring says): the store is reached only when the state is unbound, an error is raised otherwise", bc,
                  stores[0] if stores else bc.node, construct=f"store guards {g_store}; raises {len(raises_bc)}")
        ctx.check('R11.4', len(stores) == 1 and flow.canon(stores[0].value) == ('param', bc.params[1]), "bind_convention stores the convention it is given", bc,
                  stores[0] if stores else bc.node)
        ib = ctx.func(f"{STATE}.is_bound")
        ok = all(norm_text(r.value) == 'self.convention is not None' for r in ib.returns()) and ib.returns()
        ctx.check('R11.4', bool(ok), "is_bound is `self.convention is not None`", ib, ib.node)
        default = state.attrs.get('convention')
        ctx.check('R11.4', default is not None and is_none(default), "a new State starts unbound", bc, state.node, construct=f"State.convention default = {norm_text(default) if default is not None else 'missing'}")
        callers = [(f, s) for f, s in cg.callers_of(f"{STATE}.bind_convention")]
        also = [(f, n) for f in p.functions.values() for n in ast.walk(f.node)
                if isinstance(n, ast.Call) and isinstance(n.func, ast.Attribute) and n.func.attr == 'bind_convention']
        names = sorted({f.qualname for f, _ in also})
        ctx.check('R11.4', names == [f"{BASE}.bind"], "bind_convention is called only from Convention.bind", also[0][0] if also else None,
                  also[0][1] if also else None, construct=f"callers of bind_convention: {names}")
        bind = ctx.func(f"{BASE}.bind")
        flow = ctx.flow(bind)
        cfg = ctx.cfg(bind)
        from ..cfg import stmt_of
        bcalls = [c for c in method_calls(bind, 'bind_convention')]
        ctx.need('R11.4', len(bcalls) == 1, "Convention.bind calls bind_convention once", bind)
        bcall = bcalls[0]
        st_call = stmt_of(bind, bcall)
        guard_ok = False
        for n in walk_no_nested(bind.node):
            if isinstance(n, ast.If) and isinstance(n.test, ast.Call) and isinstance(n.test.func, ast.Attribute) \
                    and n.test.func.attr == 'is_bound' and flow.canon(n.test.func.value) == flow.canon(bcall.func.value) \
                    and n.body and all(isinstance(s, ast.Raise) for s in n.body[-1:]) and not n.orelse \
                    and cfg.dominates(n, st_call):
                guard_ok = True
        ctx.check('R11.4', guard_ok or ok_refuse, "a second attachment is refused: the bind is dominated by `if state.is_bound(): raise`, or bind_convention (its only way in) refuses itself", bind, bcall)
        # ... and bind has no quiet way out: every exit that is not an error has gone through bind_convention
        # (a bind that returns silently when "the same kind of" convention is bound accepts a second object while .ems keeps answering with the first)
        quiet = [n for k, n in cfg.exits() if k in ('return', 'fall') and n is not st_call and not cfg.dominates(st_call, n)]
        ctx.check('R11.4', not quiet, "every exit of Convention.bind that is not a refusal has bound this convention", bind, quiet[0] if quiet else bcall,
                  construct=f"exits of bind that bypass bind_convention: {len(quiet)}")
        ctx.check('R11.4', len(bcall.args) == 1 and flow.canon(bcall.args[0]) == ('param', 'self'), "the convention bound is this instance", bind, bcall)
        sv = flow.resolve(bcall.func.value)
        ok_state = (isinstance(sv, ast.Call) and norm_text(sv.func) == 'State.get' and len(sv.args) == 1
                    and flow.canon(sv.args[0]) == ('attr', ('param', 'self'), 'dataset'))
        ctx.check('R11.4', ok_state, "the state bound is the one of this convention's own dataset", bind, bcall, construct=f"state = {norm_text(sv)}")
        sg = ctx.func(f"{STATE}.get")
        ok = False
        for r in sg.returns():
            v = ctx.flow(sg).resolve(r.value)
            while isinstance(v, ast.Call) and (dotted(v.func) or '').endswith('cast'):
                v = v.args[1]
            ok = (isinstance(v, ast.Call) and dotted(v.func) == 'getattr' and len(v.args) == 2
                  and ctx.flow(sg).canon(v.args[0]) == ('param', sg.params[1]) and norm_text(v.args[1]) in ('State.accessor_name', 'cls.accessor_name'))
        ctx.check('R11.4', ok, "State.get returns the per-dataset accessor object", sg, sg.node)
        acc = ctx.func('emsarray.accessors.ems_accessor')
        flow = ctx.flow(acc)
        rets = acc.returns()
        ok_bound = False
        ok_new = False
        for r in rets:
            v = flow.resolve(r.value)
            if isinstance(v, ast.Attribute) and v.attr == 'convention':
                from .common import facts as _facts11
                ok_bound = (f"{norm_text(v)} is None", False) in _facts11(ctx, acc, r, expand=False)
                sv = flow.resolve(v.value)
                ok_bound = ok_bound and isinstance(sv, ast.Call) and norm_text(sv.func) == 'State.get' \
                    and flow.canon(sv.args[0]) == ('param', acc.params[0])
            elif isinstance(v, ast.Call):
                # the constructed convention
                binds = [c for c in method_calls(acc, 'bind')]
                ok_new = (len(binds) == 1 and flow.resolve(binds[0].func.value) is v and len(v.args) == 1
                          and flow.canon(v.args[0]) == ('param', acc.params[0]))
                gdc = [c for c in calls_in(acc) if (callee(ctx, acc, c) or '').endswith('get_dataset_convention')]
                ok_new = ok_new and len(gdc) == 1 and flow.resolve(v.func) is gdc[0] and flow.canon(gdc[0].args[0]) == ('param', acc.params[0])
                if ok_new:
                    st_b = stmt_of(acc, binds[0])
                    ok_new = ctx.cfg(acc).dominates(st_b, r)
        ctx.check('R11.4', ok_bound, "the accessor returns state.convention when it is set", acc, acc.node, construct='if state.convention is not None: return state.convention')
        ctx.check('R11.4', ok_new, "otherwise it constructs the detected convention for this dataset, binds it, and returns that same object", acc, acc.node,
                  construct='convention = convention_class(dataset); convention.bind(); return convention')
        raises = [n for n in walk_no_nested(acc.node) if isinstance(n, ast.Raise)]
        from .common import facts as _facts11b
        ok_r = any(any(pol and t.endswith(' is None') and not t.endswith('.convention is None') for t, pol in _facts11b(ctx, acc, rs, expand=False)) for rs in raises)
        ctx.check('R11.4', ok_r, "a dataset nothing matches is refused with an error", acc, raises[0] if raises else acc.node,
                  construct='if convention_class is None: raise')
        # registration of the state accessor: exactly one place
        uses = []
        for mod in p.modules.values():
            for n in ast.walk(mod.tree):
                if isinstance(n, ast.Call) and (dotted(n.func) or '').endswith('register_dataset_accessor') and n.args \
                        and norm_text(n.args[0]) in ('State.accessor_name', "'_emsarray_state'", '"_emsarray_state"'):
                    uses.append(mod.name)
        ctx.check('R11.4', uses == ['emsarray.accessors'], "the state accessor is registered once", acc, acc.node, construct=f"register_dataset_accessor(State.accessor_name) in {uses}")



# --------------------------------------------------------------------------- checker self-test
from ..variants import V  # noqa: E402

_R = 'src/emsarray/conventions/_registry.py'
_B = 'src/emsarray/conventions/_base.py'
_U = 'src/emsarray/conventions/ugrid.py'
_S = 'src/emsarray/conventions/shoc.py'
_ST = 'src/emsarray/state.py'
_AC = 'src/emsarray/accessors.py'
VARIANTS = [
    V('C11', 'ugrid-before-dimension-test', _U, "        if mesh.attrs.get('topology_dimension') != 2:\n            return None\n\n        return Specificity.HIGH", "        return Specificity.HIGH", 'R11.1'),
    V('C11', 'ugrid-no-marker', _U, "        if 'UGRID' not in conventions:\n            return None\n", "", 'R11.1'),
    V('C11', 'shoc-simple-low', _S, "            return None\n        return Specificity.HIGH", "            return None\n        return Specificity.LOW", 'R11.1'),
    V('C11', 'enum-values-collapsed', _B, "    HIGH = 30", "    HIGH = 10", 'R11.1'),
    V('C11', 'cf1d-accepts-shared-dimension', 'src/emsarray/conventions/grid.py', "        if latitude.dims == longitude.dims:\n            return None\n", "", 'R11.1'),
    V('C11', 'cf2d-accepts-different-dimensions', 'src/emsarray/conventions/grid.py', "        if set(latitude.dims) != set(longitude.dims):\n            return None\n", "", 'R11.1'),
    V('C11', 'latitude-may-be-a-bounds-variable', 'src/emsarray/conventions/grid.py', "                if name not in bounds_names and (\n                    variable.attrs.get('units') in CF_LATITUDE_UNITS", "                if (\n                    variable.attrs.get('units') in CF_LATITUDE_UNITS", 'R11.1'),
    V('C11', 'bounds-names-only-coords', 'src/emsarray/utils.py', "        for variable in dataset.variables.values()\n        if 'bounds' in variable.attrs", "        for variable in dataset.coords.values()\n        if 'bounds' in variable.attrs", 'R11.1'),
    V('C11', 'bind-convention-overwrites', 'src/emsarray/state.py', "        if self.is_bound():\n            raise ValueError(\n                \"A convention has already been bound to this dataset, \"\n                \"cannot assign a new convention.\")\n        self.convention = convention", "        self.convention = convention", 'R11.4'),
    V('C11', 'cf1d-accepts-any-rank', 'src/emsarray/conventions/grid.py', "        if len(latitude.dims) != 1 or len(longitude.dims) != 1:\n            return None\n", "", 'R11.1'),
    V('C11', 'reverse-dropped', _R, "        return sorted(matches, key=lambda m: m[1], reverse=True)", "        return sorted(matches, key=lambda m: m[1])", 'R11.2'),
    V('C11', 'tie-order-reversed', _R, "        return sorted(matches, key=lambda m: m[1], reverse=True)", "        return sorted(matches, key=lambda m: m[1])[::-1]", 'R11.2'),
    V('C11', 'entry-points-first', _R, "chain(self.registered_conventions, self.entry_point_conventions)", "chain(self.entry_point_conventions, self.registered_conventions)", 'R11.2'),
    V('C11', 'last-match', _R, "            return matches[0][0]", "            return matches[-1][0]", 'R11.2'),
    V('C11', 'cache-not-invalidated', _R, "        with suppress(AttributeError):\n            del self.conventions\n", "", 'R11.2'),
    V('C11', 'second-writer', _B, "        state.bind_convention(self)", "        state.convention = self", 'R11.4'),
    V('C11', 'benign-is-bound-test-only-in-the-state', _B, "        if state.is_bound():\n            raise ValueError(\n                \"A convention has already been bound to this dataset, \"\n                \"cannot assign a new convention.\")\n", "", None),
    V('C11', 'accessor-returns-unbound-copy', _AC, "    convention.bind()\n    return convention", "    convention.bind()\n    return convention_class(dataset)", 'R11.4'),
    V('C11', 'accessor-ignores-bound', _AC, "    if state.convention is not None:\n        return state.convention\n", "", 'R11.4'),
    V('C11', 'mesh-variable-first-of-any-dimension', _U, "        for data_array in mesh_variables:\n            if data_array.attrs.get('topology_dimension') == 2:\n                return data_array\n", "", 'R11.3'),
    V('C11', 'mesh-variable-among-all-variables', _U, "            data_array for data_array in self.dataset.data_vars.values()\n            if data_array.attrs.get('cf_role') == 'mesh_topology'", "            data_array for data_array in self.dataset.data_vars.values()\n            if 'cf_role' in data_array.attrs", 'R11.3'),
    V('C11', 'detection-mutates-dataset', _S, "        if 'ems_version' not in dataset.attrs:\n            return None", "        if 'ems_version' not in dataset.attrs:\n            return None\n        dataset.attrs['detected'] = 'shoc'", 'R11.3'),
    V('C11', 'detection-random', _U, "        conventions = str(dataset.attrs.get('Conventions', ''))", "        conventions = str(dataset.attrs.get('Conventions', ''))\n        import random\n        if random.random() < 0.001:\n            return None", 'R11.3'),
    # benign
    V('C11', 'benign-negated-key', _R, "        return sorted(matches, key=lambda m: m[1], reverse=True)", "        return sorted(matches, key=lambda m: -m[1])", None),
]
