"""Shared fact extractors used by the rule modules."""
from __future__ import annotations

import ast
from typing import Callable, Iterable, Iterator, Optional

from ..flow import Flow
from ..model import (
    AnalysisError, FuncInfo, Program, arg_or_kw, const_value, dotted, kwarg,
    norm_text, unparse, walk_no_nested,
)
from ..report import Context

NUMPY = ('numpy', 'np')


def calls_in(fi: FuncInfo, *, nested: bool = False) -> list[ast.Call]:
    out = []
    for st in fi.body:
        it = ast.walk(st) if nested else walk_no_nested(st)
        out.extend(n for n in it if isinstance(n, ast.Call))
    return out


def qual(ctx: Context, fi: FuncInfo, node: ast.AST, self_class=None) -> Optional[str]:
    return ctx.p.qualify(node, fi, ctx.types(fi, self_class))


def callee(ctx: Context, fi: FuncInfo, call: ast.Call, self_class=None) -> Optional[str]:
    return qual(ctx, fi, call.func, self_class)


def find_calls(ctx: Context, fi: FuncInfo, pred: Callable[[Optional[str], ast.Call], bool],
               *, nested: bool = True) -> list[ast.Call]:
    out = []
    for call in calls_in(fi, nested=nested):
        q = callee(ctx, fi, call)
        if pred(q, call):
            out.append(call)
    return out


def method_calls(fi: FuncInfo, attr: str, *, nested: bool = True) -> list[ast.Call]:
    """Calls of the form <expr>.<attr>(...)."""
    return [c for c in calls_in(fi, nested=nested)
            if isinstance(c.func, ast.Attribute) and c.func.attr == attr]


def is_self_attr(flow: Flow, node: ast.AST, attr: str, self_name: str = 'self') -> bool:
    node = flow.resolve(node)
    return flow.canon(node) == ('attr', ('param', self_name), attr)


def np_call(ctx: Context, fi: FuncInfo, node: ast.AST, names: Iterable[str]) -> bool:
    """node is a call to numpy.<one of names> (through any alias of the numpy module)."""
    if not isinstance(node, ast.Call):
        return False
    q = callee(ctx, fi, node)
    return q is not None and any(q == f"numpy.{n}" or q == f"numpy.ma.{n}" for n in names)


def builtin_call(node: ast.AST, names: Iterable[str]) -> bool:
    return isinstance(node, ast.Call) and isinstance(node.func, ast.Name) and node.func.id in set(names)


# --------------------------------------------------------------------------- strtree queries

def strtree_queries(ctx: Context, fi: FuncInfo) -> list[ast.Call]:
    """Calls `<convention>.strtree.query(...)` in fi (receiver: anything ending in .strtree)."""
    flow = ctx.flow(fi)
    out = []
    for call in method_calls(fi, 'query'):
        recv = flow.resolve(call.func.value)
        if isinstance(recv, ast.Attribute) and recv.attr == 'strtree':
            out.append(call)
    return out


def predicate_of(call: ast.Call) -> object:
    p = kwarg(call, 'predicate')
    if p is None and len(call.args) >= 2:
        p = call.args[1]
    if p is None:
        return None
    return const_value(p, '<non-constant>')


BANNED_NEAREST = ('nearest', 'query_nearest', '_nearest')


# --------------------------------------------------------------------------- ordering facts

def sorted_ascending(ctx: Context, fi: FuncInfo, expr: ast.AST) -> Optional[ast.AST]:
    """If expr is (an alias of) an ascending sort of some value, return that inner value.

    Recognised: numpy.sort(v), sorted(v) without reverse=True / key, numpy.unique(v),
    numpy.flatnonzero(v) / numpy.nonzero (index arrays are ascending by construction).
    """
    flow = ctx.flow(fi)
    e = flow.resolve(expr)
    if isinstance(e, ast.Call):
        if np_call(ctx, fi, e, ['sort', 'unique']) and e.args:
            if kwarg(e, 'order') is not None or kwarg(e, 'axis') is not None and const_value(kwarg(e, 'axis'), 0) not in (0, -1, None):
                return None
            return e.args[0]
        if builtin_call(e, ['sorted']) and e.args:
            rev = kwarg(e, 'reverse')
            if rev is not None and const_value(rev, True) is not False:
                return None
            if kwarg(e, 'key') is not None:
                return None
            return e.args[0]
        if np_call(ctx, fi, e, ['flatnonzero']) and e.args:
            return e.args[0]
        # x.sort() returns None; not an expression form
    return None


def inplace_sorted_before(ctx: Context, fi: FuncInfo, name_node: ast.Name) -> bool:
    """`v.sort()` (ascending, in place) dominates this use of v."""
    from ..cfg import stmt_of
    cfg = ctx.cfg(fi)
    flow = ctx.flow(fi)
    use_stmt = stmt_of(fi, name_node)
    if use_stmt is None:
        return False
    for call in method_calls(fi, 'sort'):
        recv = call.func.value
        if isinstance(recv, ast.Name) and recv.id == name_node.id and not call.args:
            rev = kwarg(call, 'reverse')
            if rev is not None and const_value(rev, True) is not False:
                continue
            if kwarg(call, 'key') is not None:
                continue
            st = stmt_of(fi, call)
            if st is not None and isinstance(st, ast.Expr) and cfg.dominates(st, use_stmt) \
                    and flow.canon(recv) == flow.canon(name_node):
                return True
    return False


def emptiness_test(flow: Flow, test: ast.AST) -> Optional[tuple[str, ast.AST]]:
    """Classify `test` as ('nonempty', H) or ('empty', H) for a sized value H, else None.

    Forms: len(H) > 0, len(H) >= 1, len(H) != 0, len(H), H.size > 0, H.size, 0 < len(H),
    and the negations len(H) == 0, len(H) < 1, not len(H), not H.size.
    """
    def sized(e: ast.AST) -> Optional[ast.AST]:
        e2 = flow.resolve(e)
        if isinstance(e2, ast.Call) and isinstance(e2.func, ast.Name) and e2.func.id == 'len' and len(e2.args) == 1:
            return e2.args[0]
        if isinstance(e2, ast.Attribute) and e2.attr == 'size':
            return e2.value
        return None

    t = test
    if isinstance(t, ast.UnaryOp) and isinstance(t.op, ast.Not):
        inner = emptiness_test(flow, t.operand)
        if inner is None:
            return None
        return ('empty' if inner[0] == 'nonempty' else 'nonempty', inner[1])
    h = sized(t)
    if h is not None:
        return ('nonempty', h)
    if isinstance(t, ast.Compare) and len(t.ops) == 1:
        left, op, right = t.left, t.ops[0], t.comparators[0]
        lh, rh = sized(left), sized(right)
        lv, rv = const_value(left, None), const_value(right, None)
        if lh is not None and rv is not None:
            h, v = lh, rv
        elif rh is not None and lv is not None:
            # mirror: v OP len(H)  ==  len(H) OP' v
            mirror = {ast.Lt: ast.Gt, ast.Gt: ast.Lt, ast.LtE: ast.GtE, ast.GtE: ast.LtE, ast.Eq: ast.Eq, ast.NotEq: ast.NotEq}
            h, v = rh, lv
            op = mirror.get(type(op), type(None))()
        else:
            return None
        if (isinstance(op, ast.Gt) and v == 0) or (isinstance(op, ast.GtE) and v == 1) or (isinstance(op, ast.NotEq) and v == 0):
            return ('nonempty', h)
        if (isinstance(op, ast.Eq) and v == 0) or (isinstance(op, ast.Lt) and v == 1) or (isinstance(op, ast.LtE) and v == 0):
            return ('empty', h)
        return ('other', h)
    return None


def is_none(node: Optional[ast.AST]) -> bool:
    return node is None or (isinstance(node, ast.Constant) and node.value is None)


def literal_strings(node: ast.AST) -> Optional[list]:
    """Elements of a literal list/tuple/set of constants, else None."""
    if isinstance(node, (ast.List, ast.Tuple, ast.Set)):
        vals = []
        for e in node.elts:
            v = const_value(e, _NO)
            if v is _NO:
                return None
            vals.append(v)
        return vals
    return None


_NO = object()


def literal_annotation_values(ann: Optional[ast.AST]) -> Optional[list]:
    """Values of a typing.Literal[...] annotation."""
    if isinstance(ann, ast.Subscript) and (dotted(ann.value) or '').rsplit('.', 1)[-1] == 'Literal':
        sl = ann.slice
        elts = sl.elts if isinstance(sl, ast.Tuple) else [sl]
        vals = []
        for e in elts:
            v = const_value(e, _NO)
            if v is _NO:
                return None
            vals.append(v)
        return vals
    return None


def param_annotation(fi: FuncInfo, name: str) -> Optional[ast.AST]:
    a = fi.node.args
    for arg in a.posonlyargs + a.args + a.kwonlyargs:
        if arg.arg == name:
            return arg.annotation
    return None


def param_default(fi: FuncInfo, name: str) -> Optional[ast.AST]:
    a = fi.node.args
    pos = a.posonlyargs + a.args
    defaults = [None] * (len(pos) - len(a.defaults)) + list(a.defaults)
    for arg, d in zip(pos, defaults):
        if arg.arg == name:
            return d
    for arg, d in zip(a.kwonlyargs, a.kw_defaults):
        if arg.arg == name:
            return d
    return None


def enclosing_ifs(fi: FuncInfo, node: ast.AST) -> list[tuple[ast.If, bool]]:
    """The chain of (if statement, in_body?) enclosing the statement containing node."""
    chain: list[tuple[ast.If, bool]] = []

    def contains(stmts, path):
        for st in stmts:
            if any(sub is node for sub in ast.walk(st)):
                if isinstance(st, ast.If):
                    if any(sub is node for sub in ast.walk(st.test)):
                        return path
                    for b in st.body:
                        if any(sub is node for sub in ast.walk(b)):
                            return contains(st.body, path + [(st, True)])
                    return contains(st.orelse, path + [(st, False)])
                for fld in ('body', 'orelse', 'finalbody'):
                    subs = getattr(st, fld, None)
                    if isinstance(subs, list) and subs and isinstance(subs[0], ast.stmt) and \
                            not isinstance(st, (ast.FunctionDef, ast.ClassDef)):
                        for b in subs:
                            if any(sub is node for sub in ast.walk(b)):
                                return contains(subs, path)
                if isinstance(st, ast.Try):
                    for h in st.handlers:
                        for b in h.body:
                            if any(sub is node for sub in ast.walk(b)):
                                return contains(h.body, path)
                return path
        return path
    return contains(fi.node.body, chain)


def following_guards(fi: FuncInfo, node: ast.AST) -> list[ast.If]:
    """`if` statements earlier in the same block whose body terminates (early exits)."""
    from ..flow import _terminates
    out: list[ast.If] = []

    def rec(stmts) -> bool:
        prior: list[ast.If] = []
        for st in stmts:
            if any(sub is node for sub in ast.walk(st)):
                out.extend(prior)
                for fld in ('body', 'orelse', 'finalbody'):
                    subs = getattr(st, fld, None)
                    if isinstance(subs, list) and subs and isinstance(subs[0], ast.stmt) and \
                            not isinstance(st, (ast.FunctionDef, ast.ClassDef)):
                        rec(subs)
                if isinstance(st, ast.Try):
                    for h in st.handlers:
                        rec(h.body)
                return True
            if isinstance(st, ast.If) and _terminates(st.body) and not st.orelse:
                prior.append(st)
        return False
    rec(fi.node.body)
    return out


# --------------------------------------------------------------------------- order preserving derivations

def peel_sequence(flow: Flow, expr: ast.AST, depth: int = 10):
    """Peel order-preserving wrappers from a sequence valued expression.

    Returns (layers, core).  Layers: ('conv', name) for tuple()/list()/cast(),
    ('map', function_expr) for map(f, x), ('comp', elt, target) for a comprehension with
    one generator and no condition.  The core is whatever is left (an ast node).
    """
    layers = []
    e = flow.resolve(expr)
    while depth > 0:
        depth -= 1
        if isinstance(e, ast.Call):
            fn = dotted(e.func) or ''
            short = fn.rsplit('.', 1)[-1]
            if short == 'cast' and len(e.args) == 2:
                layers.append(('conv', 'cast'))
                e = flow.resolve(e.args[1])
                continue
            if fn in ('tuple', 'list') and len(e.args) == 1 and not e.keywords:
                layers.append(('conv', fn))
                e = flow.resolve(e.args[0])
                continue
            if fn == 'map' and len(e.args) == 2:
                layers.append(('map', e.args[0]))
                e = flow.resolve(e.args[1])
                continue
        if isinstance(e, (ast.GeneratorExp, ast.ListComp)) and len(e.generators) == 1 \
                and not e.generators[0].ifs and not e.generators[0].is_async:
            layers.append(('comp', e.elt, e.generators[0].target))
            e = flow.resolve(e.generators[0].iter)
            continue
        break
    return layers, e


def enum_members(ctx: Context, enum_qual: str) -> list[str]:
    ci = ctx.p.cls(enum_qual)
    return [name for name, val in ci.attrs.items() if not name.startswith('_')]


# --------------------------------------------------------------------------- swapped arguments (generic lint, per anchor file)

def anchor_files(prop: str) -> list[str]:
    import json
    from ..report import VERIF
    for line in (VERIF / 'properties.jsonl').read_text().splitlines():
        if line.strip():
            rec = json.loads(line)
            if rec['id'] == prop:
                return list(rec['anchors'].get('files', []))
    return []


def swapped_argument_obligations(ctx: Context, rule: str) -> int:
    """In the files this property is anchored in: a positional argument that is a plain name equal to the
    name of a *different* parameter of the (repository) callee is passed to the wrong parameter."""
    from ..callgraph import CallGraph
    p = ctx.p
    files = set(anchor_files(ctx.prop))
    cg = CallGraph(p)
    n = 0
    seen = set()
    for fi in sorted(p.functions.values(), key=lambda f: f.qualname):
        if fi.module.relpath not in files:
            continue
        classes = [fi.cls] if fi.cls is None else ([c for c in p.subclasses(fi.cls)] or [fi.cls])
        for sc in classes[:6]:
            for target, tcls, site in cg.successors(fi, sc):
                if not isinstance(site, ast.Call) or (id(site), target.qualname) in seen:
                    continue
                seen.add((id(site), target.qualname))
                params = target.params
                if target.cls is not None and target.parent is None and target.kind != 'staticmethod':
                    params = params[1:]
                if any(isinstance(a, ast.Starred) for a in site.args) or len(params) < 2:
                    continue
                bad = []
                for i, a in enumerate(site.args):
                    if i >= len(params):
                        break
                    nm = a.id if isinstance(a, ast.Name) else (a.attr if isinstance(a, ast.Attribute) else None)
                    if nm is None or nm == params[i]:
                        continue
                    if nm in params and params.index(nm) != i:
                        # passing `latitude` where the callee expects `longitude`
                        other = params.index(nm)
                        passed_elsewhere = other < len(site.args) and isinstance(site.args[other], (ast.Name, ast.Attribute)) and \
                            (site.args[other].id if isinstance(site.args[other], ast.Name) else site.args[other].attr) == nm
                        if not passed_elsewhere:
                            bad.append(f"argument {i} `{nm}` goes to parameter `{params[i]}` of {target.short}")
                n += 1
                ctx.check(rule, not bad, "positional arguments reach the parameters of the same name", fi, site,
                          construct=f"{fi.short}: {norm_text(site.func)}({', '.join(norm_text(a) for a in site.args)}) -> {target.short}({', '.join(params)})",
                          detail='; '.join(bad))
    return n


# --------------------------------------------------------------------------- obligations shared between properties

_IN_PROGRESS: list[str] = []
_SKIPS: list[str] = []


def share_obligations(ctx: Context, module, rules: set, as_rule: str, only=None) -> int:
    """Run another property's rule module in a sub-context and adopt the obligations of `rules` under `as_rule`.

    Used where two properties rest on the same structural fact (e.g. C04's "holes are never
    returned" and C06's "invalid polygons are found over the full array")."""
    name = module.__name__
    cache = ctx.p.__dict__.setdefault('_rule_runs', {})
    if getattr(ctx, 'no_adopt', False):
        # an adopted module contributes its OWN rules only: adoption is one level deep, so there are
        # no cycles and every module is evaluated at most once per program
        ctx.instances.setdefault(as_rule, 0)
        return 0
    if name in cache:
        sub = cache[name]
    else:
        # the adopted module is evaluated as its own property (its anchors, its known findings)
        sub = Context(ctx.p, name.rsplit('.', 1)[-1].upper(), ctx.tier)
        sub.no_adopt = True
        sub._flows, sub._cfgs, sub._types = ctx._flows, ctx._cfgs, ctx._types
        try:
            module.run(sub)
        except Exception as exc:
            if type(exc).__name__ != 'AbortRules':
                raise
        cache[name] = sub
    n = 0
    from ..report import load_known, match_known
    known = cache.setdefault('__known__', load_known())
    for ob in sub.obligations:
        if ob.rule in rules and (only is None or only(ob)):
            if not ob.ok and match_known(sub.prop, ob, known) is not None:
                # a recorded finding is reported by the property that owns the rule (and listed there in known_findings.json);
                # the adopting property does not repeat it
                note = f"{as_rule}: a recorded finding of {sub.prop} {ob.rule} ({ob.function}) is reported under {sub.prop}, not adopted here"
                if note not in ctx.notes:
                    ctx.notes.append(note)
                continue
            ctx.obligations.append(type(ob)(as_rule, f"[{ob.rule}] {ob.text}", ob.site, ob.function, ob.construct, ob.ok, ob.detail))
            ctx.instances[as_rule] = ctx.instances.get(as_rule, 0) + 1
            n += 1
    ctx.functions_analysed |= sub.functions_analysed
    return n


# --------------------------------------------------------------------------- path conditions

def path_conditions(fi: FuncInfo, node: ast.AST) -> list[tuple[ast.AST, bool]]:
    """Conditions known on every path reaching `node`: (test, polarity).

    Enclosing `if` statements contribute (test, True) in the body and (test, False) in the
    else branch; an earlier sibling `if` whose body always leaves (return/raise/continue/
    break) and has no else contributes (test, False); one whose else always leaves
    contributes (test, True)."""
    from ..flow import _terminates
    out: list[tuple[ast.AST, bool]] = []

    def lookup_test(st: ast.Try) -> Optional[ast.AST]:
        """`try: <one statement reading D[K]> except KeyError: ...` asks whether K is in D: the membership test it stands for"""
        if len(st.body) != 1 or st.finalbody:
            return None
        caught = [norm_text(h.type) if h.type is not None else '' for h in st.handlers]
        if not caught or not all(c.rsplit('.', 1)[-1] in ('KeyError', 'LookupError') for c in caught):
            return None
        subs = [n for n in ast.walk(st.body[0]) if isinstance(n, ast.Subscript) and isinstance(n.ctx, ast.Load)
                and isinstance(n.slice, (ast.Constant, ast.Name, ast.Attribute)) and not isinstance(getattr(n.slice, 'value', None), slice)]
        calls = [n for n in ast.walk(st.body[0]) if isinstance(n, ast.Call)]
        if len(subs) != 1 or calls:
            return None
        key, mapping = subs[0].slice, subs[0].value
        if norm_text(mapping).rsplit('.', 1)[-1] in ('dataset', 'ds', 'new_dataset'):
            return None     # Dataset.__getitem__ also answers for a bare dimension: not a membership test
        return ast.fix_missing_locations(ast.copy_location(ast.Compare(left=key, ops=[ast.In()], comparators=[mapping]), st))

    def rec(stmts) -> bool:
        prior: list[tuple[ast.AST, bool]] = []
        for st in stmts:
            if any(sub is node for sub in ast.walk(st)):
                out.extend(prior)
                if isinstance(st, ast.Try):
                    m_ = lookup_test(st)
                    if m_ is not None:
                        if any(sub is node for b in st.body + st.orelse for sub in ast.walk(b)):
                            out.append((m_, True))
                        elif any(sub is node for h in st.handlers for b in h.body for sub in ast.walk(b)):
                            out.append((m_, False))
                if isinstance(st, ast.If):
                    if any(sub is node for b in st.body for sub in ast.walk(b)):
                        out.append((st.test, True))
                        rec(st.body)
                    elif any(sub is node for b in st.orelse for sub in ast.walk(b)):
                        out.append((st.test, False))
                        rec(st.orelse)
                    return True
                for fld in ('body', 'orelse', 'finalbody'):
                    subs = getattr(st, fld, None)
                    if isinstance(subs, list) and subs and isinstance(subs[0], ast.stmt) and \
                            not isinstance(st, (ast.FunctionDef, ast.ClassDef)):
                        if any(sub is node for b in subs for sub in ast.walk(b)):
                            rec(subs)
                if isinstance(st, ast.Try):
                    for h in st.handlers:
                        if any(sub is node for b in h.body for sub in ast.walk(b)):
                            rec(h.body)
                return True
            if isinstance(st, ast.If):
                if _terminates(st.body) and not (st.orelse and _terminates(st.orelse)):
                    prior.append((st.test, False))
                elif st.orelse and _terminates(st.orelse):
                    prior.append((st.test, True))
            elif isinstance(st, ast.Try) and lookup_test(st) is not None:
                found_leaves = _terminates(st.body + st.orelse) if st.orelse else _terminates(st.body)
                missing_leaves = all(_terminates(h.body) for h in st.handlers)
                if found_leaves and not missing_leaves:
                    prior.append((lookup_test(st), False))
                elif missing_leaves and not found_leaves:
                    prior.append((lookup_test(st), True))
            elif isinstance(st, ast.While) and not st.orelse:
                # a while loop left without `break` leaves its test false
                breaks = [n for n in walk_no_nested(st) if isinstance(n, ast.Break)]
                inner_loops = [n for n in walk_no_nested(st) if isinstance(n, (ast.For, ast.While)) and n is not st]
                own_breaks = [b for b in breaks if not any(any(x is b for x in ast.walk(l)) for l in inner_loops)]
                if not own_breaks:
                    prior.append((st.test, False))
                elif len(own_breaks) == 1 and isinstance(st.test, ast.Constant) and st.test.value is True:
                    # `while True: ...; if c: break; ...` is left exactly when c holds
                    for inner in st.body:
                        if isinstance(inner, ast.If) and not inner.orelse and len(inner.body) == 1 and inner.body[0] is own_breaks[0]:
                            prior.append((inner.test, True))
        return False
    rec(fi.node.body)
    # conditions inside the statement itself: the arms of a conditional expression, the later operands of and / or,
    # the element and later filters of a comprehension
    def expr_conditions(root: ast.AST) -> None:
        for sub in ast.walk(root):
            if isinstance(sub, ast.IfExp):
                if any(x is node for x in ast.walk(sub.body)):
                    out.append((sub.test, True))
                elif any(x is node for x in ast.walk(sub.orelse)):
                    out.append((sub.test, False))
            elif isinstance(sub, ast.BoolOp):
                for i, v in enumerate(sub.values[1:], 1):
                    if any(x is node for x in ast.walk(v)):
                        for earlier in sub.values[:i]:
                            out.append((earlier, isinstance(sub.op, ast.And)))
            elif isinstance(sub, (ast.ListComp, ast.SetComp, ast.GeneratorExp, ast.DictComp)):
                parts = [sub.key, sub.value] if isinstance(sub, ast.DictComp) else [sub.elt]
                if any(x is node for part in parts for x in ast.walk(part)):
                    for g in sub.generators:
                        for t in g.ifs:
                            out.append((t, True))
    holder = None
    for st in walk_no_nested(fi.node):
        if isinstance(st, ast.stmt) and not isinstance(st, (ast.If, ast.For, ast.While, ast.With, ast.Try, ast.FunctionDef, ast.ClassDef)) \
                and any(x is node for x in ast.walk(st)):
            holder = st
    if holder is not None:
        expr_conditions(holder)
    else:
        for st in walk_no_nested(fi.node):
            if isinstance(st, (ast.If, ast.While)) and any(x is node for x in ast.walk(st.test)):
                expr_conditions(st.test)
            elif isinstance(st, ast.For) and any(x is node for x in ast.walk(st.iter)):
                expr_conditions(st.iter)
    norm: list[tuple[ast.AST, bool]] = []

    def spread(test: ast.AST, pol: bool) -> None:
        while isinstance(test, ast.UnaryOp) and isinstance(test.op, ast.Not):
            test, pol = test.operand, not pol
        # a conjunction known to be true gives each conjunct; a disjunction known to be false gives each negated disjunct
        # (at any depth: `a and (b and not (c or d))`)
        if isinstance(test, ast.BoolOp) and ((isinstance(test.op, ast.And) and pol) or (isinstance(test.op, ast.Or) and not pol)):
            for v in test.values:
                spread(v, pol)
        norm.append((test, pol))
    for test, pol in out:
        spread(test, pol)
    return norm


def none_test(test: ast.AST) -> Optional[tuple[ast.AST, bool]]:
    """`X is None` -> (X, True); `X is not None` -> (X, False); `not <...>` flips."""
    if isinstance(test, ast.UnaryOp) and isinstance(test.op, ast.Not):
        inner = none_test(test.operand)
        return None if inner is None else (inner[0], not inner[1])
    if isinstance(test, ast.Compare) and len(test.ops) == 1 and is_none(test.comparators[0]) and not is_none(test.left):
        if isinstance(test.ops[0], (ast.Is, ast.Eq)):
            return (test.left, True)
        if isinstance(test.ops[0], (ast.IsNot, ast.NotEq)):
            return (test.left, False)
    return None


def known_none(fi: FuncInfo, node: ast.AST, is_subject) -> Optional[bool]:
    """On every path to `node`, is the subject (recognised by is_subject(expr)) known to be None (True) / not None (False)?"""
    for test, pol in path_conditions(fi, node):
        nt = none_test(test)
        if nt is not None and is_subject(nt[0]):
            return nt[1] if pol else (not nt[1])
    return None


def polygons_mask_ok(ctx: Context, fi: FuncInfo) -> tuple[bool, str]:
    """`mask[n] = polygons[n] is not None` for every slot n, in order - in any of the usual spellings."""
    flow = ctx.flow(fi)

    def is_polygons(e) -> bool:
        return flow.canon(e) == ('attr', ('param', 'self'), 'polygons')

    rets = fi.returns()
    if not rets:
        return False, 'no return'
    for r in rets:
        v = flow.resolve(r.value)
        # ~shapely.is_missing(polygons) / numpy.logical_not(...): element-wise "is not None" of an object array of geometries
        inner_ = v.operand if isinstance(v, ast.UnaryOp) and isinstance(v.op, ast.Invert) else \
            (v.args[0] if isinstance(v, ast.Call) and (callee(ctx, fi, v) or '') in ('numpy.logical_not', 'numpy.invert') and len(v.args) == 1 else None)
        inner_ = flow.resolve(inner_) if inner_ is not None else None
        if isinstance(inner_, ast.Call) and (callee(ctx, fi, inner_) or '').endswith('shapely.is_missing') and len(inner_.args) == 1 and not inner_.keywords and is_polygons(inner_.args[0]):
            continue
        # fromiter / array / asarray of a generator or list comprehension
        if isinstance(v, ast.Call) and (callee(ctx, fi, v) or '') in ('numpy.fromiter', 'numpy.array', 'numpy.asarray') and v.args:
            g = flow.resolve(v.args[0])
            if isinstance(g, (ast.GeneratorExp, ast.ListComp)) and len(g.generators) == 1 and not g.generators[0].ifs \
                    and is_polygons(g.generators[0].iter) and isinstance(g.generators[0].target, ast.Name):
                nt = none_test(g.elt)
                if nt is not None and isinstance(nt[0], ast.Name) and nt[0].id == g.generators[0].target.id and nt[1] is False:
                    cnt = kwarg(v, 'count')
                    if cnt is None or (isinstance(cnt, ast.Attribute) and cnt.attr == 'size' and is_polygons(cnt.value)) or \
                            (isinstance(cnt, ast.Call) and dotted(cnt.func) == 'len' and is_polygons(cnt.args[0])):
                        continue
            return False, f"mask built as {norm_text(v)[:80]}"
        # polygons != None   (element-wise)
        nt = none_test(v) if isinstance(v, ast.Compare) else None
        if nt is not None and is_polygons(nt[0]) and nt[1] is False:
            continue
        # explicit loop:  mask = zeros(polygons.size); for i, p in enumerate(polygons): [if p is not None:] mask[i] = ...
        if isinstance(r.value, ast.Name) or isinstance(v, ast.Call):
            name = r.value.id if isinstance(r.value, ast.Name) else None
            inner = r.value
            while name is None and isinstance(inner, ast.Call) and inner.args:
                inner = inner.args[-1]
                if isinstance(inner, ast.Name):
                    name = inner.id
            alloc = [n for n in walk_no_nested(fi.node) if isinstance(n, ast.Assign) and isinstance(n.targets[0], ast.Name) and n.targets[0].id == name
                     and isinstance(n.value, ast.Call) and (callee(ctx, fi, n.value) or '') in ('numpy.zeros', 'numpy.full', 'numpy.empty')]
            loops = [n for n in walk_no_nested(fi.node) if isinstance(n, ast.For)]
            if name and len(alloc) == 1 and len(loops) == 1:
                a, lp = alloc[0], loops[0]
                size = a.value.args[0] if a.value.args else None
                size_ok = size is not None and ((isinstance(size, ast.Attribute) and size.attr == 'size' and is_polygons(size.value))
                                                or (isinstance(size, ast.Call) and dotted(size.func) == 'len' and is_polygons(size.args[0])))
                falsy = callee(ctx, fi, a.value) == 'numpy.zeros' or const_value(kwarg(a.value, 'fill_value') or (a.value.args[1] if len(a.value.args) > 1 else ast.Constant(None)), None) is False
                it = flow.resolve(lp.iter)
                enum_ok = isinstance(it, ast.Call) and dotted(it.func) == 'enumerate' and len(it.args) == 1 and is_polygons(it.args[0]) \
                    and isinstance(lp.target, ast.Tuple) and len(lp.target.elts) == 2 and all(isinstance(e, ast.Name) for e in lp.target.elts)
                if size_ok and enum_ok:
                    ivar, pvar = lp.target.elts[0].id, lp.target.elts[1].id
                    stores = [n for n in ast.walk(lp) if isinstance(n, ast.Assign) and isinstance(n.targets[0], ast.Subscript)
                              and isinstance(n.targets[0].value, ast.Name) and n.targets[0].value.id == name]
                    if len(stores) == 1 and isinstance(stores[0].targets[0].slice, ast.Name) and stores[0].targets[0].slice.id == ivar:
                        st = stores[0]
                        val_nt = none_test(st.value) if isinstance(st.value, ast.Compare) else None
                        if val_nt is not None and isinstance(val_nt[0], ast.Name) and val_nt[0].id == pvar and val_nt[1] is False \
                                and not path_conditions(fi, st):
                            continue
                        if falsy and const_value(st.value, None) is True and known_none(fi, st, lambda e: isinstance(e, ast.Name) and e.id == pvar) is False \
                                and len(path_conditions(fi, st)) == 1:
                            continue
            return False, f"mask built by an unrecognised construction ({norm_text(v)[:60]})"
        return False, f"mask built as {norm_text(v)[:80]}"
    return True, 'mask[n] = polygons[n] is not None'



def known_empty(fi: FuncInfo, node: ast.AST, flow: Flow, is_subject, *, truthiness: bool = False) -> Optional[bool]:
    """On every path to `node`: is the sized subject known empty (True) / non-empty (False)?
    With truthiness=True a bare `if H:` counts as a non-emptiness test (H is a list)."""
    for test, pol in path_conditions(fi, node):
        t = emptiness_test(flow, test)
        if t is None and truthiness and isinstance(test, (ast.Name, ast.Attribute, ast.Call)) and is_subject(test):
            t = ('nonempty', test)
        if t is not None and t[0] in ('empty', 'nonempty') and is_subject(t[1]):
            empty = t[0] == 'empty'
            return empty if pol else (not empty)
    return None


def purity_obligations(ctx: Context, rule: str, fi: FuncInfo, params: Iterable[str], what: str) -> None:
    """No store, deletion or in-place method through any alias of the given parameters (numpy copy semantics included)."""
    from ..effects import writes_through
    flow = ctx.flow(fi)
    funcs = [fi] + [f for f in ctx.p.functions.values() if f.parent is fi]
    from ..effects import roots_of
    nested = [f for f in funcs if f is not fi]
    mutated = {}      # nested helper name -> positions of parameters it writes through
    for f in nested:
        fl = ctx.flow(f)
        pos = [i for i, q in enumerate(f.params) if writes_through(f, fl, q)]
        if pos:
            mutated[f.name] = (f, pos)
    for prm in params:
        bad = []
        for f in funcs:
            fl = ctx.flow(f)
            bad += [(n, how, f) for n, how in writes_through(f, fl, prm)]
        # a local helper that modifies its argument, called with (a view of) the parameter
        for call in calls_in(fi, nested=False):
            if isinstance(call.func, ast.Name) and call.func.id in mutated:
                f, pos = mutated[call.func.id]
                for i in pos:
                    if i < len(call.args) and ('param:' + prm) in roots_of(flow, call.args[i]):
                        bad.append((call, f"{f.name}() modifies its argument {f.params[i]!r} in place", fi))
        ctx.check(rule, not bad, f"{what}: nothing is written through `{prm}` (no store, in-place method or non-copying view that is then modified)", fi,
                  bad[0][0] if bad else fi.node, construct=f"{fi.short}: writes through `{prm}`: " + ('; '.join(sorted({h for _, h, _ in bad})) if bad else 'none'))


# --------------------------------------------------------------------------- Arakawa C mask table

def arakawa_mask_table(ctx: Context) -> dict:
    """{variable name in the returned mask dataset: (smear axes or 'centres' or None, dims text)} for
    c_mask_from_centres, resolved through local names so that renaming the intermediates changes nothing."""
    cf = ctx.func('emsarray.conventions.arakawa_c.c_mask_from_centres')
    flow = ctx.flow(cf)
    out = {'_fi': cf, '_call': None, '_coords': None}
    dsc = [c for c in calls_in(cf) if (callee(ctx, cf, c) or '').endswith('xarray.Dataset')]
    if len(dsc) != 1 or not all(flow.resolve(r.value) is dsc[0] for r in cf.returns()) or not cf.returns():
        return out
    out['_call'] = dsc[0]
    co = kwarg(dsc[0], 'coords')
    out['_coords'] = flow.canon(co) if co is not None else None
    dv = flow.resolve(kwarg(dsc[0], 'data_vars') or (dsc[0].args[0] if dsc[0].args else ast.Constant(None)))
    if not isinstance(dv, ast.Dict):
        return out
    for k, v in zip(dv.keys, dv.values):
        name = const_value(k, None) if k is not None else None
        v = flow.resolve(v)
        if name is None or not (isinstance(v, ast.Call) and (callee(ctx, cf, v) or '').endswith('xarray.DataArray')):
            out[name] = (None, None)
            continue
        data = flow.resolve(arg_or_kw(v, 0, 'data')) if arg_or_kw(v, 0, 'data') is not None else None
        dims = arg_or_kw(v, 2, 'dims')
        dims_text = norm_text(flow.resolve(dims)) if dims is not None else None
        what = None
        if data is not None and flow.canon(data) == ('param', cf.params[0]):
            what = 'centres'
        elif isinstance(data, ast.Call) and callee(ctx, cf, data) == 'emsarray.masking.smear_mask' and arg_or_kw(data, 0, 'arr') is not None \
                and arg_or_kw(data, 1, 'pad_axes') is not None and flow.canon(arg_or_kw(data, 0, 'arr')) == ('param', cf.params[0]):
            axes = flow.resolve(arg_or_kw(data, 1, 'pad_axes'))
            what = [const_value(e, None) for e in axes.elts] if isinstance(axes, (ast.List, ast.Tuple)) else None
        out[name] = (what, dims_text)
    return out


_POSITIVE = {ast.NotEq: ast.Eq, ast.NotIn: ast.In, ast.IsNot: ast.Is}


def positive_conditions(fi: FuncInfo, node: ast.AST) -> list[tuple[ast.AST, bool]]:
    """path_conditions with every single comparison put in its positive form:
    (`a != b`, p) -> (`a == b`, not p); `not in` -> `in`; `is not` -> `is`."""
    out = []
    for test, pol in path_conditions(fi, node):
        if isinstance(test, ast.Compare) and len(test.ops) == 1 and type(test.ops[0]) in _POSITIVE:
            new = ast.Compare(left=test.left, ops=[_POSITIVE[type(test.ops[0])]()], comparators=test.comparators)
            ast.copy_location(new, test)
            test, pol = new, not pol
        out.append((test, pol))
    return out


# --------------------------------------------------------------------------- one-shot iterables

def iterable_param_obligations(ctx: Context, rule: str, fi: FuncInfo) -> int:
    """A parameter declared Iterable / Iterator may be a generator: it can be consumed once.
    Every such parameter is consumed at most once in its original binding (and not inside a
    loop); a function that needs it twice re-binds it to a list first."""
    flow = ctx.flow(fi)
    n = 0
    a = fi.node.args
    for arg in a.args + a.kwonlyargs:
        if arg.annotation is None or not any(k in ast.unparse(arg.annotation) for k in ('Iterable', 'Iterator', 'Generator')):
            continue
        uses = []
        parents = {}
        for node in ast.walk(fi.node):
            for ch in ast.iter_child_nodes(node):
                parents[ch] = node
        for node in ast.walk(fi.node):
            if isinstance(node, ast.Name) and node.id == arg.arg and isinstance(node.ctx, ast.Load) and any(d.kind == 'param' for d in flow.defs_of(node)):
                par = parents.get(node)
                if isinstance(par, ast.Compare) and len(par.ops) == 1 and isinstance(par.ops[0], (ast.Is, ast.IsNot)):
                    continue
                uses.append(node)
        in_loop = []
        for u in uses:
            cur = u
            while cur in parents:
                prev, cur = cur, parents[cur]
                if isinstance(cur, (ast.For, ast.While)) and prev is not getattr(cur, 'iter', None):
                    in_loop.append(u)
                    break
                if isinstance(cur, ast.comprehension) and prev is not cur.iter:
                    in_loop.append(u)
                    break
                if isinstance(cur, (ast.ListComp, ast.SetComp, ast.DictComp, ast.GeneratorExp)) and not isinstance(prev, ast.comprehension):
                    in_loop.append(u)
                    break
                if cur is fi.node:
                    break
        ok = len(uses) <= 1 and not in_loop
        ctx.check(rule, ok, f"the Iterable parameter `{arg.arg}` of {fi.short.split('.')[-1]} is consumed at most once before being re-bound (a generator argument must work)",
                  fi, uses[1] if len(uses) > 1 else (in_loop[0] if in_loop else (uses[0] if uses else fi.node)),
                  construct=f"{arg.arg}: consumed at {[norm_text(parents.get(u, u))[:50] for u in uses]}")
        n += 1
    return n


def guards(fi: FuncInfo, node: ast.AST, *, within: Optional[ast.AST] = None) -> list[tuple[str, bool]]:
    """Atomic path conditions of `node` as (text of the positive form, polarity); composite
    and/or tests are left out (their parts are listed).  `within` restricts to tests inside that node."""
    out = []
    for t, pol in positive_conditions(fi, node):
        if isinstance(t, ast.BoolOp):
            continue
        if within is not None and not any(x is t or x is getattr(t, 'left', None) for x in ast.walk(within)):
            continue
        out.append((norm_text(t), pol))
    return out


# --------------------------------------------------------------------------- local names spelled out

def expand_locals(flow: Flow, expr: ast.AST, depth: int = 4, keep: Iterable[str] = ()) -> ast.AST:
    """A copy of `expr` in which every local that has exactly one reaching plain assignment is replaced
    by the expression assigned to it (recursively): `n = set(ds.dims); n.issuperset(x)` reads
    `set(ds.dims).issuperset(x)`.  Comprehension variables, parameters and loop variables stay."""
    import copy

    def rec(e: ast.AST, d: int) -> ast.AST:
        if isinstance(e, ast.Name) and isinstance(e.ctx, ast.Load) and d > 0 and e.id not in keep:
            try:
                df = flow.single_def(e)
            except Exception:
                df = None
            if df is not None and df.kind in ('assign', 'walrus') and df.value is not None:
                return rec(df.value, d - 1)
            return e
        new = copy.copy(e)
        for field, value in ast.iter_fields(e):
            if isinstance(value, ast.AST):
                setattr(new, field, rec(value, d))
            elif isinstance(value, list):
                setattr(new, field, [rec(x, d) if isinstance(x, ast.AST) else x for x in value])
        return new
    return rec(expr, depth)


# --------------------------------------------------------------------------- foundations

FOUNDATIONS = {
    # group: (module name, rules or None for all, what the group establishes)
    'geometry': [('c06', None), ('c02', {'R02.2', 'R02.3', 'R02.4', 'R02.5'})],
    'order': [('c01', None), ('c03', {'R03.1', 'R03.2', 'R03.3'})],
    'topology': [('c10', None)],
    'masks': [('c07', None)],
}
FOUNDATION_TEXT = {
    'geometry': "the polygon, centre and mask at position n are those of cell n (C06, C02)",
    'order': "native and linear indexes, flattening and winding use the one order grid_dimensions[kind] (C01, C03)",
    'topology': "the normalised mesh tables are the file's, whatever its encoding (C10)",
    'masks': "clip masks select the intersecting cells plus the buffer, on every grid kind (C07)",
}


def adopt_foundations(ctx: Context, rule: str, groups: list[str], floor: int = 10) -> int:
    """A property that is stated in terms of cells, polygons or mesh tables presupposes the facts other
    properties establish about them: a change in that shared infrastructure breaks this property too.  The
    obligations of those foundation groups are adopted under `rule` (own rules of the adopting property are
    not duplicated: adoption goes through share_obligations, which is memoised and cycle safe)."""
    import importlib
    what = '; '.join(FOUNDATION_TEXT[g] for g in groups)
    ctx.rule(rule, f"foundations this property rests on: {what}", floor=floor)
    n = 0
    own = f"emsverif.rules.{ctx.prop.lower()}"
    for g in groups:
        for modname, rules in FOUNDATIONS[g]:
            full = f"emsverif.rules.{modname}"
            if full == own:
                continue
            mod = importlib.import_module(full)
            wanted = rules
            if wanted is None:
                wanted = {f"R{modname[1:]}.{k}" for k in range(1, 10)}
            n += share_obligations(ctx, mod, wanted, rule)
    return n


# --------------------------------------------------------------------------- values paired with cells

def on_cells_only(ctx, fi, flow, ravel_call, rule: str, what: str, conv: str = 'self') -> None:
    """The variable flattened by `ravel_call` is known to lie on the default grid (the cells): a comparison of
    self.get_grid_kind(<that variable>) with self.default_grid_kind dominates the call and a mismatch raises."""
    fs = facts(ctx, fi, ravel_call)
    ok, why = False, f"known before ravel: {sorted(fs)[:4]}"
    arg = norm_text(expand_locals(flow, ravel_call.args[0])) if ravel_call.args else '?'
    for text, pol in fs:
        if not pol:
            continue
        for form in (f"{conv}.get_grid_kind({arg}) == {conv}.default_grid_kind", f"{conv}.default_grid_kind == {conv}.get_grid_kind({arg})",
                     f"{conv}.get_grid_kind({arg}) is {conv}.default_grid_kind"):
            if text == form:
                ok, why = True, text
    ctx.check(rule, ok, f"{what}: a variable on another grid (nodes, edges) is refused before it is flattened - flattened over its own grid and paired with the "
              "cells by position it would silently give cell n the value of node n whenever the two grids have the same size", fi, ravel_call, construct=why)




# --------------------------------------------------------------------------- facts on a path

def facts(ctx: Context, fi: FuncInfo, node: ast.AST, expand: bool = True, clauses_out: Optional[list] = None) -> set[tuple[str, bool]]:
    """The atomic conditions known to hold (True) or not to hold (False) on every path to `node`, as text:
    comparisons in their positive form, conjunctions / disjunctions taken apart, locals that stand for one
    expression spelled out.  `if a and not b:` / `if not a: return` + `if b: return` / `x if a and not b else y`
    all give {(a, True), (b, False)}."""
    flow = ctx.flow(fi)
    out: set[tuple[str, bool]] = set()
    clauses: list[list[tuple[str, bool]]] = []      # each: at least one of these literals holds

    def literal(t: ast.AST, pol: bool) -> Optional[tuple[str, bool]]:
        while isinstance(t, ast.UnaryOp) and isinstance(t.op, ast.Not):
            t, pol = t.operand, not pol
        if isinstance(t, ast.BoolOp):
            return None
        if isinstance(t, ast.Compare) and len(t.ops) == 1 and type(t.ops[0]) in _POSITIVE:
            t2 = ast.Compare(left=t.left, ops=[_POSITIVE[type(t.ops[0])]()], comparators=t.comparators)
            ast.copy_location(t2, t)
            t, pol = t2, not pol
        try:
            e = expand_locals(flow, t) if expand else t
        except Exception:
            e = t
        return norm_text(e), pol

    def add(t: ast.AST, pol: bool) -> None:
        while isinstance(t, ast.UnaryOp) and isinstance(t.op, ast.Not):
            t, pol = t.operand, not pol
        if isinstance(t, ast.BoolOp):
            if (isinstance(t.op, ast.And) and pol) or (isinstance(t.op, ast.Or) and not pol):
                for v in t.values:
                    add(v, pol)
            else:
                # a conjunction known false / a disjunction known true: at least one operand is false / true
                # (nested operands of the same kind are part of the same clause: `a or (b or c)`)
                flat = []
                todo = list(t.values)
                while todo:
                    v = todo.pop(0)
                    if isinstance(v, ast.BoolOp) and type(v.op) is type(t.op):
                        todo = list(v.values) + todo
                    else:
                        flat.append(v)
                lits = [literal(v, pol) for v in flat]
                if all(l is not None for l in lits):
                    clauses.append(lits)
            return
        if isinstance(t, ast.Compare) and len(t.ops) == 2 and pol:
            # a <= b <= c known true: both halves
            add(ast.Compare(left=t.left, ops=[t.ops[0]], comparators=[t.comparators[0]]), True)
            add(ast.Compare(left=t.comparators[0], ops=[t.ops[1]], comparators=[t.comparators[1]]), True)
        lit = literal(t, pol)
        if lit is not None:
            out.add(lit)
    for t, pol in path_conditions(fi, node):
        add(t, pol)
    # inside `for x in (SEQ if c else ())` the condition c holds (the loop body does not run otherwise)
    for lp in walk_no_nested(fi.node):
        if isinstance(lp, ast.For) and any(x is node for b in lp.body for x in ast.walk(b)):
            it = flow.resolve(lp.iter)
            if isinstance(it, ast.IfExp):
                def empty(e):
                    return isinstance(e, (ast.Tuple, ast.List, ast.Set)) and not e.elts or (isinstance(e, ast.Dict) and not e.keys)
                if empty(it.orelse) and not empty(it.body):
                    add(it.test, True)
                elif empty(it.body) and not empty(it.orelse):
                    add(it.test, False)
    if clauses_out is not None:
        clauses_out.extend([list(cl) for cl in clauses])     # the disjunctions known here: at least one literal of each holds
    # unit resolution: a clause all of whose literals but one are known to fail gives the last one
    changed = True
    while changed:
        changed = False
        for cl in clauses:
            open_ = [l for l in cl if (l[0], not l[1]) not in out]
            if len(open_) == 1 and open_[0] not in out:
                out.add(open_[0])
                changed = True
    return out


# --------------------------------------------------------------------------- small symbolic dictionaries

class _SubstNames(ast.NodeTransformer):
    def __init__(self, mapping: dict[str, ast.AST]):
        self.mapping = mapping

    def visit_Name(self, node: ast.Name):
        import copy
        if isinstance(node.ctx, ast.Load) and node.id in self.mapping:
            return copy.deepcopy(self.mapping[node.id])
        return node


def _fold(e: ast.AST) -> ast.AST:
    """getattr(x, 'name') -> x.name; comparisons between two enum members / constants -> True / False;
    `False or c` -> c; `True or c` -> True; `True and c` -> c; `False and c` -> False."""
    class F(ast.NodeTransformer):
        def visit_Call(self, node):
            self.generic_visit(node)
            if isinstance(node.func, ast.Name) and node.func.id == 'getattr' and len(node.args) == 2 and not node.keywords \
                    and isinstance(node.args[1], ast.Constant) and isinstance(node.args[1].value, str):
                return ast.copy_location(ast.Attribute(value=node.args[0], attr=node.args[1].value, ctx=ast.Load()), node)
            return node

        def visit_Compare(self, node):
            self.generic_visit(node)
            if len(node.ops) == 1 and isinstance(node.ops[0], (ast.Is, ast.IsNot, ast.Eq, ast.NotEq)):
                a, b = node.left, node.comparators[0]

                def member(x):
                    d = dotted(x)
                    return d if d and d[0].isupper() and '.' in d else (repr(x.value) if isinstance(x, ast.Constant) else None)
                ma, mb = member(a), member(b)
                if ma is not None and mb is not None:
                    same = ma == mb
                    val = same if isinstance(node.ops[0], (ast.Is, ast.Eq)) else not same
                    return ast.copy_location(ast.Constant(value=val), node)
            return node

        def visit_BoolOp(self, node):
            self.generic_visit(node)
            is_or = isinstance(node.op, ast.Or)
            vals = []
            for v in node.values:
                if isinstance(v, ast.Constant) and isinstance(v.value, bool):
                    if v.value is is_or:
                        return ast.copy_location(ast.Constant(value=is_or), node)
                    continue
                vals.append(v)
            if not vals:
                return ast.copy_location(ast.Constant(value=not is_or), node)
            if len(vals) == 1:
                return vals[0]
            node.values = vals
            return node
    import copy
    return ast.fix_missing_locations(F().visit(copy.deepcopy(e)))


def simple_aliases(fi: FuncInfo) -> dict[str, ast.AST]:
    """Locals assigned exactly once to an attribute chain / name / subscript (`topology = self.topology`)."""
    count: dict[str, int] = {}
    value: dict[str, ast.AST] = {}
    for n in ast.walk(fi.node):
        if isinstance(n, ast.Name) and isinstance(n.ctx, (ast.Store, ast.Del)):
            count[n.id] = count.get(n.id, 0) + 1
        elif isinstance(n, ast.arg):
            count[n.arg] = count.get(n.arg, 0) + 1
    for n in walk_no_nested(fi.node):
        if isinstance(n, ast.Assign) and len(n.targets) == 1 and isinstance(n.targets[0], ast.Name) and count.get(n.targets[0].id) == 1 \
                and isinstance(n.value, (ast.Attribute, ast.Name)) and dotted(n.value):
            value[n.targets[0].id] = n.value
    # chains
    for _ in range(3):
        for k, v in list(value.items()):
            value[k] = _SubstNames({a: b for a, b in value.items() if a != k}).visit(__import__('copy').deepcopy(v))
    return value


def spell_out(fi: FuncInfo, e: ast.AST) -> ast.AST:
    import copy
    return _SubstNames(simple_aliases(fi)).visit(copy.deepcopy(e))


def symbolic_dict(ctx: Context, fi: FuncInfo, expr: ast.AST, depth: int = 3) -> Optional[list[tuple[str, ast.AST, frozenset]]]:
    out = _symbolic_dict(ctx, fi, expr, depth)
    if out is None:
        return None
    res = []
    for k, v, c in out:
        conds = set()
        for t, pol in c:
            try:
                conds.add((norm_text(spell_out(fi, ast.parse(t, mode='eval').body)), pol))
            except SyntaxError:
                conds.add((t, pol))
        res.append((k, spell_out(fi, v), frozenset(conds)))
    return res


def _symbolic_dict(ctx: Context, fi: FuncInfo, expr: ast.AST, depth: int = 3) -> Optional[list[tuple[str, ast.AST, frozenset]]]:
    """The entries [(key text, value expression, conditions under which the entry is present)] of a dictionary that a
    function builds from literals: a display, `d[k] = v` statements (with the path conditions of each), a comprehension
    over the items of such a dictionary (a local or a class level table), with `getattr(x, 'name')` read as `x.name`.
    None when the construction is anything else."""
    if depth <= 0:
        return None
    flow = ctx.flow(fi)
    e = expr
    if isinstance(e, ast.Dict):
        if any(k is None for k in e.keys):
            return None
        return [(norm_text(k), v, frozenset()) for k, v in zip(e.keys, e.values)]
    if isinstance(e, ast.Name):
        defs = flow.defs_of(e)
        base = [d for d in defs if d.kind == 'assign' and d.value is not None]
        if len(base) != 1 or len(defs) != 1:
            return None
        entries = _symbolic_dict(ctx, fi, base[0].value, depth)
        if entries is None:
            return None
        entries = list(entries)
        for n in walk_no_nested(fi.node):
            if isinstance(n, ast.Assign) and len(n.targets) == 1 and isinstance(n.targets[0], ast.Subscript) \
                    and isinstance(n.targets[0].value, ast.Name) and n.targets[0].value.id == e.id:
                entries.append((norm_text(n.targets[0].slice), n.value, frozenset(facts(ctx, fi, n))))
        return entries
    if isinstance(e, ast.Attribute) and isinstance(e.value, ast.Name) and e.value.id in ('self', 'cls') and fi.cls is not None:
        for c in ctx.p.mro(fi.cls):
            if e.attr in c.attrs and isinstance(c.attrs[e.attr], ast.Dict):
                d = c.attrs[e.attr]
                if any(k is None for k in d.keys):
                    return None
                return [(norm_text(k), v, frozenset()) for k, v in zip(d.keys, d.values)]
        return None
    if isinstance(e, ast.DictComp) and len(e.generators) == 1:
        g = e.generators[0]
        it = g.iter
        src = None
        pair = False
        if isinstance(it, ast.Call) and isinstance(it.func, ast.Attribute) and it.func.attr == 'items' and not it.args:
            src, pair = it.func.value, True
        else:
            src = it
        entries = _symbolic_dict(ctx, fi, src, depth - 1)
        if entries is None:
            return None
        out = []
        for ktxt, val, cond in entries:
            kast = ast.parse(ktxt, mode='eval').body
            if pair and isinstance(g.target, ast.Tuple) and len(g.target.elts) == 2 and all(isinstance(x, ast.Name) for x in g.target.elts):
                mapping = {g.target.elts[0].id: kast, g.target.elts[1].id: val}
            elif not pair and isinstance(g.target, ast.Name):
                mapping = {g.target.id: kast}
            else:
                return None
            import copy
            key = _fold(_SubstNames(mapping).visit(copy.deepcopy(e.key)))
            value = _fold(_SubstNames(mapping).visit(copy.deepcopy(e.value)))
            conds = set(cond)
            drop = False
            for f_ in g.ifs:
                t = _fold(_SubstNames(mapping).visit(copy.deepcopy(f_)))
                if isinstance(t, ast.Constant) and isinstance(t.value, bool):
                    if not t.value:
                        drop = True
                    continue
                try:
                    t = expand_locals(flow, t)
                except Exception:
                    pass
                conds.add((norm_text(t), True))
            if not drop:
                out.append((norm_text(key), value, frozenset(conds)))
        return out
    return None


# --------------------------------------------------------------------------- defaults by None-ness of parameters

def none_case_values(fi: FuncInfo, params: list[str], target: str, stop: ast.AST) -> Optional[dict]:
    """What `target` holds when execution reaches the statement containing `stop`, for every combination of the
    given optional parameters being None or given.  A tiny evaluator for the defaulting prologue of a function:
    top level `if` statements whose tests are `p is None` / `p is not None` combined with and / or / not, and
    assignments to the parameters.  Values are returned as text with parameters standing for themselves
    (`'data_array.dims[axis]'`, `'data_array.dims[-1]'`, `'linear_dimension'`).  None when something else touches them."""
    import itertools

    def truth(test, env):
        if isinstance(test, ast.BoolOp):
            vals = [truth(v, env) for v in test.values]
            if any(v is None for v in vals):
                return None
            return all(vals) if isinstance(test.op, ast.And) else any(vals)
        if isinstance(test, ast.UnaryOp) and isinstance(test.op, ast.Not):
            v = truth(test.operand, env)
            return None if v is None else not v
        if isinstance(test, ast.Compare) and len(test.ops) == 1 and isinstance(test.ops[0], (ast.Is, ast.IsNot)) and is_none(test.comparators[0]) \
                and isinstance(test.left, ast.Name) and test.left.id in env:
            isnone = env[test.left.id] == 'None'
            return isnone if isinstance(test.ops[0], ast.Is) else not isnone
        return None

    def subst(e, env):
        class S(ast.NodeTransformer):
            def visit_Name(self, node):
                if isinstance(node.ctx, ast.Load) and node.id in env and env[node.id] != node.id:
                    try:
                        return ast.parse(env[node.id], mode='eval').body
                    except SyntaxError:
                        return node
                return node
        import copy

        def pick(x):
            # a conditional expression over the same tests takes the arm the case selects
            while isinstance(x, ast.IfExp):
                t = truth(x.test, env)
                if t is None:
                    break
                x = x.body if t else x.orelse
            return x
        return norm_text(S().visit(copy.deepcopy(pick(e))))

    def run(stmts, env):
        for st in stmts:
            if any(x is stop for x in ast.walk(st)) and not isinstance(st, ast.If):
                return env, True
            if isinstance(st, ast.If):
                t = truth(st.test, env)
                touches = any(isinstance(n, ast.Name) and isinstance(n.ctx, ast.Store) and n.id in env for n in ast.walk(st))
                inside = any(x is stop for x in ast.walk(st))
                if t is None:
                    if touches or inside:
                        return None, False
                    continue
                env, done = run(st.body if t else st.orelse, env)
                if env is None or done:
                    return env, done
                continue
            if isinstance(st, ast.Assign) and len(st.targets) == 1 and isinstance(st.targets[0], ast.Name) and st.targets[0].id in env:
                env = dict(env)
                env[st.targets[0].id] = subst(st.value, env)
                continue
            if any(isinstance(n, ast.Name) and isinstance(n.ctx, ast.Store) and n.id in env for n in ast.walk(st)):
                return None, False
        return env, False
    out = {}
    for combo in itertools.product((True, False), repeat=len(params)):
        env = {p: ('None' if isnone else p) for p, isnone in zip(params, combo)}
        if target not in env:
            env[target] = target
        env, done = run(fi.node.body, env)
        if env is None:
            return None
        out[tuple(combo)] = env[target]
    return out


# --------------------------------------------------------------------------- one item through a mapping builder

class Undecided(Exception):
    """A test, statement or atom the per-item interpreter has no meaning for."""


def _positive_compare(test: ast.Compare) -> tuple[ast.AST, bool]:
    """`a not in b`, `a is not b`, `a != b` in their positive spelling, with the polarity"""
    import copy
    flip = {ast.NotIn: ast.In, ast.IsNot: ast.Is, ast.NotEq: ast.Eq}
    if len(test.ops) == 1 and type(test.ops[0]) in flip:
        t = copy.deepcopy(test)
        t.ops = [flip[type(test.ops[0])]()]
        return t, False
    return test, True


def atom_truth(test: ast.AST, atoms: dict[str, Optional[bool]]) -> bool:
    """Truth of a test under an assignment of its atoms (by normalised positive text), evaluated with Python's short circuit.
    An atom that is absent, or whose value is None (evaluating it would fail), raises Undecided naming it."""
    if isinstance(test, ast.BoolOp):
        is_and = isinstance(test.op, ast.And)
        for v in test.values:
            t = atom_truth(v, atoms)
            if is_and and not t:
                return False
            if not is_and and t:
                return True
        return is_and
    if isinstance(test, ast.UnaryOp) and isinstance(test.op, ast.Not):
        return not atom_truth(test.operand, atoms)
    if isinstance(test, ast.Constant) and isinstance(test.value, bool):
        return test.value
    pol = True
    if isinstance(test, ast.Compare):
        test, pol = _positive_compare(test)
    text = norm_text(test)
    if atoms.get(text) is None:
        raise Undecided(text)
    return atoms[text] if pol else not atoms[text]


def item_outcome(builder, atoms: dict[str, Optional[bool]], env: Optional[dict] = None) -> list[tuple[str, str, ast.AST]]:
    """Run ONE item through a mapping builder under an assignment of atoms and return the subscript stores that survive,
    as (mapping text, key text, value) in order with later stores to the same slot replacing earlier ones.
    `builder` is a DictComp (one clause: the store is its key/value unless a filter rejects the item; mapping text '<comp>')
    or the body of a `for` loop (assignments to names are substituted forward; `if` follows the atoms; `continue` ends the item).
    Conditional expressions in values are resolved with the atoms.  Anything else raises Undecided."""
    import copy
    env = dict(env or {})

    def subst(e):
        return _SubstNames(env).visit(copy.deepcopy(e)) if env else e

    def value_of(e):
        e = subst(e)
        while isinstance(e, ast.IfExp):
            e = e.body if atom_truth(e.test, atoms) else e.orelse
        return e
    stores: dict[tuple[str, str], ast.AST] = {}
    if isinstance(builder, ast.DictComp):
        if len(builder.generators) != 1:
            raise Undecided('more than one clause')
        for f in builder.generators[0].ifs:
            if not atom_truth(f, atoms):
                return []
        return [('<comp>', norm_text(builder.key), value_of(builder.value))]

    def run(stmts) -> str:
        for st in stmts:
            if isinstance(st, ast.AnnAssign) and st.value is not None:
                st = ast.Assign(targets=[st.target], value=st.value)
            if isinstance(st, ast.Assign) and len(st.targets) == 1 and isinstance(st.targets[0], ast.Name):
                env[st.targets[0].id] = value_of(st.value)
            elif isinstance(st, ast.Assign) and len(st.targets) == 1 and isinstance(st.targets[0], ast.Subscript):
                t = st.targets[0]
                stores[(norm_text(subst(t.value)), norm_text(subst(t.slice)))] = value_of(st.value)
            elif isinstance(st, ast.If):
                how = run(st.body if atom_truth(subst(st.test), atoms) else st.orelse)
                if how != 'next':
                    return how
            elif isinstance(st, ast.Continue):
                return 'continue'
            elif isinstance(st, ast.Pass) or isinstance(st, ast.AnnAssign):
                continue
            else:
                raise Undecided(norm_text(st)[:60])
        return 'next'
    run(list(builder))
    return [(m, k, v) for (m, k), v in stores.items()]


# --------------------------------------------------------------------------- folding a small pure function over given inputs

_MISSING = object()


def fold_function(fi: FuncInfo, inputs: dict[str, object], max_steps: int = 200, *, only_names: Optional[set] = None, want: Optional[list] = None) -> tuple[str, object]:
    """What a small decision function does for given inputs, read off its source: ('return', value), ('raise', exception name)
    or ('fall', None).  `inputs` maps the text of an expression (`'output_path.suffix'`, a parameter name) to the Python value it
    is to stand for.  Understood: assignments to names, if / elif / else, return, raise, comparisons (== != in not in is is not < <= > >=),
    and / or / not, conditional expressions, literal displays (tuple, list, set, dict), subscripts and .get() of those,
    str.lower / upper / strip / startswith / endswith, len().  Anything else raises Undecided naming it: no guessing."""
    env: dict[str, object] = {}
    steps = [0]
    warned: list[str] = []
    fold_function.last_warnings = warned

    def ev(e: ast.AST):
        steps[0] += 1
        if steps[0] > max_steps:
            raise Undecided('too long')
        text = norm_text(e)
        if text in inputs:
            return inputs[text]
        if isinstance(e, ast.Constant):
            return e.value
        if isinstance(e, ast.Name):
            if e.id in env:
                return env[e.id]
            raise Undecided(e.id)
        if isinstance(e, (ast.Tuple, ast.List)):
            vals = []
            for x in e.elts:
                if isinstance(x, ast.Starred):
                    inner = ev(x.value)
                    if not isinstance(inner, (tuple, list)):
                        raise Undecided(text[:40])
                    vals.extend(inner)
                else:
                    vals.append(ev(x))
            return tuple(vals) if isinstance(e, ast.Tuple) else vals
        if isinstance(e, ast.Set):
            return frozenset(ev(x) for x in e.elts)
        if isinstance(e, (ast.ListComp, ast.GeneratorExp, ast.SetComp)) and len(e.generators) == 1 and isinstance(e.generators[0].target, ast.Name) and not e.generators[0].is_async:
            # a comprehension over a constant sequence: one evaluation of the element per item (the loop variable is local to it)
            g = e.generators[0]
            seq = ev(g.iter)
            if not isinstance(seq, (tuple, list)):
                raise Undecided(text[:40])
            saved = env.get(g.target.id, _MISSING)
            out_ = []
            try:
                for item in seq:
                    env[g.target.id] = item
                    if all(ev(t) for t in g.ifs):
                        out_.append(ev(e.elt))
            finally:
                if saved is _MISSING:
                    env.pop(g.target.id, None)
                else:
                    env[g.target.id] = saved
            return frozenset(out_) if isinstance(e, ast.SetComp) else out_
        if isinstance(e, ast.JoinedStr):
            parts = []
            for part in e.values:
                if isinstance(part, ast.Constant):
                    parts.append(str(part.value))
                elif isinstance(part, ast.FormattedValue) and part.format_spec is None and part.conversion in (-1, 115, 114):
                    v = ev(part.value)
                    parts.append(repr(v) if part.conversion == 114 else str(v))
                else:
                    raise Undecided(text[:40])
            return ''.join(parts)
        if isinstance(e, ast.BinOp) and isinstance(e.op, ast.Add):
            a, b = ev(e.left), ev(e.right)
            if type(a) is type(b) and isinstance(a, (str, list, tuple)):
                return a + b
            raise Undecided(text[:40])
        if isinstance(e, ast.Dict):
            if any(k is None for k in e.keys):
                raise Undecided(text[:40])
            return {ev(k): ev(v) for k, v in zip(e.keys, e.values)}
        if isinstance(e, ast.BoolOp):
            v = None
            for x in e.values:
                v = ev(x)
                if isinstance(e.op, ast.And) and not v:
                    return v
                if isinstance(e.op, ast.Or) and v:
                    return v
            return v
        if isinstance(e, ast.UnaryOp) and isinstance(e.op, ast.Not):
            return not ev(e.operand)
        if isinstance(e, ast.IfExp):
            return ev(e.body) if ev(e.test) else ev(e.orelse)
        if isinstance(e, ast.Compare):
            left = ev(e.left)
            for op, right_ in zip(e.ops, e.comparators):
                right = ev(right_)
                try:
                    r = {ast.Eq: lambda: left == right, ast.NotEq: lambda: left != right, ast.In: lambda: left in right, ast.NotIn: lambda: left not in right,
                         ast.Is: lambda: left is right, ast.IsNot: lambda: left is not right, ast.Lt: lambda: left < right, ast.LtE: lambda: left <= right,
                         ast.Gt: lambda: left > right, ast.GtE: lambda: left >= right}[type(op)]()
                except TypeError:
                    raise Undecided(text[:40])
                if not r:
                    return False
                left = right
            return True
        if isinstance(e, ast.Subscript):
            base, key = ev(e.value), ev(e.slice)
            try:
                return base[key]
            except (KeyError, IndexError, TypeError):
                return _Raised('KeyError' if isinstance(base, dict) else 'IndexError')
        if isinstance(e, ast.Call) and not e.keywords:
            if isinstance(e.func, ast.Name) and e.func.id == 'len' and len(e.args) == 1:
                return len(ev(e.args[0]))
            if isinstance(e.func, ast.Name) and e.func.id in ('int', 'float', 'str', 'bool') and len(e.args) == 1:
                try:
                    return {'int': int, 'float': float, 'str': str, 'bool': bool}[e.func.id](ev(e.args[0]))
                except (TypeError, ValueError):
                    return _Raised('ValueError')
            if isinstance(e.func, ast.Name) and e.func.id in ('frozenset', 'set', 'tuple', 'list', 'dict') and len(e.args) == 1:
                return {'frozenset': frozenset, 'set': frozenset, 'tuple': tuple, 'list': list, 'dict': dict}[e.func.id](ev(e.args[0]))
            if isinstance(e.func, ast.Attribute):
                recv = ev(e.func.value)
                args = [ev(a) for a in e.args]
                if isinstance(recv, dict) and e.func.attr == 'get' and 1 <= len(args) <= 2:
                    return recv.get(*args)
                if isinstance(recv, str) and e.func.attr in ('lower', 'upper', 'strip', 'casefold', 'startswith', 'endswith', 'lstrip', 'rstrip') and len(args) <= 1:
                    return getattr(recv, e.func.attr)(*args)
        raise Undecided(text[:60])

    class _Raised:
        def __init__(self, name):
            self.name = name

    class _Exit(Exception):
        def __init__(self, kind, value):
            self.kind, self.value = kind, value

    def value(e):
        v = ev(e)
        if isinstance(v, _Raised):
            raise _Exit('raise', v.name)
        return v

    def stores_of(st) -> set:
        return {n.id for n in ast.walk(st) if isinstance(n, ast.Name) and isinstance(n.ctx, ast.Store)}

    def run(stmts):
        for st in stmts:
            if isinstance(st, ast.Expr) and isinstance(st.value, ast.Constant):
                continue
            if only_names is not None:
                # a slice of the function: only what decides the wanted names is followed, exits are not taken
                if not (stores_of(st) & only_names) or isinstance(st, (ast.Return, ast.Raise)):
                    continue
                if isinstance(st, ast.Assign) and len(st.targets) == 1 and isinstance(st.targets[0], ast.Tuple) and all(isinstance(e, ast.Name) for e in st.targets[0].elts):
                    vals = value(st.value)
                    if not isinstance(vals, (tuple, list)) or len(vals) != len(st.targets[0].elts):
                        raise Undecided(norm_text(st)[:60])
                    for e, v in zip(st.targets[0].elts, vals):
                        env[e.id] = v
                    continue
            if isinstance(st, ast.AnnAssign) and st.value is None:
                continue
            if isinstance(st, ast.AnnAssign) and st.value is not None and isinstance(st.target, ast.Name):
                env[st.target.id] = value(st.value)
            elif isinstance(st, ast.Assign) and len(st.targets) == 1 and isinstance(st.targets[0], ast.Name):
                env[st.targets[0].id] = value(st.value)
            elif isinstance(st, ast.If):
                run(st.body if value(st.test) else st.orelse)
            elif isinstance(st, ast.Return):
                raise _Exit('return', value(st.value) if st.value is not None else None)
            elif isinstance(st, ast.Raise):
                exc = st.exc.func if isinstance(st.exc, ast.Call) else st.exc
                raise _Exit('raise', (dotted(exc) or '?').rsplit('.', 1)[-1] if exc is not None else '?')
            elif isinstance(st, ast.Pass):
                continue
            elif isinstance(st, ast.Expr) and isinstance(st.value, ast.Call) and (dotted(st.value.func) or '') in ('warnings.warn', 'warn'):
                warned.append(norm_text(st.value.args[1]).rsplit('.', 1)[-1] if len(st.value.args) > 1 else 'UserWarning')
            elif isinstance(st, ast.Try) and not st.finalbody:
                try:
                    run(st.body)
                except _Exit as x:
                    if x.kind != 'raise':
                        raise
                    for h in st.handlers:
                        names = [norm_text(t).rsplit('.', 1)[-1] for t in (h.type.elts if isinstance(h.type, ast.Tuple) else [h.type])] if h.type is not None else [x.value]
                        if x.value in names or 'Exception' in names or ('LookupError' in names and x.value in ('KeyError', 'IndexError')):
                            if h.name:
                                raise Undecided('exception object used')
                            run(h.body)
                            break
                    else:
                        raise
                else:
                    run(st.orelse)
            else:
                raise Undecided(norm_text(st)[:60])
    from ..inline import _body_wo_doc
    try:
        run(_body_wo_doc(fi.node))
    except _Exit as x:
        return x.kind, x.value
    if want is not None:
        return 'values', [value(e) for e in want]
    return 'fall', None


def names_deciding(fi: FuncInfo, exprs: list[ast.AST], stop: Iterable[str] = ()) -> set[str]:
    """The local names the given expressions depend on, transitively through the assignments of the function (parameters and `stop` excluded)."""
    params = set(fi.params) | set(stop)
    wanted = {n.id for e in exprs for n in ast.walk(e) if isinstance(n, ast.Name)} - params
    changed = True
    while changed:
        changed = False
        for st in ast.walk(fi.node):
            if isinstance(st, (ast.Assign, ast.AnnAssign, ast.AugAssign)):
                tg = {n.id for t in (st.targets if isinstance(st, ast.Assign) else [st.target]) for n in ast.walk(t) if isinstance(n, ast.Name)}
                if tg & wanted and getattr(st, 'value', None) is not None:
                    more = {n.id for n in ast.walk(st.value) if isinstance(n, ast.Name) and isinstance(n.ctx, ast.Load)} - params - wanted
                    more = {m for m in more if any(isinstance(x, ast.Name) and x.id == m and isinstance(x.ctx, ast.Store) for x in ast.walk(fi.node))}
                    if more:
                        wanted |= more
                        changed = True
    return wanted


# --------------------------------------------------------------------------- conjunctions of boolean arrays

def array_conjuncts(flow, expr: ast.AST, depth: int = 6) -> list[tuple[ast.AST, bool]]:
    """The element-wise conjuncts of a boolean array expression as (operand, negated): locals spelled out, `~` pushed through
    `|` and `&` (De Morgan), `a & b` taken apart, numpy.logical_and / logical_or / logical_not read as the operators.
    A disjunction that is not under a negation stays one opaque conjunct."""
    def res(e):
        if isinstance(e, ast.Name) and depth:
            r = flow.resolve(e)
            return r if r is not None else e
        return e

    def walk(e, neg, d):
        e = res(e)
        if d <= 0:
            return [(e, neg)]
        if isinstance(e, ast.UnaryOp) and isinstance(e.op, ast.Invert):
            return walk(e.operand, not neg, d - 1)
        if isinstance(e, ast.Call) and (dotted(e.func) or '').rsplit('.', 1)[-1] == 'logical_not' and len(e.args) == 1:
            return walk(e.args[0], not neg, d - 1)
        parts = None
        if isinstance(e, ast.BinOp) and isinstance(e.op, (ast.BitAnd, ast.BitOr)):
            parts, is_and = [e.left, e.right], isinstance(e.op, ast.BitAnd)
        elif isinstance(e, ast.Call) and (dotted(e.func) or '').rsplit('.', 1)[-1] in ('logical_and', 'logical_or') and len(e.args) == 2 and not e.keywords:
            parts, is_and = list(e.args), (dotted(e.func) or '').endswith('logical_and')
        if parts is not None and (is_and != neg):
            # a conjunction as it stands, or a negated disjunction
            out = []
            for x in parts:
                out += walk(x, neg, d - 1)
            return out
        return [(e, neg)]
    return walk(expr, False, depth)
