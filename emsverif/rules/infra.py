"""Obligations on the shared infrastructure behind several properties.

Round 3 of the seeded changes (DESIGN 9.7) was aimed away from the functions the properties
are anchored in: helpers, cached properties, constructors, module constants, sibling overrides.
Each function here states one fact about such a place and adds it, under the rule id it is
given, to the property that depends on it.
"""
from __future__ import annotations

import ast
from typing import Iterable

from ..model import const_value, dotted, kwarg, norm_text, walk_no_nested
from ..pattern import Matcher
from ..report import Context
from .common import arg_or_kw, calls_in, callee, guards, method_calls, path_conditions, positive_conditions

BASE = 'emsarray.conventions._base.Convention'
TOPO = 'emsarray.conventions.ugrid.Mesh2DTopology'
MUTATORS = {'update', 'setdefault', 'pop', 'popitem', 'clear', 'append', 'extend', 'insert', 'remove', 'add', 'discard', 'sort', 'reverse'}


# --------------------------------------------------------------------------- constructors and class state

def arakawa_names(ctx: Context, rule: str) -> None:
    """ArakawaC(ds, coordinate_names=...) gives the instance its own mapping, entry K holding the names given for K."""
    fi = ctx.func('emsarray.conventions.arakawa_c.ArakawaC.__init__')
    m = Matcher(ctx, fi)
    arg = next((p for p in fi.params if 'coordinate' in p), None)
    st = m.stmt(f"self.coordinate_names = {{ArakawaCGridKind($k): $v for $k, $v in {arg}.items()}}") if arg else None
    alt = m.stmt(f"self.coordinate_names = {{ArakawaCGridKind($k): tuple($v) for $k, $v in {arg}.items()}}") if arg and st is None else None
    stores = [n for n in walk_no_nested(fi.node) if isinstance(n, (ast.Assign, ast.AnnAssign))
              and any(norm_text(t) == 'self.coordinate_names' for t in (n.targets if isinstance(n, ast.Assign) else [n.target]))]
    ctx.check(rule, (st or alt) is not None and len(stores) == 1,
              "ArakawaC.__init__ stores a fresh mapping built item by item: the entry for a grid kind holds the names given under that kind's own key", fi,
              st or alt or (stores[0] if stores else fi.node), construct=f"self.coordinate_names = {norm_text(stores[0].value)[:100] if stores else 'never assigned'}")


def cf_grid_names(ctx: Context, rule: str) -> None:
    """CFGrid(ds, latitude=..., longitude=...): each name is an independent override, so the topology receives the given names
    whenever either is given (the other one is detected)."""
    fi = ctx.func('emsarray.conventions.grid.CFGrid.__init__')
    calls = [c for c in calls_in(fi) if norm_text(c.func) == 'self.topology_class' and kwarg(c, 'latitude') is not None and kwarg(c, 'longitude') is not None]
    ok, why = False, 'the names are never handed to the topology'
    if len(calls) == 1:
        c = calls[0]
        passes = norm_text(kwarg(c, 'latitude')) == 'latitude' and norm_text(kwarg(c, 'longitude')) == 'longitude' \
            and 'latitude' in fi.params and 'longitude' in fi.params
        conds = [(norm_text(t), pol) for t, pol in path_conditions(fi, c)]
        either = any(pol and t in ('latitude is not None or longitude is not None', 'longitude is not None or latitude is not None') for t, pol in conds) or \
            any((not pol) and t in ('latitude is None and longitude is None', 'longitude is None and latitude is None') for t, pol in conds)
        both_only = any(pol and t in ('latitude is not None', 'longitude is not None') for t, pol in conds)
        ok = passes and either and not both_only
        why = f"topology_class(dataset, latitude=latitude, longitude=longitude) under {conds}"
    ctx.check(rule, ok, "a hand built CF grid convention hands the latitude / longitude names it was given to its topology when either one is given "
              "(given alone, a name used to be ignored and the grid built from whatever the detection finds first)", fi, calls[0] if calls else fi.node, construct=why)


def class_state(ctx: Context, rule: str, package_prefix: str = 'emsarray.conventions') -> None:
    """No method mutates, in place, a container that lives on a class: detection (a classmethod reading class
    attributes) would then depend on which instances were created before."""
    p = ctx.p
    n = 0
    for ci in sorted(p.classes.values(), key=lambda c: c.qualname):
        if not ci.qualname.startswith(package_prefix):
            continue
        level = set()
        for anc in p.mro(ci):
            level |= set(anc.attrs)
        for name, fi in sorted(ci.methods.items()):
            flow = ctx.flow(fi)
            bad = []
            for node in ast.walk(fi.node):
                recv = None
                how = ''
                if isinstance(node, ast.Call) and isinstance(node.func, ast.Attribute) and node.func.attr in MUTATORS:
                    recv, how = node.func.value, f".{node.func.attr}(...)"
                elif isinstance(node, (ast.Assign, ast.AugAssign, ast.Delete)):
                    tg = node.targets if isinstance(node, (ast.Assign, ast.Delete)) else [node.target]
                    for t in tg:
                        if isinstance(t, ast.Subscript):
                            recv, how = t.value, '[...] = / del [...]'
                if recv is None:
                    continue
                r = flow.resolve(recv)
                attr = None
                if isinstance(r, ast.Attribute) and isinstance(r.value, ast.Name) and r.value.id in ('self', 'cls'):
                    attr = r.attr
                elif isinstance(r, ast.Call) and dotted(r.func) == 'getattr' and len(r.args) >= 2 and isinstance(r.args[0], ast.Name) \
                        and r.args[0].id in ('self', 'cls') and isinstance(const_value(r.args[1], None), str):
                    attr = const_value(r.args[1], None)
                if attr is None or attr not in level:
                    continue
                # a fresh object stored on the instance earlier in this method shadows the class attribute
                own = [s for s in walk_no_nested(fi.node) if isinstance(s, (ast.Assign, ast.AnnAssign)) and s.lineno < node.lineno
                       and any(norm_text(t) == f"self.{attr}" for t in (s.targets if isinstance(s, ast.Assign) else [s.target]))
                       and isinstance(s.value, (ast.Dict, ast.List, ast.Set, ast.DictComp, ast.ListComp, ast.SetComp, ast.Call))]
                if own and not isinstance(r, ast.Call):
                    continue
                bad.append((node, f"{norm_text(recv)}{how} changes the class level `{attr}`"))
            if bad or name in ('__init__', '__post_init__', 'check_dataset'):
                n += 1
                ctx.check(rule, not bad, "no method changes a class level container in place (it would be shared by every instance and by detection)", fi,
                          bad[0][0] if bad else fi.node, construct=f"{fi.short}: {bad[0][1] if bad else 'no in-place change of class level state'}")


# --------------------------------------------------------------------------- dimension discovery helpers

def cf_grid_dimensions(ctx: Context, rule: str) -> None:
    """y / x dimensions of CF grids are read off the coordinate variables, not assumed from their names."""
    want = {
        'emsarray.conventions.grid.CFGrid1DTopology.y_dimension': 'self.latitude.dims[0]',
        'emsarray.conventions.grid.CFGrid1DTopology.x_dimension': 'self.longitude.dims[0]',
        'emsarray.conventions.grid.CFGrid2DTopology.y_dimension': 'self.latitude.dims[0]',
        'emsarray.conventions.grid.CFGrid2DTopology.x_dimension': 'self.latitude.dims[1]',
    }
    for q, expr in want.items():
        fi = ctx.func(q)
        flow = ctx.flow(fi)
        rets = fi.returns()
        ok = len(rets) == 1 and norm_text(flow.resolve(rets[0].value)) == expr
        ctx.check(rule, ok, "a CF grid dimension is the dimension its coordinate variable actually has (names and dimensions may differ)", fi,
                  rets[0] if rets else fi.node, construct=f"{fi.short} returns {norm_text(rets[0].value) if rets else '?'}; expected {expr}")


def mesh_counts(ctx: Context, rule: str) -> None:
    """edge_count: the size of the edge dimension when the dataset has it, else the number of rows of the edge-node table in use."""
    fi = ctx.func(f"{TOPO}.edge_count")
    flow = ctx.flow(fi)
    from .common import facts, spell_out
    rets = sorted(fi.returns(), key=lambda r: r.lineno)
    vals = [norm_text(spell_out(fi, flow.resolve(r.value))) for r in rets]
    ok = vals == ['self.dataset.sizes[self.edge_dimension]', 'self.edge_node_array.shape[0]']
    if ok:
        # the size is read when the dataset has the dimension (asked, or found out by trying), the table is counted when it has not
        have = ('self.edge_dimension in self.dataset.sizes', True)
        ok = have in facts(ctx, fi, rets[0]) and (have[0], False) in facts(ctx, fi, rets[1])
    ctx.check(rule, ok, "edge_count is the size of the edge dimension, else the row count of the edge-node table (no closed formula: meshes have holes, islands and unused nodes)", fi,
              fi.node, construct=f"edge_count returns {vals}")


def start_index_source(ctx: Context, rule: str) -> None:
    """_to_index_array shifts a table by that table's own start_index (default 0), unconditionally."""
    fi = ctx.func(f"{TOPO}._to_index_array")
    flow = ctx.flow(fi)
    calls = [c for c in calls_in(fi) if callee(ctx, fi, c) == 'emsarray.conventions.ugrid._get_start_index']
    conds = [norm_text(t) for t, _ in path_conditions(fi, calls[0])] if calls else []
    ok = len(calls) == 1 and len(calls[0].args) == 1 and isinstance(calls[0].args[0], ast.Name) and calls[0].args[0].id == fi.params[1] \
        and not any('start_index' in c or 'attrs' in c for c in conds)
    ctx.check(rule, ok, "every table is shifted by its own start_index attribute (UGRID default 0 when absent), never by another variable's", fi,
              calls[0] if calls else fi.node, construct=f"start index read: {[norm_text(c) for c in calls]} under {conds}")
    gs = ctx.func('emsarray.conventions.ugrid._get_start_index')
    gflow = ctx.flow(gs)
    p0 = gs.params[0]
    reads = [n for n in ast.walk(gs.node) if (isinstance(n, ast.Subscript) and const_value(n.slice, None) == 'start_index' and isinstance(n.ctx, ast.Load))
             or (isinstance(n, ast.Call) and isinstance(n.func, ast.Attribute) and n.func.attr == 'get' and n.args and const_value(n.args[0], None) == 'start_index')]
    own = all(norm_text(n.value if isinstance(n, ast.Subscript) else n.func.value) == f"{p0}.attrs" for n in reads)
    from .common import facts as _facts_si
    absent = [r for r in gs.returns() if (f"'start_index' in {p0}.attrs", False) in _facts_si(ctx, gs, r)]
    ok = bool(reads) and own and len(absent) == 1 and const_value(absent[0].value, None) == 0
    ctx.check(rule, ok, "_get_start_index reads the variable's own attribute with the UGRID default 0", gs, reads[0] if reads else gs.node,
              construct=f"_get_start_index: reads {[norm_text(n) for n in reads]}; absent -> {[norm_text(r.value) for r in absent]}")


def face_edge_fill_range(ctx: Context, rule: str) -> None:
    from .common import facts
    fi = ctx.func(f"{TOPO}.has_valid_face_edge_connectivity")
    m = Matcher(ctx, fi)
    ok = m.has('$lo = _get_start_index($da)') and (m.stmt('$hi = self.edge_count + $lo') is not None or m.stmt('$hi = $lo + self.edge_count') is not None)
    inclusive = exclusive = None
    test = None
    if ok:
        lo, hi = m.name('lo'), m.name('hi')
        # the refusal: the `return False` reached when the fill value lies in the range (however the comparison is spelt or nested)
        for r in fi.returns():
            if const_value(r.value, None) is not False:
                continue
            rel = {'lower': None, 'upper': None}
            subj = set()
            for t, pol in facts(ctx, fi, r, expand=False):
                if not pol:
                    continue
                try:
                    c = ast.parse(t, mode='eval').body
                except SyntaxError:
                    continue
                if not (isinstance(c, ast.Compare) and len(c.ops) == 1):
                    continue
                a, op, b = norm_text(c.left), type(c.ops[0]), norm_text(c.comparators[0])
                if (a == lo and op is ast.LtE) or (b == lo and op is ast.GtE):
                    rel['lower'] = 'inclusive'
                    subj.add(b if a == lo else a)
                if (b == hi and op is ast.LtE) or (a == hi and op is ast.GtE):
                    rel['upper'] = 'inclusive'
                    subj.add(a if b == hi else b)
                if (b == hi and op is ast.Lt) or (a == hi and op is ast.Gt):
                    rel['upper'] = 'exclusive'
                    subj.add(a if b == hi else b)
            if rel['lower'] == 'inclusive' and rel['upper'] and len(subj) == 1:
                test = r
                if rel['upper'] == 'inclusive':
                    inclusive = r
                else:
                    exclusive = r

    class _T:          # what the report shows for the range test
        pass
    shown = None
    if test is not None:
        from .common import enclosing_ifs
        ifs_ = [st for st, inb in enclosing_ifs(fi, test) if inb]
        shown = ifs_[-1] if ifs_ else None
    ctx.check(rule, ok and test is not None, "a fill value of the face-edge table is compared with the table's own index range, which starts at its start_index and is edge_count long", fi,
              test or fi.node, construct='range test on start_index, start_index + edge_count')
    if test is not None and shown is not None:
        test = shown
    if test is not None and isinstance(test, ast.If):
        ctx.check(rule, exclusive is not None, "the index range is [start_index, start_index + edge_count): a fill value equal to start_index + edge_count is outside it and the supplied table is used as given", fi,
                  test, construct=f"upper bound inclusive: {norm_text(test.test)}" if exclusive is None else f"upper bound exclusive: {norm_text(test.test)}")
        # edge_count raises without an edge dimension: the comparison needs one
        reads = [n for n in ast.walk(fi.node) if isinstance(n, ast.Attribute) and n.attr in ('edge_count', 'edge_dimension') and norm_text(n.value) == 'self']
        unguarded = [n for n in reads if ('self.has_edge_dimension', True) not in guards(fi, n)]
        ctx.check(rule, bool(reads) and not unguarded, "the edge count is only consulted when the mesh has an edge dimension (edge_count raises NoEdgeDimensionException otherwise, "
                  "and a table that is fine with NaN padding must be fine with a _FillValue)", fi, unguarded[0] if unguarded else test,
                  construct=f"reads of edge_count / edge_dimension outside a has_edge_dimension guard: {[norm_text(n) for n in unguarded] or 'none'}")


# --------------------------------------------------------------------------- name lookups

def lookup_namespace(ctx: Context, rule: str, members: Iterable[str]) -> None:
    """Variables found by name (depth, time, bounds ...) are looked up among all variables of the dataset: a
    coordinate variable that the file does not flag as a coordinate is a plain variable for xarray."""
    p = ctx.p
    base = p.cls(BASE)
    for member in members:
        for fi in p.implementations(base, member):
            narrow = []
            for n in ast.walk(fi.node):
                if isinstance(n, ast.Attribute) and n.attr in ('coords', 'data_vars') and norm_text(n.value).endswith('dataset'):
                    narrow.append(n)
            ctx.check(rule, not narrow, f"{member}: names are looked up in dataset[...] / dataset.variables, not only among coordinates or only among data variables", fi,
                      narrow[0] if narrow else fi.node, construct=f"{fi.short}: narrowed lookups {[norm_text(x) for x in narrow] or 'none'}")


def live_depth_coordinates(ctx: Context, rule: str) -> None:
    """depth_coordinates hands out the dataset's own variables (no detached copies whose attributes can go stale)."""
    p = ctx.p
    for fi in p.implementations(p.cls(BASE), 'depth_coordinates'):
        copies = [c for c in calls_in(fi, nested=True) if isinstance(c.func, ast.Attribute) and c.func.attr in ('copy', 'deepcopy')]
        ctx.check(rule, not copies, "depth_coordinates returns the dataset's own variables, so a corrected `positive` attribute is seen", fi,
                  copies[0] if copies else fi.node, construct=f"{fi.short}: copies made: {[norm_text(c)[:40] for c in copies] or 'none'}")


def every_depth_coordinate(ctx: Context, rule: str) -> None:
    """Whether a variable is a depth coordinate is decided from that variable alone (its attributes, not being a bounds variable,
    not being defined on a grid): none is left out, or ranked below another, because of what else the dataset holds."""
    from .common import facts
    p = ctx.p
    for fi in p.implementations(p.cls(BASE), 'depth_coordinates'):
        flow = ctx.flow(fi)
        appends = [c for c in calls_in(fi, nested=True) if isinstance(c.func, ast.Attribute) and c.func.attr in ('append', 'add') and isinstance(c.func.value, ast.Name) and len(c.args) == 1]
        accs = sorted({c.func.value.id for c in appends})
        if not appends:
            continue    # a fixed list of names looked up in the dataset (SHOC): nothing is discovered, nothing can be left out
        rets = fi.returns()
        ok_ret = len(accs) == 1 and bool(rets) and all(
            isinstance(flow.resolve(r.value), ast.Call) and dotted(flow.resolve(r.value).func) in ('tuple', 'list') and len(flow.resolve(r.value).args) == 1
            and norm_text(flow.resolve(r.value).args[0]) == accs[0] for r in rets)
        ctx.check(rule, ok_ret, "all the variables recognised as depth coordinates are returned, as one collection in dataset order", fi, rets[0] if rets else fi.node,
                  construct=f"{fi.short}: collections filled: {accs}; returns {[norm_text(r.value)[:50] for r in rets]}")
        foreign = []
        for c in appends:
            for t, pol in facts(ctx, fi, c, expand=False):
                names = {n.id for n in ast.walk(ast.parse(t, mode='eval')) if isinstance(n, ast.Name)} if _parses(t) else set()
                if names & set(accs) or '.dims' in t or '.sizes' in t or '.shape' in t:
                    foreign.append(f"`{t}` is {pol}")
        ctx.check(rule, not foreign, "a variable is a depth coordinate because of its own attributes: it is not left out because another coordinate was found before it "
                  "(two vertical coordinates on one dimension, a depth and a height, each have their own sign)", fi, appends[0] if appends else fi.node,
                  construct=f"{fi.short}: conditions on the collection so far or on shapes: {foreign[:2] or 'none'}")


def depth_coordinates_only_read(ctx: Context, rule: str) -> None:
    """Asking which variables are the depth coordinates does not change them: a `positive` attribute is what the file says,
    and when the file says nothing the direction is judged from the values, not from a default written in on the way."""
    from ..effects import writes_in
    p = ctx.p
    for member in ('depth_coordinates', 'depth_coordinate', 'get_depth_coordinate_for_data_array'):
        for fi in p.implementations(p.cls(BASE), member):
            flow = ctx.flow(fi)
            bad = []
            for node, obj, how in writes_in(fi, flow):
                if isinstance(obj, ast.Name):
                    defs = flow.defs_of(obj)
                    if defs and all(d.kind in ('assign', 'walrus') and (
                            isinstance(d.value, (ast.List, ast.Set, ast.Dict, ast.ListComp, ast.SetComp, ast.DictComp))
                            or (isinstance(d.value, ast.Call) and dotted(d.value.func) in ('list', 'set', 'dict', 'collections.defaultdict', 'defaultdict')))
                            for d in defs):
                        continue    # filling a collection made here
                bad.append((node, f"{how} on `{norm_text(obj)[:40]}`"))
            ctx.check(rule, not bad, f"{member} only reads the dataset: no attribute, encoding or value of a variable is written while the depth coordinates are looked up", fi,
                      bad[0][0] if bad else fi.node, construct=f"{fi.short}: writes: {[b[1] for b in bad][:3] or 'none'}")


def fill_marker_on_copies(ctx: Context, rule: str) -> None:
    """find_fill_value tells "packed on disk without a fill value" by the *absence* of `_FillValue` from a variable's encoding.
    Any function of emsarray that puts that key into the encoding of a variable it was handed therefore has to be given a copy:
    otherwise saving a dataset changes how it is clipped afterwards."""
    from ..effects import writes_in, roots_of
    p = ctx.p
    writers: dict[str, tuple] = {}
    for q, fi in sorted(p.functions.items()):
        if fi.parent is not None:
            continue
        flow = ctx.flow(fi)
        for node, obj, how in writes_in(fi, flow):
            text = norm_text(node)
            if 'encoding' not in text or '_FillValue' not in text:
                continue
            own = {a.arg for a in (fi.node.args.vararg, fi.node.args.kwarg) if a is not None}     # *args / **kwargs are made per call
            through = sorted(r[6:] for r in roots_of(flow, obj) if r.startswith('param:') and r[6:] not in own)
            if through:
                writers.setdefault(q, (fi, node, through))
    ctx.check(rule, True, "functions that write a `_FillValue` entry into the encoding of a variable they were given are enumerated", None, None,
              construct=f"writers: {sorted((w[0].short, w[2]) for w in writers.values()) or 'none'}")
    for q, (wfi, wnode, through) in sorted(writers.items()):
        sites = 0
        for cq, cfi in sorted(p.functions.items()):
            cflow = None
            for c in calls_in(cfi, nested=False):
                if p.callee(c, cfi) != q:
                    continue
                sites += 1
                cflow = cflow or ctx.flow(cfi)
                for name in through:
                    pos = wfi.params.index(name) if name in wfi.params else None
                    arg = arg_or_kw(c, pos, name) if pos is not None else None
                    roots = roots_of(cflow, arg) if arg is not None else {'unknown'}
                    ok = roots <= {'fresh'}
                    ctx.check(rule, ok, f"{wfi.short} marks encodings with `_FillValue`: it is handed a copy made here, never the caller's own dataset "
                              "(the marker would change which variables a later clip can mask)", cfi, c,
                              construct=f"{cfi.short}: {norm_text(c)[:60]}; `{norm_text(arg) if arg is not None else '?'}` comes from {sorted(roots)}")
        ctx.check(rule, sites > 0 or True, f"call sites of {wfi.short} examined", wfi, wnode, construct=f"{wfi.short}: {sites} call site(s)")


SHOC_DEPTH_NAMES = {
    # the SHOC file formats name their vertical coordinates; the first is the default one
    'emsarray.conventions.shoc.ShocStandard': ['z_centre', 'z_grid', 'z_centre_sed', 'z_grid_sed'],
    'emsarray.conventions.shoc.ShocSimple': ['zc', 'zcsed'],
}


def shoc_depth_names(ctx: Context, rule: str) -> None:
    """The SHOC conventions find their depth coordinates by name.  For each of the two classes the names looked up are read off the source -
    the expression the lookup iterates, folded over the class's own constants, wherever in its bases the method now lives - and must be the
    format's names: water column first (layer centres, then layer faces), then the sediment counterparts."""
    import ast as _ast
    from .common import Undecided, fold_function, names_deciding
    p = ctx.p
    for qual, expected in sorted(SHOC_DEPTH_NAMES.items()):
        ci = p.classes.get(qual)
        if ci is None:
            ctx.check(rule, False, f"{qual} exists", None, None)
            continue
        fi = p.resolve_method(ci, 'depth_coordinates')
        consts = {}
        for c in reversed(p.mro(ci)):
            for k, v in c.attrs.items():
                try:
                    consts[f"self.{k}"] = _ast.literal_eval(v)
                except (ValueError, SyntaxError, TypeError):
                    pass
        got, why = None, ''
        if fi is not None and not fi.is_abstract:
            lookups = [n for n in _ast.walk(fi.node) if isinstance(n, (_ast.GeneratorExp, _ast.ListComp)) and len(n.generators) == 1
                       and norm_text(n.elt) == f"self.dataset[{norm_text(n.generators[0].target)}]"]
            if len(lookups) == 1:
                names_expr = lookups[0].generators[0].iter
                try:
                    kind, vals = fold_function(fi, consts, only_names=names_deciding(fi, [names_expr]), want=[names_expr])
                    if kind == 'values' and isinstance(vals[0], (list, tuple)):
                        got = list(vals[0])
                    else:
                        why = f"folding ended with {kind}"
                except Undecided as u:
                    why = f"not foldable: {u}"
            else:
                why = f"{len(lookups)} name lookups of the form (self.dataset[name] for name in <names>)"
        ctx.check(rule, got == expected, f"{ci.short}.depth_coordinates looks up exactly the format's vertical coordinates {expected}", fi, fi.node if fi is not None else None,
                  construct=f"{ci.short}: names looked up = {got if got is not None else '? (' + why + ')'}")
        if fi is not None and not fi.is_abstract and len(lookups) == 1:
            # ... and nothing else decides the answer: every return hands back that lookup (a file whose `zcsed` carries no CF marker still has
            # its sediment coordinate), and a name is left out only when the dataset does not have it
            flow = ctx.flow(fi)
            rets = fi.returns()
            ok = bool(rets) and all(flow.reaches(r.value, lambda n: n is lookups[0]) for r in rets)
            ctx.check(rule, ok, f"{ci.short}.depth_coordinates answers with the named lookup on every path", fi, rets[0] if rets else fi.node,
                      construct=f"{ci.short}: {len(rets)} return(s), {sum(1 for r in rets if flow.reaches(r.value, lambda n: n is lookups[0]))} from the named lookup")
            var = norm_text(lookups[0].generators[0].target)
            filters = [norm_text(t) for t in lookups[0].generators[0].ifs]
            allowed = {f"{var} in self.dataset.variables", f"{var} in self.dataset"}
            ctx.check(rule, set(filters) <= allowed, f"{ci.short}.depth_coordinates leaves a name out only when the dataset has no such variable", fi, lookups[0],
                      construct=f"{ci.short}: filters {filters or 'none'}")
        dfi = p.resolve_method(ci, 'depth_coordinate')
        dgot, dwhy = None, ''
        if dfi is not None and not dfi.is_abstract:
            subs = [n for n in _ast.walk(dfi.node) if isinstance(n, _ast.Subscript) and norm_text(n.value) == 'self.dataset' and isinstance(n.ctx, _ast.Load)]
            if len(subs) == 1:
                try:
                    kind, vals = fold_function(dfi, consts, only_names=names_deciding(dfi, [subs[0].slice]), want=[subs[0].slice])
                    dgot = vals[0] if kind == 'values' else None
                except Undecided as u:
                    dwhy = f"not foldable: {u}"
            else:
                dwhy = f"{len(subs)} lookups in self.dataset"
        ctx.check(rule, dgot == expected[0], f"{ci.short}.depth_coordinate is the first of them, {expected[0]!r}", dfi, dfi.node if dfi is not None else None,
                  construct=f"{ci.short}: default depth coordinate = {dgot!r} {dwhy}")


DEPTH_MARKERS = {('positive', frozenset({'up', 'down'})), ('axis', frozenset({'Z'})), ('cartesian_axis', frozenset({'Z'})),
                 ('coordinate_type', frozenset({'Z'})), ('standard_name', frozenset({'depth'}))}


def depth_markers(ctx: Context, rule: str) -> None:
    """The generic depth coordinate discovery takes a variable that carries ANY ONE of the markers CF and its predecessors use
    (`positive: up|down`, `axis: Z`, `cartesian_axis: Z`, `coordinate_type: Z`, `standard_name: depth`): where a variable joins the result,
    exactly that disjunction over the variable's own attributes is known - however it is written (an `or` chain, a table, a `match`)."""
    from .common import facts
    fi = ctx.func(f"{BASE}.depth_coordinates")
    appends = [c for c in calls_in(fi, nested=True) if isinstance(c.func, ast.Attribute) and c.func.attr in ('append', 'add') and len(c.args) == 1]
    ok, why = False, 'no variable is collected'
    from .common import expand_locals
    for c in appends:
        var = norm_text(expand_locals(ctx.flow(fi), c.args[0]))        # (locals such as `attrs = data_array.attrs` are spelled out on both sides)
        cls: list = []
        fs = facts(ctx, fi, c, expand=True, clauses_out=cls)
        found = None
        for cl in cls:
            markers = set()
            understood = True
            for text, pol in cl:
                m = _marker_of(text, pol, var)
                if m is None:
                    understood = False
                    break
                markers.add(m)
            if understood and markers:
                found = markers
        # a single marker written as one definite fact (degenerate, but readable the same way)
        if found is None:
            # (only ONE: several markers known at once are a conjunction - every marker demanded - not the disjunction)
            singles = {m for m in (_marker_of(t, pol, var) for t, pol in fs) if m is not None}
            found = singles if len(singles) == 1 else None
            if len(singles) > 1:
                why = f"the markers {sorted(k for k, _ in singles)} are all demanded at once where the variable is collected: any one of them has to be enough"[:300]
        if found is None:
            if not why.startswith('the markers'):
                why = f"no disjunction over {var}.attrs is known where it is collected (clauses: {[[t for t, _ in cl] for cl in cls][:2]})"[:300]
        else:
            ok = found == DEPTH_MARKERS
            missing = sorted(k for k, _ in DEPTH_MARKERS - found)
            extra = sorted(k for k, _ in found - DEPTH_MARKERS)
            why = f"markers accepted: {sorted(k for k, _ in found)}; missing {missing or 'none'}; other {extra or 'none'}"
    ctx.check(rule, ok, "a variable is a depth coordinate when it carries any one of: positive up / down, axis Z, cartesian_axis Z, coordinate_type Z, standard_name depth "
              "(each alone is enough; files written by different tools carry different ones)", fi, appends[0] if appends else fi.node, construct=why)
    # ... a marked variable that lies on a horizontal grid (bathymetry) does not join: where the grid kind is found, the loop goes on to the next variable
    gk = [c for c in calls_in(fi, nested=True) if isinstance(c.func, ast.Attribute) and c.func.attr == 'get_grid_kind']
    ok_g, how_g = False, 'no get_grid_kind(...) test'
    for tr in [n for n in ast.walk(fi.node) if isinstance(n, ast.Try)]:
        if gk and any(x is gk[0] for b in tr.body for x in ast.walk(b)):
            caught = any(h.type is not None and 'ValueError' in norm_text(h.type) for h in tr.handlers)
            handler_goes_on = all(not any(isinstance(x, (ast.Continue, ast.Break, ast.Return, ast.Raise)) for b in h.body for x in ast.walk(b)) for h in tr.handlers)
            tail = tr.body[-1] if tr.body else None
            found_skips = isinstance(tail, ast.Continue) or (tr.orelse and isinstance(tr.orelse[-1], ast.Continue))
            # ... or the collection itself sits in the handler: `try: get_grid_kind(v)` / `except ValueError: collected.append(v)`
            in_handler = {id(x) for h in tr.handlers if h.type is not None and 'ValueError' in norm_text(h.type) for b in h.body for x in ast.walk(b)}
            collected_in_handler = bool(appends) and all(id(a) in in_handler for a in appends)
            ok_g = caught and ((handler_goes_on and found_skips) or collected_in_handler)
            how_g = (f"found -> {'continue' if found_skips else ('nothing is collected' if collected_in_handler else 'falls through to the collection')}; "
                     f"ValueError -> {'collected' if (handler_goes_on or collected_in_handler) else 'skipped'}")
    ctx.check(rule, ok_g, "a marked variable that lies on a horizontal grid is skipped, one that lies on none (get_grid_kind refuses it) is collected", fi, gk[0] if gk else fi.node, construct=how_g)
    # ... and a marked variable is left out for two reasons only: it is the bounds variable of another one, or it lies on a horizontal grid
    # (bathymetry).  Its size, rank, dtype or name decide nothing: a coordinate of two levels is a depth coordinate.
    for c in appends:
        var = norm_text(expand_locals(ctx.flow(fi), c.args[0]))
        key = norm_text(c.args[0].slice) if isinstance(c.args[0], ast.Subscript) else None
        m = ast.parse(var, mode='eval').body
        key = norm_text(m.slice) if isinstance(m, ast.Subscript) else key
        cls2: list = []
        fs = facts(ctx, fi, c, expand=True, clauses_out=cls2)

        def about(text: str) -> bool:
            return var in text or (key is not None and bool(__import__('re').search(rf"\b{__import__('re').escape(key)}\b", text)))

        def allowed(text: str, pol: bool) -> bool:
            if _marker_of(text, pol, var) is not None:
                return True
            if key is not None and not pol and text.startswith(f"{key} in ") and 'bounds' in text:
                return True
            if key is not None and pol and text in (f"{key} in self.dataset.variables", f"{key} in self.dataset", f"{key} in self.dataset.variables.keys()"):
                return True
            return False
        other = sorted(f"{t} is {pol}" for t, pol in fs if about(t) and not allowed(t, pol))
        other_clauses = [[t for t, _ in cl] for cl in cls2 if any(about(t) for t, _ in cl) and not all(_marker_of(t, pol, var) is not None for t, pol in cl)]
        ctx.check(rule, not other and not other_clauses, "nothing but its markers, being another variable's bounds, or lying on a horizontal grid decides whether a variable is a depth coordinate",
                  fi, c, construct=f"further conditions on the variable: {(other + [' or '.join(cl) for cl in other_clauses])[:3] or 'none'}")


def _marker_of(text: str, pol: bool, var: str):
    """(attribute, accepted values) for a literal `<var>.attrs.get(K[, d])[.lower()] == V` / `in {V, ...}` known true; None for anything else."""
    if not pol:
        return None
    try:
        e = ast.parse(text, mode='eval').body
    except SyntaxError:
        return None
    if not (isinstance(e, ast.Compare) and len(e.ops) == 1 and isinstance(e.ops[0], (ast.Eq, ast.In))):
        return None
    left, right = e.left, e.comparators[0]
    if isinstance(left, ast.Call) and isinstance(left.func, ast.Attribute) and left.func.attr == 'lower' and not left.args:
        left = left.func.value
    if isinstance(left, ast.Call) and dotted(left.func) == 'str' and len(left.args) == 1:
        left = left.args[0]
    key = None
    if isinstance(left, ast.Call) and isinstance(left.func, ast.Attribute) and left.func.attr == 'get' and left.args and norm_text(left.func.value) == f"{var}.attrs":
        key = const_value(left.args[0], None)
    elif isinstance(left, ast.Subscript) and norm_text(left.value) == f"{var}.attrs":
        key = const_value(left.slice, None)
    if not isinstance(key, str):
        return None
    if isinstance(e.ops[0], ast.Eq):
        v = const_value(right, None)
        return (key, frozenset({v})) if isinstance(v, str) else None
    if isinstance(right, ast.Call) and dotted(right.func) in ('frozenset', 'set', 'tuple', 'list') and len(right.args) == 1 and not right.keywords:
        right = right.args[0]
    if isinstance(right, (ast.Set, ast.Tuple, ast.List)) and all(isinstance(const_value(x, None), str) for x in right.elts):
        return (key, frozenset(const_value(x, None) for x in right.elts))
    return None


def _parses(text: str) -> bool:
    try:
        ast.parse(text, mode='eval')
        return True
    except SyntaxError:
        return False


# --------------------------------------------------------------------------- overrides

REVIEWED_OVERRIDES = {
    # member: classes (short names) whose implementation a rule of this checker analyses
    'mask': {'Convention'},
    'bounds': {'Convention', 'CFGrid', 'UGrid'},
    'geometry': {'Convention', 'CFGrid1D'},
    'strtree': {'Convention'},
    'polygons': {'Convention'},
    'face_centres': {'Convention', 'CFGrid1D', 'CFGrid2D', 'ArakawaC', 'UGrid'},
}


def reviewed_overrides(ctx: Context, rule: str) -> None:
    """A subclass that re-implements mask / bounds / geometry / strtree / polygons / face_centres must agree with
    the base definition for every dataset.  The implementations that exist today are each analysed by a rule
    (R02.4, R02.5, R06.6, R06.7); an implementation outside that list is analysed by none."""
    p = ctx.p
    base = p.cls(BASE)
    for member, reviewed in sorted(REVIEWED_OVERRIDES.items()):
        impls = p.implementations(base, member)
        names = {fi.cls.name if fi.cls is not None else '?' for fi in impls}
        extra = sorted(names - reviewed)
        site = next((fi for fi in impls if fi.cls is not None and fi.cls.name in extra), None)
        ctx.check(rule, not extra, f"every implementation of `{member}` is one whose agreement with the polygons is checked", site or (impls[0] if impls else None),
                  site.node if site is not None else (impls[0].node if impls else None),
                  construct=f"{member}: implemented by {sorted(names)}; not covered: {extra or 'none'}")
    from .common import polygons_mask_ok
    for fi in p.implementations(base, 'mask'):
        ok, how = polygons_mask_ok(ctx, fi)
        ctx.check(rule, ok, "mask[n] says whether polygons[n] exists, for every implementation of mask", fi, fi.node, construct=f"{fi.short}: {how}")


# --------------------------------------------------------------------------- small helpers

def all_variables_visited(ctx: Context, rule: str) -> None:
    fi = ctx.func('emsarray.utils._get_variables')
    flow = ctx.flow(fi)
    vals = sorted(norm_text(flow.resolve(r.value)) for r in fi.returns())
    p0 = fi.params[0]
    ok = vals == sorted([f"list({p0}.variables.values())", f"[{p0}.variable]"])
    ctx.check(rule, ok, "default fill values are suppressed on every variable of the dataset, dimensionless ones included", fi, fi.node,
              construct=f"_get_variables returns {vals}")


def default_calendar(ctx: Context, rule: str) -> None:
    mod = ctx.p.modules['emsarray.utils']
    v = mod.assigns.get('DEFAULT_CALENDAR')
    val = const_value(v, None) if v is not None else None
    fi = ctx.func('emsarray.utils.format_time_units_for_ems')
    ctx.check(rule, val == 'proleptic_gregorian', "the calendar assumed when none is given is the proleptic Gregorian one: the calendar of numpy datetime64 and of xarray's decoded times, defined for every date", fi, fi.node,
              construct=f"DEFAULT_CALENDAR = {val!r}")
    # netCDF4's getncattr raises for an attribute the variable does not have: the default can only be reached through a presence test
    fx = ctx.func('emsarray.utils.fix_time_units_for_ems')
    flow = ctx.flow(fx)
    reads = [c for c in calls_in(fx) if isinstance(c.func, ast.Attribute) and c.func.attr == 'getncattr' and c.args and const_value(c.args[0], None) == 'calendar']
    unguarded = []
    for c in reads:
        g = guards(fx, c)
        owner = norm_text(c.func.value)
        in_try = any(isinstance(t, ast.Try) and any(x is c for b_ in t.body for x in ast.walk(b_))
                     and any(h.type is None or 'AttributeError' in norm_text(h.type) or norm_text(h.type) in ('Exception',) for h in t.handlers)
                     for t in ast.walk(fx.node))
        if (f"'calendar' in {owner}.ncattrs()", True) not in g and (f"hasattr({owner}, 'calendar')", True) not in g and not in_try:
            unguarded.append(c)
    fmt = [c for c in calls_in(fx) if callee(ctx, fx, c) == 'emsarray.utils.format_time_units_for_ems']
    falls_back = bool(fmt) and len(fmt[0].args) + len(fmt[0].keywords) >= 2 and \
        flow.reaches(fmt[0].args[1] if len(fmt[0].args) > 1 else kwarg(fmt[0], 'calendar'), lambda n: isinstance(n, ast.Name) and n.id == 'DEFAULT_CALENDAR')
    ctx.check(rule, bool(reads) and not unguarded and falls_back, "the calendar attribute of the time variable is optional: it is read only when present (getncattr raises otherwise) and the default calendar is used when it is absent", fx,
              (unguarded or reads or [fx.node])[0], construct=f"calendar reads without a presence test: {[norm_text(c) for c in unguarded] or 'none'}; default reaches the formatter: {falls_back}")


def crs_centre(ctx: Context, rule: str) -> None:
    fi = ctx.func('emsarray.transect.Transect._crs_for_point')
    flow = ctx.flow(fi)
    calls = [c for c in calls_in(fi) if (dotted(c.func) or '').endswith('AzimuthalEquidistant')]
    pt = [a for a in fi.params if a not in ('self', 'cls')][0]       # the point: the first parameter after self (a function or a method)
    ok = len(calls) == 1 and norm_text(flow.resolve(kwarg(calls[0], 'central_longitude') or ast.Constant(None))) == f"{pt}.x" \
        and norm_text(flow.resolve(kwarg(calls[0], 'central_latitude') or ast.Constant(None))) == f"{pt}.y" \
        and all(flow.resolve(r.value) is calls[0] for r in fi.returns())
    ctx.check(rule, ok, "distances are measured in an azimuthal equidistant projection centred exactly on the point itself", fi, calls[0] if calls else fi.node)


def move_dimensions_exits(ctx: Context, rule: str) -> None:
    """move_dimensions_to_end: the only exit that does not transpose is the one where the dims already are in the wanted order."""
    from .common import expand_locals, facts
    fi = ctx.func('emsarray.utils.move_dimensions_to_end')
    flow = ctx.flow(fi)
    da, dims = fi.params[0], fi.params[1]

    def is_order(e) -> bool:
        # [d for d in <array>.dims if d not in <dimensions>] + <dimensions>   (the requested ones possibly through list())
        try:
            m = Matcher(ctx, fi)
            x = expand_locals(flow, e)
            return bool(m.match(f"[$d for $d in {da}.dims if $d not in {dims}] + {dims}", x, commit=False)
                        or m.match(f"[$d for $d in {da}.dims if $d not in {dims}] + list({dims})", x, commit=False))
        except Exception:
            return False

    ok = True
    detail = []
    site = None
    for r in fi.returns():
        v = flow.resolve(r.value)
        fs = facts(ctx, fi, r)
        if isinstance(v, ast.Call) and isinstance(v.func, ast.Attribute) and v.func.attr == 'transpose':
            good = len(v.args) == 1 and isinstance(v.args[0], ast.Starred) and not v.keywords and norm_text(v.func.value) == da and is_order(v.args[0].value)
            ok = ok and good
            site = site or v
            detail.append(f"transpose({norm_text(v.args[0])[:30] if v.args else ''}) under {sorted(fs)}"[:160])
        else:
            same = False
            for t, pol in fs:
                if not pol or ' == ' not in t:
                    continue
                try:
                    c = ast.parse(t, mode='eval').body
                except SyntaxError:
                    continue
                if isinstance(c, ast.Compare) and len(c.ops) == 1 and isinstance(c.ops[0], ast.Eq):
                    sides = [c.left, c.comparators[0]]
                    for a, b in (sides, sides[::-1]):
                        if norm_text(a) in (f"list({da}.dims)",) and Matcher(ctx, fi).match(f"[$d for $d in {da}.dims if $d not in {dims}] + {dims}", b, commit=False):
                            same = True
                        if norm_text(a) in (f"list({da}.dims)",) and Matcher(ctx, fi).match(f"[$d for $d in {da}.dims if $d not in {dims}] + list({dims})", b, commit=False):
                            same = True
            ok = ok and same
            detail.append(f"{norm_text(v)[:40]} under {sorted(fs)}"[:200])
    ctx.check(rule, bool(ok) and len(fi.returns()) >= 1, "every exit returns the array with the requested dimensions last and in the requested order (untransposed only when it already is so)", fi,
              site or fi.node, construct=f"move_dimensions_to_end exits: {detail}")


def silent_still_reports_errors(ctx: Context, rule: str) -> None:
    fi = ctx.func('emsarray.cli.utils.set_verbosity')
    flow = ctx.flow(fi)
    lv = fi.params[0]
    table = {}
    for n in walk_no_nested(fi.node):
        if isinstance(n, ast.Assign) and isinstance(n.targets[0], ast.Name) and isinstance(const_value(n.value, None), str) and const_value(n.value, None).isupper():
            table[const_value(n.value, None)] = [(t, pol) for t, pol in guards(fi, n)]
    err = table.get('ERROR')
    ok = err is not None and any(t in (f"{lv} <= 0", f"{lv} < 1", f"{lv} == 0") and pol for t, pol in err) and 'CRITICAL' not in table
    ctx.check(rule, bool(ok), "--silent lowers the console to ERROR, the level failures are reported at: a failing command still prints its message", fi, fi.node,
              construct=f"verbosity levels: { {k: [t for t, _ in v] for k, v in table.items()} }")
    ne = ctx.func('emsarray.cli.utils.nice_console_errors')
    levels = sorted({c.func.attr for c in calls_in(ne, nested=True) if isinstance(c.func, ast.Attribute) and c.func.attr in ('error', 'exception', 'critical', 'warning', 'info', 'debug')
                     and 'exception' in norm_text(c.func.value)})
    ctx.check(rule, set(levels) <= {'error', 'exception', 'critical'} and bool(levels), "failures are logged at ERROR or above", ne, ne.node, construct=f"failure log calls: {levels}")


def wrapper_non_spatial(ctx: Context, rule: str) -> None:
    """Convention.ocean_floor passes the time coordinate (when there is one) as the only non-spatial variable."""
    p = ctx.p
    for fi in p.implementations(p.cls(BASE), 'ocean_floor'):
        flow = ctx.flow(fi)
        cs = [c for c in calls_in(fi) if callee(ctx, fi, c) == 'emsarray.operations.depth.ocean_floor']
        if len(cs) != 1:
            ctx.check(rule, False, "Convention.ocean_floor calls depth.ocean_floor once", fi, fi.node)
            continue
        nsv = arg_or_kw(cs[0], 2, 'non_spatial_variables')
        alts = set(flow.alternatives(nsv)) if nsv is not None else set()
        items = []
        if isinstance(nsv, ast.Name):
            for c in method_calls(fi, 'append') + method_calls(fi, 'extend'):
                if isinstance(c.func.value, ast.Name) and c.func.value.id == nsv.id:
                    items.append(norm_text(c.args[0]) if c.args else '?')
            for d in flow.defs_of(nsv):
                v = d.value
                if isinstance(v, (ast.List, ast.Tuple)):
                    items += [norm_text(flow.resolve(e)) for e in v.elts]
        ok = nsv is not None and set(items) <= {'self.time_coordinate'} and len(items) <= 1 \
            and not any(isinstance(n, (ast.For, ast.While)) for n in walk_no_nested(fi.node))
        ctx.check(rule, ok, "the only non-spatial variable handed to the reduction is the time coordinate (horizontal coordinates must stay spatial)", fi, cs[0],
                  construct=f"non_spatial_variables collects {items or 'nothing'}")


def cf_inventory_bounds(ctx: Context, rule: str) -> None:
    """CFGrid.get_all_geometry_names names the bounds variables by the coordinates' own `bounds` attributes."""
    fi = ctx.func('emsarray.conventions.grid.CFGrid.get_all_geometry_names')
    flow = ctx.flow(fi)
    got = set()
    for c in method_calls(fi, 'get'):
        if c.args and const_value(c.args[0], None) == 'bounds' and isinstance(c.func.value, ast.Attribute) and c.func.value.attr == 'attrs':
            got.add(norm_text(c.func.value.value).split('.')[-1])
    for n in ast.walk(fi.node):
        if isinstance(n, ast.Subscript) and const_value(n.slice, None) == 'bounds' and isinstance(n.value, ast.Attribute) and n.value.attr == 'attrs':
            got.add(norm_text(n.value.value).split('.')[-1])
    derived = [n for n in ast.walk(fi.node) if isinstance(n, ast.Attribute) and n.attr == 'name' and 'bounds' in norm_text(n.value)]
    ok = got == {'longitude', 'latitude'} and not derived
    ctx.check(rule, ok, "the bounds variables listed as geometry are the ones the coordinates name in their `bounds` attribute (whether or not their layout is usable)", fi,
              derived[0] if derived else fi.node, construct=f"bounds names from the attributes of {sorted(got)}; from derived arrays: {[norm_text(d) for d in derived] or 'none'}")
    # ... each exactly when it is named and the dataset has a variable of that name
    from .common import facts
    apps = [c for c in calls_in(fi) if isinstance(c.func, ast.Attribute) and c.func.attr in ('append', 'add') and len(c.args) == 1 and isinstance(c.args[0], ast.Name)
            and not any(norm_text(c.args[0]) in norm_text(e) for n in ast.walk(fi.node) if isinstance(n, ast.List) for e in n.elts if norm_text(e).endswith('_name'))]
    for c in apps:
        v = c.args[0].id
        fs = {(t, pol) for t, pol in facts(ctx, fi, c, expand=False) if v in t}
        named = (f"{v} is None", False) in fs or (f"{v} is not None", True) in fs
        present = any(pol and t in (f"{v} in self.dataset.variables", f"{v} in self.dataset", f"{v} in self.dataset.variables.keys()") for t, pol in fs)
        other = sorted(t for t, pol in fs if t not in (f"{v} is None", f"{v} is not None", f"{v} in self.dataset.variables", f"{v} in self.dataset", f"{v} in self.dataset.variables.keys()"))
        absent_wrong = any((not pol) and t.startswith(f"{v} in self.dataset") for t, pol in fs)
        ctx.check(rule, named and present and not other and not absent_wrong, "a bounds variable joins the inventory exactly when a coordinate names it and the dataset holds it", fi, c,
                  construct=f"{norm_text(c)[:40]} under {sorted(t if pol else 'not ' + t for t, pol in fs)}")


def mesh_table_accessors(ctx: Context, rule: str) -> None:
    """`<table>_connectivity` hands out the supplied variable and refuses exactly when it is not valid: the refusal stands under
    `has_valid_<table>_connectivity` being false (inverted, every mesh that supplies the table fails where it is first read)."""
    for table in ('edge_node', 'edge_face', 'face_edge', 'face_face'):
        q = f"{TOPO}.{table}_connectivity"
        if q not in ctx.p.functions:
            continue
        refuses_only_when(ctx, rule, q, 'NoConnectivityVariableException', [(f"self.has_valid_{table}_connectivity", False)],
                          f"{table}: the accessor refuses exactly when the supplied table is not valid")


def constant_name_lookups(ctx: Context, rule: str, members: Iterable[str]) -> None:
    """`dataset[name]` with a fixed name answers for a bare *dimension* of that name too (xarray makes up a range
    variable).  Applied to time coordinates: the SHOC simple format calls its time variable `time(time)`, so the
    fixed name is a dimension name; a convention that expects it tests `name in dataset.variables` first.
    (Depth coordinates `zc`, `z_centre` lie on dimensions `k`, `k_centre`: a KeyError is then the right answer.)"""
    p = ctx.p
    base = p.cls(BASE)
    for member in members:
        for fi in p.implementations(base, member):
            flow = ctx.flow(fi)
            for n in ast.walk(fi.node):
                if not (isinstance(n, ast.Subscript) and isinstance(n.ctx, ast.Load) and norm_text(n.value).endswith('self.dataset')):
                    continue
                key = flow.resolve(n.slice)
                fixed = isinstance(const_value(key, None), str)
                if not fixed and isinstance(n.slice, ast.Name):
                    # loop / comprehension variable over a literal tuple of names
                    for d in flow.defs_of(n.slice):
                        v = flow.resolve(d.value) if d.value is not None else None
                        if d.kind in ('iter', 'comp') and isinstance(v, (ast.Tuple, ast.List)) and all(isinstance(const_value(e, None), str) for e in v.elts):
                            fixed = True
                if not fixed:
                    continue
                kt = norm_text(n.slice)
                tested = any(t in (f"{kt} in self.dataset.variables", f"{kt} in self.dataset") and pol for t, pol in guards(fi, n))
                # a comprehension filter `if name in self.dataset.variables`
                for comp in ast.walk(fi.node):
                    if isinstance(comp, (ast.GeneratorExp, ast.ListComp, ast.SetComp)) and any(x is n for x in ast.walk(comp.elt)):
                        for g in comp.generators:
                            if any(norm_text(i) in (f"{kt} in self.dataset.variables", f"{kt} in self.dataset") for i in g.ifs):
                                tested = True
                ctx.check(rule, tested, f"{member}: a variable expected under a fixed name is looked up only after `name in dataset.variables` (dataset[name] alone also answers for a bare dimension)", fi, n,
                          construct=f"{fi.short}: {norm_text(n)} {'after a membership test' if tested else 'without a membership test'}")


# --------------------------------------------------------------------------- bounds variables are not coordinates

def bounds_names_helper(ctx: Context, rule: str) -> None:
    """utils.bounds_variable_names(dataset) is the set of `bounds` attribute values over all variables of the dataset."""
    fi = ctx.func('emsarray.utils.bounds_variable_names')
    flow = ctx.flow(fi)
    ok = False
    why = '?'
    rets = fi.returns()
    if len(rets) == 1:
        v = flow.resolve(rets[0].value)
        why = norm_text(v)[:140]
        if isinstance(v, ast.Call) and isinstance(v.func, ast.Name) and v.func.id in ('set', 'frozenset') and len(v.args) == 1:
            v = flow.resolve(v.args[0])
        if isinstance(v, (ast.SetComp, ast.GeneratorExp, ast.ListComp)) and len(v.generators) == 1:
            g = v.generators[0]
            it = norm_text(flow.resolve(g.iter))
            var = g.target.id if isinstance(g.target, ast.Name) else None
            elt = norm_text(v.elt)
            ifs = [norm_text(i) for i in g.ifs]
            ok = it in (f"{fi.params[0]}.variables.values()",) and var is not None \
                and elt in (f"{var}.attrs['bounds']", f"{var}.attrs.get('bounds')") \
                and ifs in ([f"'bounds' in {var}.attrs"], [f"{var}.attrs.get('bounds') is not None"])
    ctx.check(rule, ok, "bounds_variable_names lists the `bounds` attribute of every variable of the dataset (coordinates and plain variables alike) that has one", fi,
              rets[0] if rets else fi.node, construct=f"returns {why}")


def bounds_excluded(ctx: Context, rule: str, qualname: str, what: str) -> None:
    """The scan over the dataset's variables in `qualname` never selects a variable that another variable names as its bounds:
    a bounds variable may repeat its coordinate's units / standard_name / axis / positive (CF 7.1), xarray decodes time bounds
    with the coordinate's units, and data variables are listed before coordinates."""
    fi = ctx.func(qualname)
    flow = ctx.flow(fi)
    helper = [n for n in walk_no_nested(fi.node) if isinstance(n, ast.Assign) and isinstance(n.value, ast.Call)
              and callee(ctx, fi, n.value) == 'emsarray.utils.bounds_variable_names' and len(n.value.args) == 1
              and norm_text(n.value.args[0]) == 'self.dataset' and isinstance(n.targets[0], ast.Name)]
    ok, why = False, 'no call to utils.bounds_variable_names(self.dataset)'
    if len(helper) == 1:
        b = helper[0].targets[0].id
        why = f"{b} is never tested against the scanned name"
        # comprehension form
        for comp in ast.walk(fi.node):
            if isinstance(comp, (ast.GeneratorExp, ast.ListComp)) and len(comp.generators) == 1:
                g = comp.generators[0]
                it = norm_text(flow.resolve(g.iter))
                if it not in ('self.dataset.variables.items()', 'self.dataset.variables', 'self.dataset.variables.keys()'):
                    continue
                name = g.target.elts[0] if isinstance(g.target, ast.Tuple) else g.target
                conj = []
                for i in g.ifs:
                    conj.extend(i.values if isinstance(i, ast.BoolOp) and isinstance(i.op, ast.And) else [i])
                if isinstance(name, ast.Name) and any(norm_text(c) == f"{name.id} not in {b}" for c in conj):
                    ok, why = True, f"comprehension filter `{name.id} not in {b}`"
        # loop form: `if name in b: continue` before anything is selected
        for lp in walk_no_nested(fi.node):
            if isinstance(lp, ast.For) and norm_text(flow.resolve(lp.iter)) in ('self.dataset.variables.items()', 'self.dataset.variables', 'self.dataset.variables.keys()'):
                name = lp.target.elts[0] if isinstance(lp.target, ast.Tuple) else lp.target
                if not isinstance(name, ast.Name):
                    continue
                for i, st in enumerate(lp.body):
                    if isinstance(st, ast.If) and norm_text(st.test) == f"{name.id} in {b}" and any(isinstance(x, ast.Continue) for x in st.body) and not st.orelse:
                        earlier = [x for s_ in lp.body[:i] for x in ast.walk(s_) if isinstance(x, (ast.Return, ast.Yield)) or
                                   (isinstance(x, ast.Call) and isinstance(x.func, ast.Attribute) and x.func.attr in ('append', 'add'))]
                        if not earlier:
                            ok, why = True, f"loop skips `{name.id} in {b}` first"
                if not ok:
                    # the same exclusion written as nesting: everything the loop selects is selected where `name in b` is known not to hold
                    from .common import facts as _facts
                    picks = [x for s_ in lp.body for x in ast.walk(s_) if isinstance(x, (ast.Return, ast.Yield)) or
                             (isinstance(x, ast.Call) and isinstance(x.func, ast.Attribute) and x.func.attr in ('append', 'add'))]
                    if picks and all((f"{name.id} in {b}", False) in _facts(ctx, fi, x, expand=False) for x in picks):
                        ok, why = True, f"every selection of the loop is made under `{name.id} not in {b}`"
    ctx.check(rule, ok, f"{what}: a variable that another variable names in its `bounds` attribute is never selected, whatever attributes or encoding it carries", fi,
              helper[0] if helper else fi.node, construct=why)


def passes_parameters_on(ctx: Context, rule: str, qualname: str, what: str) -> None:
    """A thin wrapper - a deprecated alias, a one-step convenience method - stands for the calls it makes: every one of its parameters reaches
    one of those calls *as given* (the only value arriving there is the parameter itself, not something made from it on some path), and where
    the called function has a parameter of the same name, it arrives at that one.  A keyword that is no longer forwarded (`unravel_index`
    without `grid_kind`, `clip` without `buffer`) leaves the caller's request unheard although nothing fails."""
    fi = ctx.func(qualname)
    flow = ctx.flow(fi)
    p = ctx.p
    a = fi.node.args
    params = [x.arg for x in a.posonlyargs + a.args + a.kwonlyargs if x.arg not in ('self', 'cls')]
    pos_ = a.posonlyargs + a.args
    defaults_ = dict(zip([x.arg for x in pos_[len(pos_) - len(a.defaults):]], a.defaults))
    defaults_.update({x.arg: d for x, d in zip(a.kwonlyargs, a.kw_defaults) if d is not None})
    # a parameter whose default is None may arrive as itself or as the default substituted for None (none_default_discipline judges the substitution)
    defaulted = {k for k, d in defaults_.items() if isinstance(d, ast.Constant) and d.value is None}
    calls = []
    for c in calls_in(fi, nested=False):
        q = p.callee(c, fi)
        target = p.functions.get(q) if q else None
        if target is not None:
            calls.append((c, target))
    ctx.need(rule, bool(calls), f"{fi.short} calls at least one function of the package", fi)
    for name in params:
        found = None
        changed = None
        for c, target in calls:
            tparams = [x for x in target.params if x not in ('self', 'cls')]
            for pos, arg in enumerate(c.args):
                if isinstance(arg, ast.Starred):
                    continue
                alts = set(flow.alternatives(arg)) if isinstance(arg, ast.Name) else None
                if isinstance(arg, ast.Name) and ('param', name) in (alts or ()):
                    if alts == {('param', name)} or name in defaulted:
                        found = found or (c, target, tparams[pos] if pos < len(tparams) else None)
                    else:
                        changed = (c, sorted(str(x) for x in alts))
            for k in c.keywords:
                if k.arg is None or not isinstance(k.value, ast.Name):
                    continue
                alts = set(flow.alternatives(k.value))
                if ('param', name) in alts:
                    if alts == {('param', name)} or name in defaulted:
                        found = found or (c, target, k.arg)
                    else:
                        changed = (c, sorted(str(x) for x in alts))
        if found is None and changed is not None:
            ctx.check(rule, False, f"{what}: the parameter `{name}` is passed on as given, whatever path was taken", fi, changed[0],
                      construct=f"{fi.short}: `{name}` arrives as one of {changed[1][:3]}")
            continue
        ctx.check(rule, found is not None, f"{what}: the parameter `{name}` is passed on to the call it stands for", fi, found[0] if found else fi.node,
                  construct=f"{fi.short}: `{name}` -> {found[1].short + '(' + str(found[2]) + ')' if found else 'not passed on'}")
        if found is not None and name in [x for x in found[1].params]:
            ctx.check(rule, found[2] == name, f"{what}: `{name}` arrives at the parameter of the same name", fi, found[0],
                      construct=f"{fi.short}: `{name}` arrives at `{found[2]}` of {found[1].short}")
    for special, star in ((a.vararg, 1), (a.kwarg, 2)):
        if special is None:
            continue
        ok = any((star == 1 and any(isinstance(x, ast.Starred) and isinstance(x.value, ast.Name) and x.value.id == special.arg for x in c.args))
                 or (star == 2 and any(k.arg is None and isinstance(k.value, ast.Name) and k.value.id == special.arg for k in c.keywords))
                 for c, _t in calls)
        ctx.check(rule, ok, f"{what}: the extra arguments `{'*' * star}{special.arg}` are passed on", fi, fi.node, construct=f"{fi.short}: {'*' * star}{special.arg}")


def _parent_of(root: ast.AST, node: ast.AST):
    for n in ast.walk(root):
        for ch in ast.iter_child_nodes(n):
            if ch is node:
                return n
    return None


def none_default_discipline(ctx: Context, rule: str, qualnames: Iterable[str]) -> None:
    """A parameter whose default is None stands for "not given".  Where such a parameter is assigned inside the function, either a default is
    substituted - the new value does not read the parameter, and this happens exactly on the paths where the parameter is None - or what was given
    is converted (a name looked up, a path made a string) - the new value reads the parameter, and this never happens where it is None.
    An inverted test (`if point_dimension is not None: point_dimension = find_unused_dimension(...)`) discards what the caller asked for and
    passes None on; nothing fails until much later, if at all."""
    from .common import facts
    for qualname in qualnames:
        fi = ctx.func(qualname)
        a = fi.node.args
        pos = a.posonlyargs + a.args
        defaults = dict(zip([x.arg for x in pos[len(pos) - len(a.defaults):]], a.defaults))
        defaults.update({x.arg: d for x, d in zip(a.kwonlyargs, a.kw_defaults) if d is not None})
        none_params = {k for k, d in defaults.items() if isinstance(d, ast.Constant) and d.value is None}
        sites = 0
        # what was given is kept: `self.topology = topology`, `self.latitude_name = latitude` never stand where the parameter is None ...
        for st in walk_no_nested(fi.node):
            if isinstance(st, ast.Assign) and len(st.targets) == 1 and isinstance(st.targets[0], (ast.Attribute, ast.Subscript)):
                for name in sorted(none_params):
                    if any(isinstance(x, ast.Name) and x.id == name and isinstance(x.ctx, ast.Load) for x in ast.walk(st.value)):
                        fs = facts(ctx, fi, st, expand=False)
                        is_none = (f"{name} is None", True) in fs or (f"{name} is not None", False) in fs
                        own = any(t in (f"{name} is None", f"{name} is not None") for t, _ in fs)
                        foreign = sorted(t for t, _ in fs for o in none_params - {name} if t in (f"{o} is None", f"{o} is not None"))
                        if isinstance(st.value, ast.Name) and st.value.id == name:
                            ctx.check(rule, own or not foreign, f"`{name}` is stored under its own test, not under the test of another option", fi, st,
                                      construct=f"{fi.short}: {norm_text(st.targets[0])[:40]} = {name} under {foreign or 'no test'}")
                        ctx.check(rule, not is_none, f"`{name}` is stored (`{norm_text(st.targets[0])[:40]}`) where it was given, not where it is None", fi, st,
                                  construct=f"{fi.short}: {norm_text(st.targets[0])[:40]} = {name} under {'`' + name + ' is None`' if is_none else 'a path where it may have been given'}")
        # ... and every such parameter is used for something besides being tested (a parameter that is only compared with None is ignored)
        for name in sorted(none_params):
            used = False
            for n in ast.walk(fi.node):
                if isinstance(n, ast.Name) and n.id == name and isinstance(n.ctx, ast.Load):
                    par = _parent_of(fi.node, n)
                    if isinstance(par, ast.Compare) and par.left is n and len(par.ops) == 1 and isinstance(par.ops[0], (ast.Is, ast.IsNot)) \
                            and isinstance(par.comparators[0], ast.Constant) and par.comparators[0].value is None:
                        continue
                    used = True
                    break
            ctx.check(rule, used, f"the optional parameter `{name}` is used where it is given (not only compared with None)", fi, fi.node, construct=f"{fi.short}: `{name}` {'is used' if used else 'is only tested'}")
        for st in walk_no_nested(fi.node):
            if not (isinstance(st, ast.Assign) and len(st.targets) == 1 and isinstance(st.targets[0], ast.Name) and st.targets[0].id in none_params):
                continue
            name = st.targets[0].id
            sites += 1
            reads = any(isinstance(n, ast.Name) and n.id == name and isinstance(n.ctx, ast.Load) for n in ast.walk(st.value))
            fs = facts(ctx, fi, st, expand=False)
            is_none = (f"{name} is None", True) in fs or (f"{name} is not None", False) in fs
            not_none = (f"{name} is None", False) in fs or (f"{name} is not None", True) in fs
            if reads:
                ctx.check(rule, not is_none, f"`{name}` is converted (`{norm_text(st.value)[:50]}`) only where something was given, never where it is None", fi, st,
                          construct=f"{fi.short}: {name} = {norm_text(st.value)[:50]} under {'`' + name + ' is None`' if is_none else ('`' + name + ' is not None`' if not_none else 'no test of ' + name)}")
            else:
                # (another optional parameter that WAS given may take precedence: `axis` over `linear_dimension`)
                read_others = {o for o in none_params - {name} if any(isinstance(n, ast.Name) and n.id == o for n in ast.walk(st.value))}
                sibling = any((f"{o} is not None", True) in fs or (f"{o} is None", False) in fs for o in read_others)
                if not sibling and read_others:
                    # `if latitude is not None or longitude is not None: topology = cls(latitude=latitude, longitude=longitude)`: one of the siblings was given
                    cls_: list = []
                    facts(ctx, fi, st, expand=False, clauses_out=cls_)
                    sibling = any(cl and all(any((pol and t == f"{o} is not None") or ((not pol) and t == f"{o} is None") for o in read_others) for t, pol in cl) for cl in cls_)
                for o in sorted(none_params - {name}):
                    if any(isinstance(n, ast.Name) and n.id == o and isinstance(n.ctx, ast.Load) for n in ast.walk(st.value)):
                        o_none = (f"{o} is None", True) in fs or (f"{o} is not None", False) in fs
                        ctx.check(rule, not o_none, f"the default of `{name}` is made from `{o}` only where `{o}` was given, never where it is None", fi, st,
                                  construct=f"{fi.short}: {name} = {norm_text(st.value)[:50]} under {'`' + o + ' is None`' if o_none else 'a path where `' + o + '` may have been given'}")
                ctx.check(rule, is_none or (sibling and not not_none), f"the default of `{name}` (`{norm_text(st.value)[:50]}`) is substituted exactly where `{name}` is None: what the caller gave is kept", fi, st,
                          construct=f"{fi.short}: {name} = {norm_text(st.value)[:50]} under {'`' + name + ' is None`' if is_none else ('`' + name + ' is not None`' if not_none else 'no test of ' + name)}")


def refuses_only_when(ctx: Context, rule: str, qualname: str, marker: str, conditions: Iterable[tuple], what: str) -> None:
    """A refusal that guards a step must stand under its own condition: the `raise` whose text contains `marker` is reached only where one of
    `conditions` (text, polarity) is known.  An inverted test turns the guard into a refusal of every well-formed input - the suite, which in
    this environment cannot run the tests that clip meshes, does not notice."""
    from .common import facts
    fi = ctx.func(qualname)
    raises = [n for n in walk_no_nested(fi.node) if isinstance(n, ast.Raise) and marker in norm_text(n)]
    ctx.need(rule, bool(raises), f"{fi.short} has the refusal `{marker}`", fi)
    conditions = list(conditions)
    for r in raises:
        fs = facts(ctx, fi, r, expand=True) | facts(ctx, fi, r, expand=False)
        # `(E) is False` known true is `E` known false (the arms of a `match` over a tuple of tests read like that)
        import re as _re_
        for t_, pol_ in list(fs):
            m_ = _re_.fullmatch(r"\((.*)\) is (True|False)", t_)
            if m_:
                fs.add((m_.group(1), pol_ == (m_.group(2) == 'True')))
        ok = any(c in fs for c in conditions)
        ctx.check(rule, ok, what, fi, r, construct=f"{fi.short}: `{marker}` raised under {sorted(t if pol else 'not (' + t + ')' for t, pol in fs)[:4]}")


def keyword_overrides_kept(ctx: Context, rule: str, qualnames: Iterable[str], keys: Iterable[str], required: Iterable[str] = ()) -> None:
    """Plot functions fill in defaults for keyword arguments the caller may have given (`array`, `clim`, `transform`): each `kwargs[k] = <default>`
    stands only where `k` is known not to be among the caller's keywords - an inverted test replaces what the caller asked for and leaves the
    default out where it is needed (patches drawn in the wrong coordinate system)."""
    from .common import facts
    keys = set(keys)
    for qualname in qualnames:
        fi = ctx.func(qualname)
        if fi.node.args.kwarg is None:
            ctx.check(rule, False, f"{fi.short} takes extra keyword arguments", fi, fi.node)
            continue
        kw = fi.node.args.kwarg.arg
        filled = set()
        for st in walk_no_nested(fi.node):
            if not (isinstance(st, ast.Assign) and isinstance(st.targets[0], ast.Subscript) and isinstance(st.targets[0].value, ast.Name) and st.targets[0].value.id == kw):
                continue
            k = const_value(st.targets[0].slice, None)
            filled.add(k)
            if k not in keys:
                continue
            fs = facts(ctx, fi, st, expand=False)
            ok = (f"'{k}' in {kw}", False) in fs or (f"'{k}' not in {kw}", True) in fs or (f"{kw}.get('{k}') is None", True) in fs
            ctx.check(rule, ok, f"the default for `{k}` is filled in only where the caller gave no `{k}`", fi, st,
                      construct=f"{fi.short}: {kw}['{k}'] = {norm_text(st.value)[:40]} under {sorted(t if pol else 'not (' + t + ')' for t, pol in fs if kw in t) or 'no test of the keywords'}")
        for k in required:
            also = any(isinstance(c, ast.Call) and isinstance(c.func, ast.Attribute) and c.func.attr == 'setdefault' and isinstance(c.func.value, ast.Name) and c.func.value.id == kw
                       and c.args and const_value(c.args[0], None) == k for c in ast.walk(fi.node))
            ctx.check(rule, k in filled or also, f"a default for `{k}` is filled in where the caller gave none", fi, fi.node, construct=f"{fi.short}: default for `{k}` {'present' if (k in filled or also) else 'absent'}")


CF_COORDINATE_MARKERS = {
    'latitude_name': ('CF_LATITUDE_UNITS', 'latitude', 'Y'),
    'longitude_name': ('CF_LONGITUDE_UNITS', 'longitude', 'X'),
}


def cf_coordinate_markers(ctx: Context, rule: str) -> None:
    """The latitude (longitude) of a CF grid is the first variable that is not another variable's bounds and carries ANY ONE of: units among the CF
    spellings of degrees north (east), `standard_name: latitude` (`longitude`), `axis: Y` (`X`).  Where a name is yielded, exactly that disjunction
    over the variable's own attributes is known, and nothing else about the variable but the bounds exclusion; the unit spellings are CF's."""
    from .common import facts
    import re as _re
    p = ctx.p
    units_want = {'CF_LATITUDE_UNITS': {'degrees_north', 'degree_north', 'degree_N', 'degrees_N', 'degreeN', 'degreesN'},
                  'CF_LONGITUDE_UNITS': {'degrees_east', 'degree_east', 'degree_E', 'degrees_E', 'degreeE', 'degreesE'}}
    mod = p.modules.get('emsarray.conventions.grid')
    for const, want in sorted(units_want.items()):
        v = mod.assigns.get(const) if mod is not None else None
        got = None
        if v is not None:
            try:
                got = set(ast.literal_eval(v))
            except (ValueError, SyntaxError, TypeError):
                got = None
        ctx.check(rule, got == want, f"{const} lists the spellings CF allows for these units, all of them and no others", None, v, construct=f"{const} = {sorted(got) if got is not None else '?'}")
    for member, (units, std, axis) in sorted(CF_COORDINATE_MARKERS.items()):
        fi = ctx.func(f"emsarray.conventions.grid.CFGridTopology.{member}")
        gens = [g for g in ast.walk(fi.node) if isinstance(g, ast.GeneratorExp) and len(g.generators) == 1]
        ok, why = False, 'no search over the variables'
        for g in gens:
            cls: list = []
            fs = facts(ctx, fi, g.elt, expand=True, clauses_out=cls)
            tgt = g.generators[0].target
            key = norm_text(tgt.elts[0]) if isinstance(tgt, ast.Tuple) else norm_text(tgt)
            var = norm_text(tgt.elts[1]) if isinstance(tgt, ast.Tuple) and len(tgt.elts) == 2 else f"self.dataset[{key}]"
            attrs = rf"(?:{_re.escape(var)}|self\.dataset\[{_re.escape(key)}\]|self\.dataset\.variables\[{_re.escape(key)}\])\.attrs"
            want = {rf"{attrs}\.get\('units'\) in {units}", rf"{attrs}\.get\('standard_name'\) == '{std}'", rf"{attrs}\.get\('axis'\) == '{axis}'"}
            # the three markers may come out of a table (`units, standard_name, axis = _MARKERS['latitude']`): such names are spelled out
            subst = {}
            flow_ = ctx.flow(fi)
            for n_ in ast.walk(fi.node):
                if isinstance(n_, ast.Assign) and len(n_.targets) == 1 and isinstance(n_.targets[0], ast.Tuple) and all(isinstance(e, ast.Name) for e in n_.targets[0].elts):
                    row = n_.value
                    if isinstance(row, ast.Subscript) and isinstance(row.value, ast.Name) and mod is not None and row.value.id in mod.assigns and isinstance(mod.assigns[row.value.id], ast.Dict):
                        k_ = const_value(row.slice, None)
                        for dk, dv in zip(mod.assigns[row.value.id].keys, mod.assigns[row.value.id].values):
                            if dk is not None and const_value(dk, object()) == k_:
                                row = dv
                    if isinstance(row, ast.Tuple) and len(row.elts) == len(n_.targets[0].elts):
                        for t_, v_ in zip(n_.targets[0].elts, row.elts):
                            subst[t_.id] = norm_text(v_)
            if subst:
                cls = [[(_re.sub(r"\b(" + "|".join(_re.escape(k) for k in subst) + r")\b", lambda m_: subst[m_.group(1)], t), pol) for t, pol in cl] for cl in cls]
            marker_clauses = []
            for cl in cls:
                texts = [t for t, pol in cl if pol]
                if len(texts) == len(cl) and all(any(_re.fullmatch(w, t) for w in want) for t in texts):
                    marker_clauses.append(set(texts))
            full = any(len(c) == 3 for c in marker_clauses)
            other_clauses = [[t for t, _ in cl] for cl in cls if any(('attrs' in t or var in t) for t, _ in cl)
                             and not (len([t for t, pol in cl if pol]) == len(cl) and all(any(_re.fullmatch(w, t) for w in want) for t, _ in cl))]
            other_facts = sorted(f"{t} is {pol}" for t, pol in fs if ('attrs' in t or _re.search(rf"\b{_re.escape(var)}\b", t)) )
            bounds_ok = any((not pol) and t.startswith(f"{key} in ") and 'bounds' in t for t, pol in fs)
            ok = full and not other_clauses and not other_facts and bounds_ok
            why = f"markers {sorted(sorted(c) for c in marker_clauses)[:1]}; bounds excluded: {bounds_ok}; further conditions: {(other_facts + [' or '.join(c) for c in other_clauses])[:2] or 'none'}"
            if ok:
                break
        ctx.check(rule, ok, f"{member}: a variable is the coordinate when it is no other variable's bounds and carries any one of units in {units}, standard_name {std!r}, axis {axis!r} "
                  "(each alone is enough) - and under no further condition", fi, gens[0] if gens else fi.node, construct=why[:300])


def mesh_table_dimension_tests(ctx: Context, rule: str) -> None:
    """A supplied connectivity table is set aside (with a warning) exactly when its dimensions are not the two expected ones: each
    `has_valid_<table>_connectivity` answers False under `actual != expected` and True at its end.  An inverted test discards every
    well-formed table and keeps the malformed ones."""
    from .common import facts
    p = ctx.p
    n = 0
    for table in ('face_node', 'edge_node', 'edge_face', 'face_edge', 'face_face'):
        fi = p.functions.get(f"{TOPO}.has_valid_{table}_connectivity")
        if fi is None:
            continue
        n += 1
        compares = [c for c in ast.walk(fi.node) if isinstance(c, ast.Compare) and len(c.ops) == 1 and isinstance(c.ops[0], (ast.Eq, ast.NotEq))
                    and {norm_text(c.left), norm_text(c.comparators[0])} == {'actual', 'expected'}]
        if not compares:
            # spelled out another way: the obligation is read off the facts below only when the set comparison is there
            ctx.check(rule, False, f"has_valid_{table}_connectivity compares the table's dimensions with the expected pair", fi, fi.node, construct='no `actual != expected` test')
            continue
        # the expected pair: the table's own primary dimension and its second one
        pairs_ = {'face_node': {'self.face_dimension', 'self.max_node_dimension'}, 'face_edge': {'self.face_dimension', 'self.max_node_dimension'},
                  'face_face': {'self.face_dimension', 'self.max_node_dimension'}, 'edge_node': {'self.edge_dimension', 'self.two_dimension'},
                  'edge_face': {'self.edge_dimension', 'self.two_dimension'}}
        exp_ = [st for st in walk_no_nested(fi.node) if isinstance(st, ast.Assign) and norm_text(st.targets[0]) == 'expected']
        got_ = {norm_text(e) for e in exp_[0].value.elts} if len(exp_) == 1 and isinstance(exp_[0].value, (ast.Set, ast.Tuple, ast.List)) else None
        ctx.check(rule, got_ == pairs_[table], f"{table}: the dimensions expected of the table are its own two", fi, exp_[0] if exp_ else fi.node,
                  construct=f"expected = {sorted(got_) if got_ is not None else '?'}")
        falses = [r for r in fi.returns() if isinstance(r.value, ast.Constant) and r.value.value is False]
        trues = [r for r in fi.returns() if isinstance(r.value, ast.Constant) and r.value.value is True]
        under_mismatch = [r for r in falses if (('actual != expected', True) in facts(ctx, fi, r, expand=False) or ('actual == expected', False) in facts(ctx, fi, r, expand=False))]
        ok_false = len(under_mismatch) >= 1
        ok_true = bool(trues) and all((('actual != expected', False) in facts(ctx, fi, r, expand=False) or ('actual == expected', True) in facts(ctx, fi, r, expand=False)) for r in trues)
        ctx.check(rule, ok_false and ok_true, f"{table}: the supplied table is refused where its dimensions differ from the expected pair, and accepted only where they agree", fi, compares[0],
                  construct=f"has_valid_{table}_connectivity: False under mismatch: {ok_false}; True only under agreement: {ok_true}")
    ctx.check(rule, n >= 4, "the validity tests of the optional tables were found", None, None, construct=f"{n} has_valid_*_connectivity properties")


def mesh_fill_value(ctx: Context, rule: str) -> None:
    """The fill value that marks missing entries in derived and re-indexed tables must lie above every index: it is written as a row of nines with
    at least as many digits as the largest count (nodes; faces times nodes per face, an upper bound for edges)."""
    fi = ctx.func(f"{TOPO}.sensible_fill_value")
    rets = fi.returns()
    ok, why = False, '?'
    if len(rets) == 1:
        flow = ctx.flow(fi)
        v = flow.resolve(rets[0].value)
        why = norm_text(v)[:80]
        if isinstance(v, ast.Call) and isinstance(v.func, ast.Name) and v.func.id == 'int' and len(v.args) == 1 and isinstance(v.args[0], ast.BinOp) and isinstance(v.args[0].op, ast.Mult):
            left, right = v.args[0].left, v.args[0].right
            if const_value(right, None) == '9':
                left, right = right, left
            digits, k = flow.resolve(right), 0
            if isinstance(digits, ast.BinOp) and isinstance(digits.op, (ast.Add, ast.Sub)) and isinstance(const_value(digits.right, None), int):
                k = const_value(digits.right, 0) * (1 if isinstance(digits.op, ast.Add) else -1)
                digits = flow.resolve(digits.left)
            if const_value(left, None) == '9' and isinstance(digits, ast.Call) and isinstance(digits.func, ast.Name) and digits.func.id == 'len' and len(digits.args) == 1 \
                    and isinstance(digits.args[0], ast.Call) and isinstance(digits.args[0].func, ast.Name) and digits.args[0].func.id == 'str' and len(digits.args[0].args) == 1:
                counts = norm_text(flow.resolve(digits.args[0].args[0]))
                ok = k >= 0 and counts.startswith('max(') and 'self.node_count' in counts and 'self.face_count * self.max_node_count' in counts
                why = f"nines: digits of {counts[:70]} {'+' if k >= 0 else '-'} {abs(k)}"
    ctx.check(rule, ok, "the mesh fill value is a row of nines with at least as many digits as the largest element count: no index can equal it", fi, rets[0] if rets else fi.node, construct=why)


def ugrid_inventory(ctx: Context, rule: str) -> None:
    """The geometry inventory of a mesh names, besides what its polygons are made of, every optional table that is supplied and valid and every
    optional coordinate variable that exists - each under exactly its own test.  `select_variables`, `drop_geometry` and the cache key go by this
    list: a table left out of it is dropped from a dataset that keeps "only some data variables", and its edits no longer change the key."""
    from .common import facts
    fi = ctx.func('emsarray.conventions.ugrid.UGrid.get_all_geometry_names')
    flow = ctx.flow(fi)
    appended = {}
    for c in calls_in(fi):
        if isinstance(c.func, ast.Attribute) and c.func.attr == 'append' and len(c.args) == 1:
            from .common import expand_locals
            text = norm_text(expand_locals(flow, c.args[0]))
            appended[text] = (c, facts(ctx, fi, c, expand=True))
    listed = set()
    for n in ast.walk(fi.node):
        if isinstance(n, ast.List):
            listed |= {norm_text(flow.resolve(e)) for e in n.elts}
    want_always = {'self.topology.mesh_variable.name', 'self.topology.face_node_connectivity.name', 'self.topology.node_x.name', 'self.topology.node_y.name'}
    ctx.check(rule, want_always <= (listed | set(appended)), "the mesh variable, the face-node table and the node coordinates are always geometry", fi, fi.node,
              construct=f"always listed: {sorted(listed)[:6]}")
    for table in ('face_edge', 'face_face', 'edge_node', 'edge_face'):
        text = f"self.topology.{table}_connectivity.name"
        hit = appended.get(text)
        guard = f"self.topology.has_valid_{table}_connectivity"
        ok = hit is not None and {(t, pol) for t, pol in hit[1] if 'topology' in t} == {(guard, True)}
        ctx.check(rule, ok, f"{table}: the supplied table is geometry exactly when it is valid", fi, hit[0] if hit else fi.node,
                  construct=f"{table}: {'listed under ' + str(sorted(t if pol else 'not ' + t for t, pol in hit[1])) if hit else 'not listed'}")
    for coord in ('edge_x', 'edge_y', 'face_x', 'face_y'):
        text = f"self.topology.{coord}.name"
        hit = appended.get(text)
        ok = hit is not None and {(t, pol) for t, pol in hit[1] if 'topology' in t} in ({(f"self.topology.{coord} is None", False)}, {(f"self.topology.{coord} is not None", True)})
        ctx.check(rule, ok, f"{coord}: the optional coordinate variable is geometry exactly when the mesh names one that exists", fi, hit[0] if hit else fi.node,
                  construct=f"{coord}: {'listed under ' + str(sorted(t if pol else 'not ' + t for t, pol in hit[1])) if hit else 'not listed'}")


ROLE_BINDINGS = [
    # (function, what its single return / its stores must be, in normal form)  - read off the reviewed tree and confirmed by reading; one line per role
    ('emsarray.conventions.grid.CFGridTopology.latitude', 'return', 'self.dataset[self.latitude_name]'),
    ('emsarray.conventions.grid.CFGridTopology.longitude', 'return', 'self.dataset[self.longitude_name]'),
    ('emsarray.conventions.arakawa_c.ArakawaCGridTopology.latitude', 'return', 'self.dataset[self.latitude_name]'),
    ('emsarray.conventions.arakawa_c.ArakawaCGridTopology.longitude', 'return', 'self.dataset[self.longitude_name]'),
    ('emsarray.conventions.grid.CFGrid1DTopology.latitude_bounds', 'return', 'self._get_or_make_bounds(self.latitude)'),
    ('emsarray.conventions.grid.CFGrid1DTopology.longitude_bounds', 'return', 'self._get_or_make_bounds(self.longitude)'),
    ('emsarray.conventions.grid.CFGrid2DTopology.latitude_bounds', 'return', 'self._get_or_make_bounds(self.latitude)'),
    ('emsarray.conventions.grid.CFGrid2DTopology.longitude_bounds', 'return', 'self._get_or_make_bounds(self.longitude)'),
    ('emsarray.conventions.arakawa_c.ArakawaC.face', 'return', 'self._topology_for_grid_kind[ArakawaCGridKind.face]'),
    ('emsarray.conventions.arakawa_c.ArakawaC.left', 'return', 'self._topology_for_grid_kind[ArakawaCGridKind.left]'),
    ('emsarray.conventions.arakawa_c.ArakawaC.back', 'return', 'self._topology_for_grid_kind[ArakawaCGridKind.back]'),
    ('emsarray.conventions.arakawa_c.ArakawaC.node', 'return', 'self._topology_for_grid_kind[ArakawaCGridKind.node]'),
    ('emsarray.conventions.grid.CFGridTopology.__init__', 'store', {'self.latitude_name': 'latitude', 'self.longitude_name': 'longitude'}),
    ('emsarray.conventions.arakawa_c.ArakawaCGridTopology.__init__', 'store', {'self.latitude_name': 'latitude', 'self.longitude_name': 'longitude'}),
]


def role_bindings(ctx: Context, rule: str) -> None:
    """Latitude is latitude and the face grid is the face grid: the small properties through which every convention reaches its coordinate variables
    bind each role to its own name - `latitude` reads `latitude_name`, `longitude_bounds` is made from `longitude`, `ArakawaC.left` is the topology
    of `ArakawaCGridKind.left`, a topology stores the latitude it was given under `latitude_name`.  The pairs differ in one word, which is what a
    copy-and-paste slip changes; on a square grid nothing fails.  The table is the reviewed tree's, one line per role."""
    from .common import expand_locals
    for qual, kind, want in ROLE_BINDINGS:
        fi = ctx.p.functions.get(qual)
        if fi is None:
            ctx.check(rule, False, f"{qual.rsplit('.', 2)[-2]}.{qual.rsplit('.', 1)[-1]} exists", None, None, construct='absent')
            continue
        flow = ctx.flow(fi)
        if kind == 'return':
            rets = fi.returns()
            got = sorted({norm_text(expand_locals(flow, r.value)) for r in rets if r.value is not None})
            # (a call of the helper and a subscript of the cached table are the same binding)
            canon = [g.replace('_topology_for_grid_kind(', '_topology_for_grid_kind[').rstrip(')') + (']' if '_topology_for_grid_kind(' in g else '') if '_topology_for_grid_kind(' in g else g for g in got]
            ctx.check(rule, canon == [want], f"{fi.short} is bound to its own role", fi, rets[0] if rets else fi.node, construct=f"{fi.short} -> {got or 'no return'}; expected {want}")
        else:
            stores = {}
            for st in walk_no_nested(fi.node):
                if isinstance(st, ast.Assign) and len(st.targets) == 1 and isinstance(st.targets[0], ast.Attribute):
                    stores.setdefault(norm_text(st.targets[0]), set()).add(norm_text(expand_locals(flow, st.value)))
            for tgt, val in sorted(want.items()):
                ctx.check(rule, stores.get(tgt) == {val}, f"{fi.short} keeps `{val}` under `{tgt}`", fi, fi.node, construct=f"{fi.short}: {tgt} = {sorted(stores.get(tgt, [])) or 'never stored'}")
    # the Arakawa inventory names both coordinates of all four grids
    inv = ctx.func('emsarray.conventions.arakawa_c.ArakawaC.get_all_geometry_names')
    iflow = ctx.flow(inv)
    names = set()
    for r in inv.returns():
        v = iflow.resolve(r.value)
        if isinstance(v, (ast.List, ast.Tuple)):
            names |= {norm_text(expand_locals(iflow, e)) for e in v.elts}
    want_inv = {f"self.{g}.{c}.name" for g in ('face', 'node', 'left', 'back') for c in ('longitude', 'latitude')}
    ctx.check(rule, names == want_inv, "the Arakawa C inventory names the longitude and the latitude of the face, node, left and back grids", inv, inv.node,
              construct=f"missing {sorted(want_inv - names) or 'none'}; other {sorted(names - want_inv) or 'none'}")


SHOC_TIME_NAMES = {'emsarray.conventions.shoc.ShocStandard': 't', 'emsarray.conventions.shoc.ShocSimple': 'time'}


def shoc_time_names(ctx: Context, rule: str) -> None:
    """The SHOC conventions know their time variable by name (`t` in the standard format, `time` in the simple one): the name looked up is
    the format's.  With another name the lookup refuses, the save treats the refusal as "no time variable" and leaves the units unfixed."""
    from .common import Undecided, fold_function, names_deciding
    p = ctx.p
    for qual, want in sorted(SHOC_TIME_NAMES.items()):
        ci = p.classes.get(qual)
        fi = p.resolve_method(ci, 'time_coordinate') if ci is not None else None
        got, why = None, 'no time_coordinate override'
        if fi is not None and not fi.is_abstract and fi.qualname.startswith('emsarray.conventions.shoc.'):
            subs = [n for n in ast.walk(fi.node) if isinstance(n, ast.Subscript) and norm_text(n.value) == 'self.dataset' and isinstance(n.ctx, ast.Load)]
            flow = ctx.flow(fi)
            vals = {const_value(flow.resolve(s_.slice), None) for s_ in subs}
            got = vals.pop() if len(vals) == 1 else None
            why = f"{len(subs)} lookup(s) in self.dataset"
        ctx.check(rule, got == want, f"{qual.rsplit('.', 1)[-1]}.time_coordinate looks up the format's time variable {want!r}", fi, fi.node if fi is not None else None,
                  construct=f"time variable looked up: {got!r} ({why})")


def arakawa_topology_roles(ctx: Context, rule: str) -> None:
    """Each Arakawa C grid is built from the pair of names listed for its kind, the first as latitude and the second as longitude (the tables
    list y before x): `ArakawaCGridTopology(dataset, latitude=coords[0], longitude=coords[1]) for kind, coords in coordinate_names.items()`."""
    fi = ctx.func('emsarray.conventions.arakawa_c.ArakawaC._topology_for_grid_kind')
    flow = ctx.flow(fi)
    calls = [c for c in calls_in(fi, nested=True) if (callee(ctx, fi, c) or '').endswith('ArakawaCGridTopology')]
    comps = [n for n in ast.walk(fi.node) if isinstance(n, (ast.DictComp, ast.GeneratorExp, ast.ListComp)) and len(n.generators) == 1]
    ok, why = False, 'no ArakawaCGridTopology(...) construction over coordinate_names'
    if len(calls) == 1 and comps:
        c = calls[0]
        gen = next((g for g in comps if any(x is c for x in ast.walk(g))), None)
        if gen is not None and norm_text(gen.generators[0].iter) in ('self.coordinate_names.items()',) and isinstance(gen.generators[0].target, ast.Tuple) and len(gen.generators[0].target.elts) == 2:
            k_, v_ = (norm_text(e) for e in gen.generators[0].target.elts)
            lat = arg_or_kw(c, 1, 'latitude') if any(k.arg == 'latitude' for k in c.keywords) else None
            lon = arg_or_kw(c, 2, 'longitude') if any(k.arg == 'longitude' for k in c.keywords) else None
            ok = lat is not None and lon is not None and norm_text(lat) == f"{v_}[0]" and norm_text(lon) == f"{v_}[1]" and (not isinstance(gen, ast.DictComp) or norm_text(gen.key) == k_)
            why = f"latitude={norm_text(lat) if lat is not None else '?'}, longitude={norm_text(lon) if lon is not None else '?'} for {k_}, {v_} in coordinate_names.items()"
    ctx.check(rule, ok, "an Arakawa C grid takes the first name listed for its kind as latitude and the second as longitude, and is filed under that kind", fi, calls[0] if calls else fi.node, construct=why)
    # the tables list (y, x): the latitude variable first
    for qual in ('emsarray.conventions.shoc.ShocStandard',):
        ci = ctx.p.classes.get(qual)
        tab = ctx.p.resolve_class_attr(ci, 'coordinate_names') if ci is not None else None
        v = tab[1] if tab is not None else None
        rows = []
        if isinstance(v, ast.Dict):
            for val in v.values:
                if isinstance(val, ast.Tuple) and len(val.elts) == 2:
                    rows.append((const_value(val.elts[0], ''), const_value(val.elts[1], '')))
        ctx.check(rule, len(rows) == 4 and all(a.startswith('y_') and b.startswith('x_') and a[2:] == b[2:] for a, b in rows),
                  "the SHOC standard table names (y_<grid>, x_<grid>) for each of its four grids: latitude first", None, v, construct=f"coordinate_names rows: {rows}")
