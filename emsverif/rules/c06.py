"""C06 - cell polygons and dataset extent are faithful to the dataset's coordinates."""
from __future__ import annotations

import ast

from ..axes import Arr, Case, DataArrayVal, Leaf, Op, Polygons, Top, fix, leaves, merged_order
from ..cfg import stmt_of
from ..linear import Lin, const, symbol
from ..model import AnalysisError, const_value, dotted, kwarg, norm_text, walk_no_nested
from ..effects import roots_of
from ..report import Context
from .c02 import polygon_builder_facts
from .common import arg_or_kw, calls_in, callee, enclosing_ifs, is_none, method_calls
from .geomcommon import ARAKAWA, GRID, gray_cycle, interpret, offset_of, size_sym

BASE = 'emsarray.conventions._base.Convention'
UGRID = 'emsarray.conventions.ugrid'
SHOC = 'emsarray.conventions.shoc'
DATASET_WIDE = {'variables'}          # namespaces (besides the dataset itself) that contain coordinates too
PARTIAL_NS = {'data_vars', 'coords'}


def _pad_calls(ctx, fi):
    return [c for c in calls_in(fi, nested=True) if callee(ctx, fi, c) == 'numpy.pad']


def run(ctx: Context) -> None:
    p = ctx.p
    base = p.cls(BASE)
    ctx.rule('R06.1', "four-corner rings are simple: the corner picks form a Hamiltonian cycle of the unit square (any start, any orientation)", floor=3)
    ctx.rule('R06.2', "x is longitude and y is latitude: slot 0 of every point comes from the longitude / x handle, slot 1 from the latitude / y handle", floor=4)
    ctx.rule('R06.3', "stored bounds are accepted only with exactly the expected dimensions; synthesised bounds pair consecutive midpoints / average the four neighbouring centres, treat the outside of the grid as absent (not as missing cells), and blank every cell with a missing corner", floor=14)
    ctx.rule('R06.4', "coordinate and bounds variables named by attributes are looked up in a namespace that also contains xarray coordinates (dataset[...] or dataset.variables[...])", floor=8)
    ctx.rule('R06.5', "variable scans read optional attributes defensively (.get / membership test / except KeyError)", floor=2)
    ctx.rule('R06.6', "the validity filter dominates publication: invalid polygons are found over the full polygon array, replaced by None with an InvalidPolygonWarning, and the array is made read-only; the mask is derived from it", floor=6)
    ctx.rule('R06.7', "extent slots are (min x, min y, max x, max y) of the x / y handles; the generic geometry is the union of polygons[mask] and bounds its .bounds", floor=10)
    ctx.rule('R06.8', "UGRID faces are built from the normalised face-node table: primary dimension first, fill entries masked on the raw values, then start_index subtracted (shared with C10 R10.1)", floor=10)
    ctx.rule('R06.10', "every re-implementation of mask / bounds / geometry / strtree / polygons / face_centres in a convention is one whose agreement with the polygons is checked; mask means `has a polygon` everywhere", floor=7)
    from . import infra as _infra
    _infra.reviewed_overrides(ctx, 'R06.10')
    from .common import adopt_foundations as _adopt
    _adopt(ctx, 'R06.9', ['order', 'topology'], floor=60)
    ctx.rule('R06.12', "each coordinate role is bound to its own name: latitude reads latitude_name, longitude bounds come from longitude, an Arakawa grid from its own kind", floor=14)
    with ctx.section('R06.12'):
        from . import infra as _infra612
        _infra612.role_bindings(ctx, 'R06.12')
        _infra612.arakawa_topology_roles(ctx, 'R06.12')
    ctx.rule('R06.11', "the coordinates a CF grid is built from are found by CF's own markers: units in the CF spellings, standard_name, or axis - any one, and nothing else", floor=4)
    with ctx.section('R06.11'):
        from . import infra as _infra611
        _infra611.cf_coordinate_markers(ctx, 'R06.11')
    ctx.assume("GEOS is_valid detects self-intersection; numpy nanmin/nanmax/nanmean/pad semantics; shapely.polygons closes rings")
    ctx.assume("NOT decided: equality of UGRID node-based bounds with the polygon union when unused nodes exist (data dependent)")

    from . import c10
    from .common import share_obligations
    share_obligations(ctx, c10, {'R10.1'}, 'R06.8')
    facts = polygon_builder_facts(ctx)
    # ------------------------------------------------------------------ R06.1 / R06.2 on the grid builders
    with ctx.section('R06.1 / R06.2 on the grid builders'):
        for fact in facts:
            fi, pts = fact['fi'], fact['points']
            if not (isinstance(pts, Arr) and pts.ndim == 3 and pts.axes[0].merged and pts.axes[1].size == const(4) and pts.axes[2].size == const(2)):
                ctx.check('R06.2', False, "the points array can be derived as (cells, corner, xy)", fi, fact['ret'],
                          construct=f"{fi.short}: points array not derivable ({pts.why if isinstance(pts, Top) else 'shape ' + (pts.show() if isinstance(pts, Arr) else '?')})")
                continue
            order = merged_order(pts.axes[0])
            c_ax, k_ax = pts.axes[1], pts.axes[2]
            srcs = {0: set(), 1: set()}
            corners = []
            for c in range(4):
                pick = [None, None]
                for k in range(2):
                    for lf in leaves(fix(fix(pts.body, c_ax.key, c), k_ax.key, k)):
                        srcs[k].add(lf.src)
                        if fact['kind'] == 'bounds-1d':
                            v = lf.index[1]
                            pick[k] = int(v.const) if v.is_const else None
                        elif fact['kind'] == 'nodes' and len(order) == 2:
                            oy, ox = offset_of(lf.index[0], order[0].key), offset_of(lf.index[1], order[1].key)
                            pick = [ox, oy]
                        elif fact['kind'] == 'bounds-2d':
                            v = lf.index[2]
                            same = 0 if (v.is_const and int(v.const) == c) else None
                            pick[k] = same
                corners.append(tuple(pick))
            ctx.check('R06.2', srcs[0] == {fact['lon']} and srcs[1] == {fact['lat']}, "slot 0 is longitude, slot 1 is latitude", fi, fact['ret'],
                      construct=f"{fi.short}: x from {sorted(srcs[0])}, y from {sorted(srcs[1])}")
            if fact['kind'] == 'bounds-2d':
                ok = all(cn == (0, 0) for cn in corners)
                ctx.check('R06.1', ok, "stored 2-D bounds: longitude and latitude use the same corner of the same cell (corner order is the file's)", fi, fact['ret'],
                          construct=f"{fi.short}: corner axis passed through for both slots")
            else:
                ok = all(isinstance(a, int) and isinstance(b, int) for a, b in corners) and gray_cycle([(a, b) for a, b in corners])
                ctx.check('R06.1', ok, "the four corners walk round the cell (no bow-tie, no repeated corner)", fi, fact['ret'],
                          construct=f"{fi.short}: corner picks (dx, dy) = {corners}")
        # UGRID: coords = stack([node_x[nodes], node_y[nodes]], axis=-1), nodes in listed order
        ug = ctx.func(f"{UGRID}.UGrid._make_polygons")
        flow = ctx.flow(ug)
        sp = [c for c in calls_in(ug, nested=True) if callee(ctx, ug, c) == 'shapely.polygons']
        ctx.need('R06.2', len(sp) == 1 and sp[0].args, "UGrid._make_polygons builds polygons with shapely.polygons", ug)
        coords = flow.resolve(sp[0].args[0])
        ok = False
        detail = norm_text(coords)
        if isinstance(coords, ast.Call) and callee(ctx, ug, coords) == 'numpy.stack' and isinstance(coords.args[0], (ast.List, ast.Tuple)) \
                and len(coords.args[0].elts) == 2 and const_value(kwarg(coords, 'axis') or (coords.args[1] if len(coords.args) > 1 else None), None) == -1:
            a, b = coords.args[0].elts
            ok = (isinstance(a, ast.Subscript) and isinstance(b, ast.Subscript) and flow.canon(a.slice) == flow.canon(b.slice)
                  and 'node_x' in repr(flow.canon(a.value)) and 'node_y' in repr(flow.canon(b.value))
                  and 'node_y' not in repr(flow.canon(a.value)) and 'node_x' not in repr(flow.canon(b.value)))
            if ok:
                nodes = flow.resolve(a.slice)
                # nodes = getdata(face_node)[indices, :size]: the first `size` listed nodes, in order
                ok = (isinstance(nodes, ast.Subscript) and isinstance(nodes.slice, ast.Tuple) and isinstance(nodes.slice.elts[1], ast.Slice)
                      and nodes.slice.elts[1].lower is None and nodes.slice.elts[1].step is None)
        ctx.check('R06.2', ok, "UGRID points are (node_x[n], node_y[n]) for a face's nodes in listed order", ug, sp[0], construct=f"coords = {detail[:120]}")
        from ..pattern import Matcher
        m = Matcher(ctx, ug)
        size_st = m.stmt('$sizes = numpy.sum(~numpy.ma.getmaskarray($$face_node), axis=1)') or \
            m.stmt('$sizes = numpy.count_nonzero(~numpy.ma.getmaskarray($$face_node), axis=1)') or \
            m.stmt('$sizes = (~numpy.ma.getmaskarray($$face_node)).sum(axis=1)') or \
            m.stmt('$sizes = numpy.ma.count($$face_node, axis=1)')
        # the table the sizes are counted on and the rows are gathered from is the normalised face-node table itself,
        # unfiltered (a filtered copy has other row numbers than the output array), under whatever name
        def is_table(e) -> bool:
            v = flow.resolve(e)
            return isinstance(v, ast.Attribute) and v.attr == 'face_node_array'
        counted = m.enodes.get('face_node') if size_st is not None else None
        gathered = [c.args[0] for c in calls_in(ug) if callee(ctx, ug, c) in ('numpy.ma.getdata', 'numpy.ma.getmaskarray', 'numpy.ma.getmask', 'numpy.ma.count') and c.args]
        ok = counted is not None and is_table(counted) and bool(gathered) and all(is_table(g_) for g_ in gathered) \
            and m.has('$rows = numpy.flatnonzero($sizes == $size)')
        ctx.check('R06.2', ok, "a face's vertex count is the number of unmasked entries in its row of the face-node table, and faces are grouped by that count", ug, size_st or ug.node)

    # ------------------------------------------------------------------ R06.3 bounds
    with ctx.section('R06.3 bounds'):
        Y, X = size_sym('y_dimension'), size_sym('x_dimension')
        N = symbol(('size', 'coordinate.dims[0]'))
        b1 = ctx.func(f"{GRID}.CFGrid1DTopology._get_or_make_bounds")
        b2 = ctx.func(f"{GRID}.CFGrid2DTopology._get_or_make_bounds")
        flow1, flow2 = ctx.flow(b1), ctx.flow(b2)

        from .common import guards

        def stored_return(fi, fl):
            """(return statement handing back the stored bounds, the bounds variable name, its atomic guards)."""
            for r in fi.returns():
                v = fl.resolve(r.value)
                rv = r.value
                while isinstance(rv, ast.Call) and dotted(rv.func) in ('cast', 'typing.cast') and len(rv.args) == 2:
                    rv = rv.args[1]
                if isinstance(v, ast.Subscript) and isinstance(fl.resolve(v.slice), ast.Subscript) and const_value(fl.resolve(v.slice).slice, None) == 'bounds' \
                        and isinstance(rv, ast.Name):
                    return r, rv.id, guards(fi, r)
            return None, None, []

        r1, bn1, gd1 = stored_return(b1, flow1)
        want1 = {(f"len({bn1}.dims) == 2", True), (f"{bn1}.dims[0] == coordinate.dims[0]", True), (f"self.dataset.sizes[{bn1}.dims[1]] == 2", True)}
        g1 = [r1] if r1 is not None else []
        ok = r1 is not None and set(gd1) == want1
        ctx.check('R06.3', ok, "1-D stored bounds are used only when their dims are (coordinate dimension, 2)", b1, r1 or b1.node,
                  construct=f"guard: {sorted(t for t, _ in gd1) if r1 is not None else 'absent'}")
        r2, bn2, gd2 = stored_return(b2, flow2)
        want2 = {(f"len({bn2}.dims) == 3", True), (f"{bn2}.dims[0] == self.y_dimension", True), (f"{bn2}.dims[1] == self.x_dimension", True),
                 (f"self.dataset.sizes[{bn2}.dims[2]] == 4", True)}
        g2 = [r2] if r2 is not None else []
        ok = r2 is not None and set(gd2) == want2
        ctx.check('R06.3', ok, "2-D stored bounds are used only when their dims are (y, x, 4)", b2, r2 or b2.node,
                  construct=f"guard: {sorted(t for t, _ in gd2) if r2 is not None else 'absent'}")
        # 1-D synthesis
        it, src = interpret(ctx, b1, {'coordinate': ('cv', [N])}, {})
        val = it.returns[0][1] if it.returns else None
        ok = False
        detail = 'no DataArray returned'
        if isinstance(val, DataArrayVal) and isinstance(val.data, Arr) and val.data.ndim == 2:
            a = val.data
            detail = f"shape {a.show()}"
            if a.axes[0].size == N and a.axes[1].size == const(2):
                l0 = leaves(fix(a.body, a.axes[1].key, 0))
                l1 = leaves(fix(a.body, a.axes[1].key, 1))
                if len(l0) == 1 and len(l1) == 1 and l0[0].src == l1[0].src and l0[0].src.startswith('concat@'):
                    o0, o1 = offset_of(l0[0].index[0], a.axes[0].key), offset_of(l1[0].index[0], a.axes[0].key)
                    ok = (o0, o1) == (0, 1)
                    detail += f", columns = midpoints[i+{o0}], midpoints[i+{o1}]"
        elif isinstance(val, DataArrayVal) and isinstance(val.data, Top):
            detail = val.data.why
        ctx.check('R06.3', ok, "synthesised 1-D bounds pair midpoint i with midpoint i+1 and have one row per coordinate value", b1,
                  it.returns[0][0] if it.returns else b1.node, construct=f"1-D bounds: {detail}")
        dims_ok = isinstance(val, DataArrayVal) and val.dims is not None and len(val.dims) == 2 and norm_text(val.dims[0]) == 'coordinate.dims[0]'
        ctx.check('R06.3', dims_ok, "synthesised 1-D bounds are on the coordinate's own dimension", b1, it.returns[0][0] if it.returns else b1.node,
                  construct=f"dims = {[norm_text(d) for d in val.dims] if isinstance(val, DataArrayVal) and val.dims else '?'}")
        ok = False
        detail = 'midpoints are not a concatenation'
        if it.concats:
            call, pieces = next(iter(it.concats.values()))
            texts = [norm_text(flow1.resolve(node)) for _, _, node in pieces]
            gaps = {norm_text(n.targets[0]): norm_text(n.value) for n in walk_no_nested(b1.node) if isinstance(n, ast.Assign)
                    and isinstance(n.targets[0], ast.Name) and n.targets[0].id in ('first_gap', 'last_gap')}
            ok = (texts == ['[values[0] - first_gap / 2]', '(values[1:] + values[:-1]) / 2', '[values[-1] + last_gap / 2]']
                  and gaps == {'first_gap': 'values[1] - values[0]', 'last_gap': 'values[-1] - values[-2]'})
            detail = f"pieces {texts}; gaps {gaps}"
            if not ok and len(pieces) == 3:
                # the same three pieces with the gaps and the values under other names (or written out): compared with every local spelled out
                from ..pattern import Matcher as _M1
                from .common import expand_locals as _x1
                m1 = _M1(ctx, b1)
                full = [_x1(flow1, node) for _, _, node in pieces]
                ok = bool(m1.match('[$$v[0] - ($$v[1] - $$v[0]) / 2]', full[0]) and m1.match('($$v[1:] + $$v[:-1]) / 2', full[1])
                          and m1.match('[$$v[-1] + ($$v[-1] - $$v[-2]) / 2]', full[2])) and norm_text(_x1(flow1, full[1].left.left.value)) == 'coordinate.values'
                detail = f"pieces {[norm_text(f)[:70] for f in full]}"
        ctx.check('R06.3', ok, "midpoints = [v0 - gap0/2] + pairwise means + [vN + gapN/2] (both ends extended by half the adjacent gap)", b1, b1.node,
                  construct=f"1-D midpoints: {detail}")
        # 2-D synthesis
        it2, src2 = interpret(ctx, b2, {'coordinate': ('cv', [Y, X])}, {'self.shape': [Y, X]},
                              env={'__axis_names__': ['self.y_dimension', 'self.x_dimension']})
        # the centre values enter the synthesis in (y_dimension, x_dimension) order whatever order the coordinate is stored in
        # (the two coordinates of one grid need not agree on it)
        from ..pattern import Matcher as _M2
        m2 = _M2(ctx, b2)
        # every read of the coordinate's values goes through `.transpose(self.y_dimension, self.x_dimension)`, whatever aliases lie between
        def through_transpose(e, depth=8):
            """'yes' / 'no' / '?': does expression e (the owner of a .values read) derive from the parameter through the named transpose?"""
            while depth > 0:
                depth -= 1
                if isinstance(e, ast.Name):
                    if flow2.canon(e) == ('param', b2.params[1]):
                        return 'no'
                    d_ = flow2.single_def(e)
                    if d_ is None or d_.value is None:
                        return '?'
                    e = d_.value
                    continue
                if isinstance(e, ast.Call) and isinstance(e.func, ast.Attribute) and e.func.attr == 'transpose':
                    names = [norm_text(a) for a in e.args]
                    if names == ['self.y_dimension', 'self.x_dimension']:
                        inner = e.func.value
                        # the receiver must be the parameter (or an alias of it)
                        r_ = inner
                        for _ in range(6):
                            if isinstance(r_, ast.Name) and flow2.canon(r_) == ('param', b2.params[1]):
                                return 'yes'
                            if isinstance(r_, ast.Name):
                                d2 = flow2.single_def(r_)
                                if d2 is None or d2.value is None:
                                    break
                                r_ = d2.value
                                continue
                            break
                        return '?'
                    return 'no'
                return '?'
            return '?'
        value_reads = [n for n in ast.walk(b2.node) if isinstance(n, ast.Attribute) and n.attr in ('values', 'data', 'to_numpy') and isinstance(n.value, ast.Name)
                       and ('param:' + b2.params[1]) in roots_of(flow2, n.value)]
        verdicts = [through_transpose(n.value) for n in value_reads]
        reads = [n for n, v in zip(value_reads, verdicts) if v != 'yes']
        tr = next((n for n in ast.walk(b2.node) if isinstance(n, ast.Call) and isinstance(n.func, ast.Attribute) and n.func.attr == 'transpose'
                   and [norm_text(a) for a in n.args] == ['self.y_dimension', 'self.x_dimension']), None)
        ok_tr = tr is not None and bool(value_reads) and not reads and bool(getattr(it2, 'named_transposes', []))
        conv = None
        for alt in ('$vals = $c.values.astype(numpy.double)', '$vals = $c.values.astype(numpy.float64)', '$vals = $c.values.astype(float)',
                    '$vals = numpy.array($c.values, dtype=numpy.double)', '$vals = numpy.array($c.values, dtype=float)',
                    '$vals = numpy.asarray($c.values, dtype=numpy.double).copy()'):
            conv = conv or m2.stmt(alt)
        ctx.check('R06.3', conv is not None, "the centre values are converted to floating point (a fresh array) before they are padded with NaN: "
                  "integer typed coordinates cannot hold the padding", b2, conv or b2.node,
                  construct=f"conversion: {norm_text(conv) if conv is not None else 'absent (the stored dtype is kept)'}")
        ctx.check('R06.3', ok_tr, "the centres of a coordinate are read in (y_dimension, x_dimension) order: the coordinate is transposed to those names before its values are taken "
                  "(latitude(y, x) with longitude(x, y) would otherwise pair the latitudes of one cell with the longitudes of another)", b2, tr or b2.node,
                  construct=f"values read without the transposition: {[norm_text(n) for n in reads] or 'none'}; transposition: {norm_text(tr) if tr is not None else 'absent'}")
        val = it2.returns[0][1] if it2.returns else None
        ok_shape = ok_nb = ok_gray = False
        detail = 'no DataArray returned'
        corners = []
        if isinstance(val, DataArrayVal) and isinstance(val.data, Arr):
            a = val.data
            detail = f"shape {a.show()}"
            if a.ndim == 3 and a.axes[0].size == Y and a.axes[1].size == X and a.axes[2].size == const(4):
                ok_shape = True
                ok_nb = True
                for c in range(4):
                    offs = set()
                    for lf in leaves(fix(a.body, a.axes[2].key, c)):
                        if lf.src != 'cv':
                            continue
                        offs.add((offset_of(lf.index[0], a.axes[0].key), offset_of(lf.index[1], a.axes[1].key)))
                    if len(offs) != 4 or any(o[0] is None or o[1] is None for o in offs):
                        ok_nb = False
                        corners.append(None)
                        continue
                    dy, dx = max(o[0] for o in offs), max(o[1] for o in offs)
                    if offs != {(dy - i, dx - j) for i in (0, 1) for j in (0, 1)}:
                        ok_nb = False
                    corners.append((dx, dy))
                ok_gray = all(cn is not None for cn in corners) and gray_cycle([cn for cn in corners])
        elif isinstance(val, DataArrayVal) and isinstance(val.data, Top):
            detail = val.data.why
        ctx.check('R06.3', ok_shape, "synthesised 2-D bounds have shape (y, x, 4)", b2, it2.returns[0][0] if it2.returns else b2.node,
                  construct=f"2-D bounds: {detail}")
        ctx.check('R06.3', ok_nb, "each corner is the mean of exactly the four cell centres around it", b2, b2.node,
                  construct=f"2-D bounds: corner neighbourhoods complete={ok_nb}")
        ctx.check('R06.1', ok_gray, "the four synthesised corners walk round the cell", b2, b2.node, construct=f"2-D synthesised corner picks (dx, dy) = {corners}")
        dims_ok = isinstance(val, DataArrayVal) and val.dims is not None and [norm_text(d) for d in val.dims[:2]] == ['self.y_dimension', 'self.x_dimension']
        ctx.check('R06.3', dims_ok, "synthesised 2-D bounds are on (y_dimension, x_dimension)", b2, b2.node,
                  construct=f"dims = {[norm_text(d) for d in val.dims] if isinstance(val, DataArrayVal) and val.dims else '?'}")
        pads = _pad_calls(ctx, b2)
        ctx.need('R06.3', len(pads) >= 3, "the 2-D synthesis pads the centre array", b2)
        for c in pads:
            cvv = kwarg(c, 'constant_values')
            arg = flow2.resolve(c.args[0])
            is_mask = flow2.reaches(c.args[0], lambda n: isinstance(n, ast.Call) and callee(ctx, b2, n) == 'numpy.isnan')
            if is_mask:
                ok = cvv is not None and const_value(cvv, None) is False
                ctx.check('R06.3', ok, "the missing-centre mask is padded with False: outside the grid is not a missing cell", b2, c,
                          construct=f"pad of the nan mask: constant_values={norm_text(cvv) if cvv is not None else 'default'}")
            else:
                ok = cvv is not None and norm_text(cvv).endswith('nan')
                ctx.check('R06.3', ok, "centre values are padded with NaN so that the mean ignores the outside", b2, c,
                          construct=f"pad of the centre values: constant_values={norm_text(cvv) if cvv is not None else 'default'}")
        means = [c for c in calls_in(b2, nested=True) if (callee(ctx, b2, c) or '').startswith('numpy.') and (callee(ctx, b2, c) or '').endswith('mean')]
        ok = len(means) == 1 and callee(ctx, b2, means[0]) == 'numpy.nanmean'
        ctx.check('R06.3', ok, "corners are a nanmean (missing neighbours are ignored, not propagated)", b2, means[0] if means else b2.node,
                  construct=f"mean: {callee(ctx, b2, means[0]) if means else 'absent'}")
        # sandwiched cells and cells with nan corners
        from ..pattern import Matcher
        # NaN is stored into the centres / the bounds through boolean masks.  What matters is the set of masks, however they are
        # combined (one `a | b` index, or one statement per mask) and whatever the intermediate names are: every mask is
        # spelled out (locals expanded) and taken apart at `|`.
        from .common import expand_locals

        def spelled(e):
            try:
                return expand_locals(flow2, e, depth=8)
            except Exception:
                return e

        def leaves_of(e):
            e = spelled(e)
            while isinstance(e, ast.Call) and (dotted(e.func) or '').rsplit('.', 1)[-1] == 'cast' and len(e.args) == 2:
                e = spelled(e.args[1])
            if isinstance(e, ast.BinOp) and isinstance(e.op, ast.BitOr):
                return leaves_of(e.left) + leaves_of(e.right)
            return [e]

        def nan_stores(array_name):
            out = []
            for n in walk_no_nested(b2.node):
                if isinstance(n, ast.Assign) and len(n.targets) == 1 and isinstance(n.targets[0], ast.Subscript) and isinstance(n.targets[0].value, ast.Name) \
                        and n.targets[0].value.id == array_name and norm_text(n.value).endswith('nan'):
                    out.append(n)
            return out
        vals_name = m2.name('vals') if conv is not None else None
        centre_src = norm_text(spelled(conv.value)) if conv is not None else '?'
        NANM = f"numpy.isnan({centre_src})"

        def canon_mask(e):
            """Text of a mask with the slices normalised (`x[:-2]` == `x[:-2, :]`)."""
            t = norm_text(e).replace(' ', '')
            return t.replace('[:-2]', '[:-2,:]').replace('[2:]', '[2:,:]')
        JP = f"numpy.pad({NANM},((1,1),(0,0)),constant_values=False)".replace(' ', '')
        IP = f"numpy.pad({NANM},((0,0),(1,1)),constant_values=False)".replace(' ', '')
        want_sand = {f"{JP}[:-2,:]&{JP}[2:,:]", f"{IP}[:,:-2]&{IP}[:,2:]"}
        alt_sand = {f"{JP}[2:,:]&{JP}[:-2,:]", f"{IP}[:,2:]&{IP}[:,:-2]"}
        sand_stores = nan_stores(vals_name) if vals_name else []
        got_sand = set()
        for st_ in sand_stores:
            for lf in leaves_of(st_.targets[0].slice):
                t_ = canon_mask(lf).replace(NANM.replace(' ', ''), NANM.replace(' ', ''))
                got_sand.add(t_)
        norm_sand = {x if x in want_sand else {a: w for a, w in zip(sorted(alt_sand), sorted(want_sand))}.get(x, x) for x in got_sand}
        ok = bool(sand_stores) and norm_sand == want_sand
        sand_st = sand_stores[0] if sand_stores else None
        ctx.check('R06.3', ok, "only a centre with missing neighbours on both sides of an axis is discarded (exactly the two sandwich masks, one per axis, built from the missing-centre mask padded with False)", b2,
                  sand_st or b2.node, construct=f"masks stored as NaN into the centres: {sorted(x[-60:] for x in got_sand) or 'none'}")
        # blanking of the bounds
        bounds_name = None
        for n in walk_no_nested(b2.node):
            if isinstance(n, ast.Assign) and isinstance(n.value, ast.Call) and callee(ctx, b2, n.value) == 'numpy.stack' and isinstance(n.targets[0], ast.Name):
                bounds_name = n.targets[0].id
        b_stores = nan_stores(bounds_name) if bounds_name else []
        got_b = set()
        for st_ in b_stores:
            for lf in leaves_of(st_.targets[0].slice):
                got_b.add(norm_text(lf).replace(' ', ''))
        any_nan = {f"numpy.isnan({bounds_name}).any(axis=2)", f"numpy.isnan({bounds_name}).any(axis=-1)"}
        # the missing-centre mask must be the one taken BEFORE the sandwiched centres were discarded (it is: isnan of the converted values,
        # computed by a statement that precedes the first NaN store) - any `name = numpy.isnan(vals)` defined before that store qualifies
        own_masks = set()
        first_store = min((st_.lineno for st_ in sand_stores), default=10 ** 9)
        for n in walk_no_nested(b2.node):
            if isinstance(n, ast.Assign) and isinstance(n.targets[0], ast.Name) and isinstance(n.value, ast.Call) and callee(ctx, b2, n.value) == 'numpy.isnan' \
                    and len(n.value.args) == 1 and isinstance(n.value.args[0], ast.Name) and n.value.args[0].id == vals_name and n.lineno < first_store:
                own_masks.add(n.targets[0].id)
        raw_b = set()
        for st_ in b_stores:
            def raw_leaves(e):
                if isinstance(e, ast.BinOp) and isinstance(e.op, ast.BitOr):
                    return raw_leaves(e.left) + raw_leaves(e.right)
                if isinstance(e, ast.Name) and e.id not in own_masks:
                    d_ = flow2.single_def(e)
                    if d_ is not None and d_.kind == 'assign' and d_.value is not None:
                        return raw_leaves(d_.value)
                return [e]
            raw_b |= {norm_text(x).replace(' ', '') for x in raw_leaves(st_.targets[0].slice)}
        has_any = bool(raw_b & any_nan)
        own = bool(raw_b & own_masks)
        extra_b = raw_b - any_nan - own_masks
        blank = b_stores[0] if b_stores else None
        ctx.check('R06.3', has_any and not extra_b, "a cell with any missing corner gets no polygon (all four corners blanked), and no other cell is blanked", b2, blank or b2.node,
                  construct=f"masks stored as NaN into the bounds: {sorted(raw_b) or 'none'}")
        ctx.check('R06.3', has_any and own, "a cell whose own centre is missing gets no polygon either: its corners are means of the neighbours' centres, "
                  "finite for a lone missing cell or a line of them one cell wide", b2, blank or b2.node,
                  construct=f"blanking covers the missing-centre mask: {own} (masks {sorted(raw_b)})")
        # make_polygons_with_holes skips rows with a non finite coordinate (R02.3 checks the pairing)

    # ------------------------------------------------------------------ R06.4 lookup namespace
    with ctx.section('R06.4 lookup namespace'):
        topo_classes = [f"{GRID}.CFGrid1DTopology", f"{GRID}.CFGrid2DTopology", f"{GRID}.CFGridTopology", f"{UGRID}.Mesh2DTopology",
                        f"{ARAKAWA}.ArakawaCGridTopology"]
        n_sites = 0
        for cq in topo_classes:
            ci = p.cls(cq)
            for fi in ci.methods.values():
                flow = ctx.flow(fi)
                for node in ast.walk(fi.node):
                    if not (isinstance(node, ast.Subscript) and isinstance(node.ctx, ast.Load)):
                        continue
                    v = node.value
                    ns = None
                    if isinstance(v, ast.Attribute) and v.attr in (PARTIAL_NS | DATASET_WIDE) and norm_text(v.value) in ('self.dataset', 'dataset'):
                        ns = v.attr
                    elif norm_text(v) in ('self.dataset', 'dataset'):
                        ns = 'dataset'
                    if ns is None:
                        continue
                    key = flow.resolve(node.slice)
                    kt = norm_text(key)
                    named_by_attr = ("attrs['bounds']" in kt or "attrs.get('bounds'" in kt or '_coordinates[' in kt
                                     or kt.endswith('longitude_name') or kt.endswith('latitude_name'))
                    if not named_by_attr:
                        continue
                    n_sites += 1
                    ctx.check('R06.4', ns in ({'dataset'} | DATASET_WIDE), "coordinate / bounds variables are looked up dataset-wide", fi, node,
                              construct=f"{fi.short}: {norm_text(node)}", detail=f"namespace `{ns}` does not contain variables promoted to coordinates" if ns in PARTIAL_NS else '')

    # ------------------------------------------------------------------ R06.5 optional attributes in scans
    with ctx.section('R06.5 optional attributes in scans'):
        scans = []
        for fi in p.functions.values():
            if not fi.qualname.startswith('emsarray.conventions.') or fi.parent is not None:
                continue
            for node in ast.walk(fi.node):
                if isinstance(node, (ast.GeneratorExp, ast.ListComp)) and len(node.generators) == 1:
                    it_txt = norm_text(node.generators[0].iter)
                    if any(it_txt.endswith(s) for s in ('.variables.items()', '.data_vars.items()', '.data_vars.values()', '.variables.values()', '.coords.items()',
                                                        '.variables', '.variables.keys()', '.data_vars', '.data_vars.keys()')):
                        scans.append((fi, node))
        for fi, node in scans:
            bad = []
            for sub in ast.walk(node):
                if isinstance(sub, ast.Subscript) and isinstance(sub.value, ast.Attribute) and sub.value.attr == 'attrs' \
                        and isinstance(sub.slice, ast.Constant) and isinstance(sub.ctx, ast.Load):
                    key = sub.slice.value
                    guarded = any(isinstance(t, ast.Compare) and isinstance(t.ops[0], ast.In) and const_value(t.left, None) == key
                                  and norm_text(t.comparators[0]) == norm_text(sub.value) for t in ast.walk(node))
                    in_try = any(isinstance(t, ast.Try) and any(x is node for b in t.body for x in ast.walk(b))
                                 and any(h.type is None or 'KeyError' in norm_text(h.type) or 'LookupError' in norm_text(h.type) or norm_text(h.type) == 'Exception'
                                         for h in t.handlers) for t in ast.walk(fi.node))
                    if not guarded and not in_try:
                        bad.append(norm_text(sub))
            ctx.check('R06.5', not bad, "a scan over all variables never subscripts an attribute that some variables lack", fi, node,
                      construct=f"{fi.short}: scan over {norm_text(node.generators[0].iter)}: " + (f"unguarded {bad}" if bad else 'attributes read with .get / guarded'))

    # ------------------------------------------------------------------ R06.6 validity filter
    with ctx.section('R06.6 validity filter'):
        pg = ctx.func(f"{BASE}.polygons")
        flow = ctx.flow(pg)
        cfg = ctx.cfg(pg)
        mk = [c for c in method_calls(pg, '_make_polygons') if flow.canon(c.func.value) == ('param', 'self')]
        ctx.need('R06.6', len(mk) == 1, "Convention.polygons calls self._make_polygons() once", pg)
        valid = [c for c in calls_in(pg) if callee(ctx, pg, c) == 'shapely.is_valid']
        ctx.need('R06.6', len(valid) == 1, "Convention.polygons tests validity with shapely.is_valid", pg)
        ok = len(valid[0].args) == 1 and flow.resolve(valid[0].args[0]) is mk[0]
        ctx.check('R06.6', ok, "validity is tested on the full polygon array (positions are linear indexes)", pg, valid[0],
                  construct=f"shapely.is_valid({norm_text(valid[0].args[0]) if valid[0].args else ''})")
        stores = [n for n in walk_no_nested(pg.node) if isinstance(n, ast.Assign) and isinstance(n.targets[0], ast.Subscript)
                  and flow.resolve(n.targets[0].value) is mk[0]]
        ok_store = False
        idx_expr = None
        for s in stores:
            if is_none(s.value):
                idx_expr = flow.resolve(s.targets[0].slice)
                ok_store = True
        ctx.check('R06.6', ok_store, "invalid polygons are replaced by None in place", pg, stores[0] if stores else pg.node)
        ok_idx = False
        detail = ''
        cond = None
        if isinstance(idx_expr, ast.Call) and callee(ctx, pg, idx_expr) == 'numpy.flatnonzero' and idx_expr.args:
            cond = idx_expr.args[0]
        elif isinstance(idx_expr, (ast.BinOp, ast.UnaryOp, ast.Compare)):
            cond = idx_expr         # the boolean array itself selects the positions
        if cond is not None:
            # every array operand of the condition is aligned with the full array: no compressed / subscripted polygons
            subs = [n for n, _ in flow.expand(cond) if isinstance(n, ast.Subscript) and flow.reaches(n.value, lambda m: m is mk[0])]
            inv = [n for n, _ in flow.expand(cond) if isinstance(n, ast.UnaryOp) and isinstance(n.op, ast.Invert)
                   and flow.reaches(n.operand, lambda m: m is valid[0])]
            nn = flow.reaches(cond, lambda n: isinstance(n, ast.Compare) and isinstance(n.ops[0], (ast.NotEq, ast.IsNot)) and is_none(n.comparators[0]))
            ok_idx = not subs and bool(inv) and nn
            if not ok_idx and not subs:
                # the same condition with the negation outside: ~(is_missing(p) | is_valid(p)) and the like
                from .common import array_conjuncts
                cj = array_conjuncts(flow, cond)
                not_valid = any(neg and x is valid[0] for x, neg in cj)
                has_geom = any((neg and isinstance(x, ast.Call) and callee(ctx, pg, x) == 'shapely.is_missing' and len(x.args) == 1 and flow.resolve(x.args[0]) is mk[0])
                               or (not neg and isinstance(x, ast.Compare) and len(x.ops) == 1 and isinstance(x.ops[0], ast.NotEq) and is_none(x.comparators[0]) and flow.resolve(x.left) is mk[0])
                               or (neg and isinstance(x, ast.Compare) and len(x.ops) == 1 and isinstance(x.ops[0], ast.Eq) and is_none(x.comparators[0]) and flow.resolve(x.left) is mk[0])
                               for x, neg in cj)
                ok_idx = not_valid and has_geom
            detail = f"condition {norm_text(flow.resolve(cond))}"
        ctx.check('R06.6', ok_idx, "the positions replaced are flatnonzero(<not None> & ~is_valid(<full array>))", pg, stores[0] if stores else pg.node,
                  construct=f"invalid positions: {detail or norm_text(idx_expr) if idx_expr is not None else 'absent'}")
        warns = [c for c in calls_in(pg) if callee(ctx, pg, c) == 'warnings.warn']
        ok = any(norm_text(kwarg(c, 'category') or (c.args[1] if len(c.args) > 1 else ast.Constant(None))) == 'InvalidPolygonWarning' for c in warns)
        ctx.check('R06.6', ok, "dropping a polygon raises an InvalidPolygonWarning", pg, warns[0] if warns else pg.node)
        rets = pg.returns()
        filt = [n for n in walk_no_nested(pg.node) if isinstance(n, ast.If) and any(s in stores for s in n.body)]
        ok = bool(rets) and bool(filt) and all(cfg.dominates(filt[0], r) for r in rets) and all(flow.resolve(r.value) is mk[0] for r in rets)
        t = emptiness = None
        if filt:
            from .common import emptiness_test
            t = emptiness_test(flow, filt[0].test)
            guard_ok = t is not None and t[0] == 'nonempty' and flow.canon(t[1]) == flow.canon(stores[0].targets[0].slice)
            # `<boolean array>.any()` / numpy.any(<boolean array>): some position is selected.  Of an array of *positions*
            # (flatnonzero, where) `.any()` asks whether some position is not 0: the cell at index 0 alone would be let through.
            g_ = filt[0].test
            boolean_selection = isinstance(idx_expr, (ast.BinOp, ast.UnaryOp, ast.Compare))
            if not boolean_selection and isinstance(g_, ast.Call) and ((isinstance(g_.func, ast.Attribute) and g_.func.attr == 'any') or callee(ctx, pg, g_) == 'numpy.any'):
                g_ = ast.Constant(value=None)
            if isinstance(g_, ast.Call) and isinstance(g_.func, ast.Attribute) and g_.func.attr == 'any' and not g_.args and flow.canon(g_.func.value) == flow.canon(stores[0].targets[0].slice):
                guard_ok = True
            if isinstance(g_, ast.Call) and callee(ctx, pg, g_) == 'numpy.any' and len(g_.args) == 1 and flow.canon(g_.args[0]) == flow.canon(stores[0].targets[0].slice):
                guard_ok = True
            ok = ok and guard_ok
        ctx.check('R06.6', ok, "every path from _make_polygons() to the return passes the validity filter, applied whenever any polygon is invalid", pg,
                  rets[0] if rets else pg.node, construct=f"filter guard: {norm_text(filt[0].test) if filt else 'absent'}")
        ro = [n for n in walk_no_nested(pg.node) if isinstance(n, ast.Assign) and norm_text(n.targets[0]).endswith('.flags.writeable')
              and const_value(n.value, None) is False and flow.resolve(n.targets[0].value.value) is mk[0]]
        ok = len(ro) == 1 and all(cfg.dominates(ro[0], r) for r in rets)
        ctx.check('R06.6', ok, "the published array is read-only", pg, ro[0] if ro else pg.node)

    # ------------------------------------------------------------------ R06.7 extent
    with ctx.section('R06.7 extent'):
        # UGRID and the CF grids: the bounding box of the polygons that exist.  All nodes would count nodes no face uses; the raw
        # coordinate bounds would count cells that have no polygon (missing latitude bounds with stored longitude bounds, a
        # self-intersecting cell dropped with a warning): the extent would differ from the bounds of the geometry.
        from ..pattern import Matcher
        for qual in (f"{UGRID}.UGrid.bounds", f"{GRID}.CFGrid.bounds"):
            ub = ctx.func(qual)
            uflow = ctx.flow(ub)
            mu = Matcher(ctx, ub)
            # shapely.total_bounds skips missing geometries: polygons and polygons[mask] have the same bounding box
            tb = mu.stmt('$a, $b, $c, $d = shapely.total_bounds(self.polygons[self.mask])') or mu.stmt('$a, $b, $c, $d = shapely.total_bounds(self.polygons)')
            ok = tb is not None and bool(ub.returns()) and all(mu.match('return ($a, $b, $c, $d)', r, commit=False) for r in ub.returns())
            if not ok:
                ok = bool(ub.returns()) and all(any(mu.match(pat, uflow.resolve(r.value), commit=False) for pat in (
                    'tuple(shapely.total_bounds(self.polygons[self.mask]))', 'cast($t, tuple(shapely.total_bounds(self.polygons[self.mask])))',
                    'tuple(shapely.total_bounds(self.polygons))', 'cast($t, tuple(shapely.total_bounds(self.polygons)))')) for r in ub.returns())
            ctx.check('R06.7', bool(ok), "the extent is shapely.total_bounds of polygons[mask], slots in (min x, min y, max x, max y) order: only cells with a polygon count", ub,
                      tb or ub.node, construct=f"{ub.short} = {norm_text(ub.returns()[0].value) if ub.returns() else '?'}")
            for _k in range(3):
                ctx.check('R06.7', bool(ok), "(slot of the extent, see above)", ub, tb or ub.node, construct=f"{ub.short} slot {_k + 1}")
        g = ctx.func(f"{BASE}.geometry")
        ok = all(norm_text(r.value) == 'shapely.unary_union(self.polygons[self.mask])' for r in g.returns()) and g.returns()
        ctx.check('R06.7', bool(ok), "the generic geometry is the union of the polygons that exist", g, g.node)
        b = ctx.func(f"{BASE}.bounds")
        ok = all('self.geometry.bounds' in norm_text(r.value) for r in b.returns()) and b.returns()
        ctx.check('R06.7', bool(ok), "the generic bounds are the bounds of that geometry", b, b.node)
        g1d = ctx.func(f"{GRID}.CFGrid1D.geometry")
        ok = all(norm_text(r.value) == 'box(*self.bounds)' for r in g1d.returns()) and g1d.returns()
        ctx.check('R06.7', bool(ok), "the CF 1-D geometry is the box of its bounds (cells tile the rectangle)", g1d, g1d.node)
        m = ctx.func(f"{BASE}.mask")
        from .common import polygons_mask_ok
        ok, how = polygons_mask_ok(ctx, m)
        ctx.check('R06.6', ok, "the validity mask is derived from the published polygons", m, m.node, construct=f"Convention.mask: {how}")



# --------------------------------------------------------------------------- checker self-test
from ..variants import V  # noqa: E402

_G = 'src/emsarray/conventions/grid.py'
_A = 'src/emsarray/conventions/arakawa_c.py'
_U = 'src/emsarray/conventions/ugrid.py'
_B = 'src/emsarray/conventions/_base.py'
_S = 'src/emsarray/conventions/shoc.py'
VARIANTS = [
    V('C06', 'arakawa-latitude-from-the-x-name', 'src/emsarray/conventions/arakawa_c.py', "                latitude=coords[0],\n                longitude=coords[1],", "                latitude=coords[1],\n                longitude=coords[0],", 'R06.12'),
    V('C06', 'latitude-reads-longitude-name', 'src/emsarray/conventions/grid.py', "        return self.dataset[self.latitude_name]", "        return self.dataset[self.longitude_name]", 'R06.12'),
    V('C06', 'arakawa-left-grid-is-back-grid', 'src/emsarray/conventions/arakawa_c.py', "        return self._topology_for_grid_kind[ArakawaCGridKind.left]", "        return self._topology_for_grid_kind[ArakawaCGridKind.back]", 'R06.12'),
    V('C06', 'arakawa-inventory-names-left-longitude-twice', 'src/emsarray/conventions/arakawa_c.py', "            self.left.latitude.name,", "            self.left.longitude.name,", 'R06.12'),
    V('C06', 'longitude-units-test-inverted', 'src/emsarray/conventions/grid.py', "                    variable.attrs.get('units') in CF_LONGITUDE_UNITS", "                    variable.attrs.get('units') not in CF_LONGITUDE_UNITS", 'R06.11'),
    V('C06', 'latitude-needs-all-markers', 'src/emsarray/conventions/grid.py', "                    variable.attrs.get('units') in CF_LATITUDE_UNITS\n                    or variable.attrs.get('standard_name') == 'latitude'", "                    variable.attrs.get('units') in CF_LATITUDE_UNITS\n                    and variable.attrs.get('standard_name') == 'latitude'", 'R06.11'),
    V('C06', 'latitude-axis-x', 'src/emsarray/conventions/grid.py', "                    or variable.attrs.get('axis') == 'Y'", "                    or variable.attrs.get('axis') == 'X'", 'R06.11'),
    V('C06', 'cf-unit-spelling-lost', 'src/emsarray/conventions/grid.py', "    'degrees_north', 'degree_north', 'degree_N', 'degrees_N',", "    'degrees_north', 'degree_north', 'degrees_N',", 'R06.11'),
    V('C06', 'cf2d-centres-in-storage-order', _G, "        coordinate = coordinate.transpose(self.y_dimension, self.x_dimension)\n", "", 'R06.3'),
    V('C06', 'cf2d-centres-keep-integer-dtype', _G, "        coordinate_values = coordinate.values.astype(numpy.double)", "        coordinate_values = coordinate.values.copy()", 'R06.3'),
    V('C06', 'cf2d-missing-cell-keeps-polygon', _G, "        cells_with_nans = numpy.isnan(bounds).any(axis=2) | nan_coordinates", "        cells_with_nans = numpy.isnan(bounds).any(axis=2)", 'R06.3'),
    V('C06', 'mesh-bounds-over-all-nodes', 'src/emsarray/conventions/ugrid.py', "        min_x, min_y, max_x, max_y = shapely.total_bounds(self.polygons[self.mask])\n", "        topology = self.topology\n        min_x, max_x = numpy.nanmin(topology.node_x), numpy.nanmax(topology.node_x)\n        min_y, max_y = numpy.nanmin(topology.node_y), numpy.nanmax(topology.node_y)\n", 'R06.7'),
    V('C06', 'cf1d-bowtie', _G, "            lon_bounds[:, 0],\n            lon_bounds[:, 1],\n            lon_bounds[:, 1],\n            lon_bounds[:, 0],", "            lon_bounds[:, 0],\n            lon_bounds[:, 1],\n            lon_bounds[:, 0],\n            lon_bounds[:, 1],", 'R06.1'),
    V('C06', 'arakawa-bowtie', _A, "            grid[:-1, +1:],\n            grid[+1:, +1:],\n            grid[+1:, :-1],", "            grid[:-1, +1:],\n            grid[+1:, :-1],\n            grid[+1:, +1:],", 'R06.1'),
    V('C06', 'cf2d-synth-bowtie', _G, "            grid[:-1, :-1], grid[:-1, 1:], grid[1:, 1:], grid[1:, :-1],", "            grid[:-1, :-1], grid[:-1, 1:], grid[1:, :-1], grid[1:, 1:],", 'R06.1'),
    V('C06', 'cf1d-lonlat-swapped', _G, "        points = numpy.stack([lon_bounds_2d, lat_bounds_2d], axis=-1).reshape((-1, 4, 2))\n\n        polygons", "        points = numpy.stack([lat_bounds_2d, lon_bounds_2d], axis=-1).reshape((-1, 4, 2))\n\n        polygons", 'R06.2'),
    V('C06', 'ugrid-xy-swapped', _U, "            coords = numpy.stack([node_x[nodes], node_y[nodes]], axis=-1)", "            coords = numpy.stack([node_y[nodes], node_x[nodes]], axis=-1)", 'R06.2'),
    V('C06', 'midpoints-same-column', _G, "            numpy.stack([mid_points[:-1], mid_points[1:]], axis=-1),", "            numpy.stack([mid_points[1:], mid_points[1:]], axis=-1),", 'R06.3'),
    V('C06', 'midpoint-end-not-extended', _G, "            [values[-1] + last_gap / 2]", "            [values[-1]]", 'R06.3'),
    V('C06', 'mask-pad-true', _G, "        j_pad = numpy.pad(nan_coordinates, ((1, 1), (0, 0)), constant_values=False)", "        j_pad = numpy.pad(nan_coordinates, ((1, 1), (0, 0)), constant_values=True)", 'R06.3'),
    V('C06', 'corner-three-neighbours', _G, "                for pad in itertools.product([(1, 0), (0, 1)], [(1, 0), (0, 1)])", "                for pad in list(itertools.product([(1, 0), (0, 1)], [(1, 0), (0, 1)]))[:3]", 'R06.3'),
    V('C06', 'blank-only-all-nan', _G, "        cells_with_nans = numpy.isnan(bounds).any(axis=2)", "        cells_with_nans = numpy.isnan(bounds).all(axis=2)", 'R06.3'),
    V('C06', 'bounds-guard-loosened', _G, "                len(bounds.dims) == 2\n                and bounds.dims[0] == coordinate.dims[0]\n                and self.dataset.sizes[bounds.dims[1]] == 2", "                len(bounds.dims) == 2\n                and self.dataset.sizes[bounds.dims[1]] == 2", 'R06.3'),
    V('C06', 'data-vars-reintroduced', _G, "            bounds = self.dataset[coordinate.attrs['bounds']]\n            if (\n                len(bounds.dims) == 2", "            bounds = self.dataset.data_vars[coordinate.attrs['bounds']]\n            if (\n                len(bounds.dims) == 2", 'R06.4'),
    V('C06', 'node-x-data-vars', _U, "        return self.dataset[self._node_coordinates[0]]", "        return self.dataset.data_vars[self._node_coordinates[0]]", 'R06.4'),
    V('C06', 'shoc-unguarded-attr', _S, "                and variable.attrs.get(\"standard_name\") == \"latitude\"", "                and variable.attrs[\"standard_name\"] == \"latitude\"", 'R06.5'),
    V('C06', 'invalid-indices-compressed', _B, "        invalid_polygon_indices = numpy.flatnonzero(not_none & ~shapely.is_valid(polygons))", "        invalid_polygon_indices = numpy.flatnonzero(~shapely.is_valid(polygons[not_none]))", 'R06.6'),
    V('C06', 'filter-bypassed', _B, "        polygons = self._make_polygons()\n\n        not_none", "        polygons = self._make_polygons()\n        if polygons.size > 100000:\n            return polygons\n\n        not_none", 'R06.6'),
    V('C06', 'invalid-positions-any', _B, "        if len(invalid_polygon_indices):\n", "        if invalid_polygon_indices.any():\n", 'R06.6', note='position 0 is falsy'),
    V('C06', 'invalid-kept', _B, "            polygons[invalid_polygon_indices] = None\n", "", 'R06.6'),
    V('C06', 'extent-slots-permuted', _G, "        return (min_x, min_y, max_x, max_y)", "        return (min_x, max_x, min_y, max_y)", 'R06.7'),
    V('C06', 'grid-extent-from-raw-bounds', _G, "        min_x, min_y, max_x, max_y = shapely.total_bounds(self.polygons[self.mask])\n", "        topology = self.topology\n        min_x, max_x = numpy.nanmin(topology.longitude_bounds), numpy.nanmax(topology.longitude_bounds)\n        min_y, max_y = numpy.nanmin(topology.latitude_bounds), numpy.nanmax(topology.latitude_bounds)\n", 'R06.7'),
    V('C06', 'grid-extent-over-all-polygons', _G, "        min_x, min_y, max_x, max_y = shapely.total_bounds(self.polygons[self.mask])\n", "        min_x, min_y, max_x, max_y = shapely.total_bounds(self.polygons)\n", None, note='total_bounds ignores missing geometries: the same extent'),
    V('C06', 'ugrid-extent-slots-swapped', _U, "        min_x, min_y, max_x, max_y = shapely.total_bounds(self.polygons[self.mask])", "        min_x, max_x, min_y, max_y = shapely.total_bounds(self.polygons[self.mask])", 'R06.7'),
    # benign
    V('C06', 'benign-cf1d-other-orientation', _G, "            lon_bounds[:, 0],\n            lon_bounds[:, 1],\n            lon_bounds[:, 1],\n            lon_bounds[:, 0],\n        ], axis=-1)", "            lon_bounds[:, 0],\n            lon_bounds[:, 0],\n            lon_bounds[:, 1],\n            lon_bounds[:, 1],\n        ], axis=-1)", None, note='together with the latitude picks below this is still a cycle? no - handled by the next variant'),
]
VARIANTS = [v for v in VARIANTS if v.name != 'benign-cf1d-other-orientation']
