"""C19 - plot artists pair every value with its own cell."""
from __future__ import annotations

import ast

from ..cfg import stmt_of
from ..model import AnalysisError, const_value, dotted, kwarg, norm_text, walk_no_nested
from ..report import Context
from .common import calls_in, callee, enclosing_ifs, is_none, method_calls

BASE = 'emsarray.conventions._base.Convention'
PLOT = 'emsarray.plot'



from .common import on_cells_only as _on_cells_only  # noqa: E402

def run(ctx: Context) -> None:
    p = ctx.p
    ctx.rule('R19.1', "make_poly_collection: values are ravel(variable)[mask] and patches are polygons[mask] with the same self.mask; default colour limits are nanmin/nanmax of those masked values; leftover dimensions and array+data_array are refused before any artist is built", floor=8)
    ctx.rule('R19.2', "polygons_to_collection builds one vertex array per polygon, in iteration order, from its exterior ring", floor=2)
    ctx.rule('R19.3', "make_quiver: arrow positions are the (x, y) columns of face_centres, components are ravel(u), ravel(v) after checking equal dimensions and refusing leftover dimensions", floor=6)
    ctx.rule('R19.4', "animate_on_figure: frames are ravel(scalar)[:, mask] with the convention's mask on the last axis, limits come from those values, and frame k sets exactly row k", floor=4)
    ctx.rule('R19.5', "ravel gives linear index order whatever the variable's own dimension order: the flattened dimensions are the convention's grid_dimensions[kind] (shared with C03)", floor=1)
    from .common import adopt_foundations as _adopt
    _adopt(ctx, 'R19.6', ['geometry', 'order'], floor=60)
    ctx.rule('R19.8', "what the caller gave (a variable or its name, a coordinate, a projection, a title) is what is drawn: defaults are substituted only where nothing was given, names are looked up only where something was", floor=6)
    with ctx.section('R19.8'):
        from . import infra as _infra198
        _infra198.keyword_overrides_kept(ctx, 'R19.8', ['emsarray.conventions._base.Convention.make_poly_collection', 'emsarray.conventions._base.Convention.make_quiver'],
                                         ['array', 'clim', 'transform'], required=['transform'])
        # an array handed in instead of a name is checked against the dataset before it is drawn on the dataset's cells
        _CD = 'emsarray.utils.check_data_array_dimensions_match'
        _infra198.refuses_only_when(ctx, 'R19.8', _CD, 'Dimension mismatch between dataset and data array', [('data_array_size == dataset_size', False), ('data_array_size != dataset_size', True)],
                                    "an array whose size along a dimension differs from the dataset's is refused - and only such an array")
        _infra198.refuses_only_when(ctx, 'R19.8', _CD, 'Dataset does not have dimension', [('dimension in dataset.dims', False), ('dimension in dataset.sizes', False), ('dimension not in dataset.dims', True)],
                                    "an array on a dimension the dataset does not have is refused")
        _infra198.none_default_discipline(ctx, 'R19.8', [_CD])
        _nd = ctx.func('emsarray.utils.name_to_data_array')
        _calls = [c for c in calls_in(_nd) if callee(ctx, _nd, c) == _CD]
        ctx.check('R19.8', len(_calls) == 1 and len(_calls[0].args) == 2 and [norm_text(a) for a in _calls[0].args] == [_nd.params[0], _nd.params[1]],
                  "name_to_data_array checks an array it is handed against the dataset it is handed", _nd, _calls[0] if _calls else _nd.node,
                  construct=f"{norm_text(_calls[0]) if _calls else 'no check'}")
        _AF = 'emsarray.conventions._base.Convention.animate_on_figure'
        _infra198.refuses_only_when(ctx, 'R19.8', _AF, 'Coordinate variable must be one dimensional', [('len(coordinate.dims) == 1', False), ('len(coordinate.dims) != 1', True), ('coordinate.ndim == 1', False), ('coordinate.ndim != 1', True)],
                                    "an animation runs along a one dimensional coordinate: any other is refused")
        _infra198.refuses_only_when(ctx, 'R19.8', _AF, 'Scalar dimensions do not match', [('coordinate_dim in scalar.dims', False), ('coordinate_dim not in scalar.dims', True), ('coordinate.dims[0] in scalar.dims', False)],
                                    "a scalar that does not have the animated dimension is refused instead of being drawn frame by frame along an axis it lacks")
        _infra198.refuses_only_when(ctx, 'R19.8', _AF, 'Vector dimensions do not match', [('all((coordinate_dim in component.dims for component in vector))', False), ('all((coordinate.dims[0] in component.dims for component in vector))', False)],
                                    "vector components that do not both have the animated dimension are refused")
        _infra198.keyword_overrides_kept(ctx, 'R19.8', [_AF], [], required=['scalar', 'vector'])
        _infra198.none_default_discipline(ctx, 'R19.8', ['emsarray.conventions._base.Convention.make_poly_collection', 'emsarray.conventions._base.Convention.make_quiver', 'emsarray.conventions._base.Convention.animate_on_figure',
                                                         'emsarray.plot.animate_on_figure', 'emsarray.plot.plot_on_figure'])
    ctx.rule('R19.7', "the deprecated alias make_patch_collection is make_poly_collection: the data array and every extra argument are passed on", floor=2)
    with ctx.section('R19.7'):
        from . import infra as _infra7
        _infra7.passes_parameters_on(ctx, 'R19.7', 'emsarray.conventions._base.Convention.make_patch_collection', "make_patch_collection stands for make_poly_collection")
    ctx.assume("matplotlib PolyCollection pairs array[k] with verts[k]; Quiver pairs U[k], V[k] with X[k], Y[k]")

    from ..pattern import Matcher
    from .common import arg_or_kw, guards, positive_conditions
    SELF_POLYS, SELF_MASK = ('attr', ('param', 'self'), 'polygons'), ('attr', ('param', 'self'), 'mask')

    for mp in p.implementations(p.cls(BASE), 'make_poly_collection'):
        flow = ctx.flow(mp)
        rets = mp.returns()
        m = Matcher(ctx, mp)
        dap = mp.params[1]
        pc = [c for c in calls_in(mp) if callee(ctx, mp, c) == f"{PLOT}.polygons_to_collection"]
        ctx.need('R19.1', len(pc) == 1 and pc[0].args, "make_poly_collection builds the artist with polygons_to_collection", mp)
        a0 = flow.resolve(pc[0].args[0])
        ok = (isinstance(a0, ast.Subscript) and flow.canon(a0.value) == SELF_POLYS and flow.canon(a0.slice) == SELF_MASK)
        ctx.check('R19.1', ok, "the patches are self.polygons[self.mask]", mp, pc[0], construct=f"polygons_to_collection({norm_text(a0)}, ...)")
        # the values handed over as `array`
        arr = [n for n in walk_no_nested(mp.node) if isinstance(n, ast.Assign) and isinstance(n.targets[0], ast.Subscript)
               and const_value(n.targets[0].slice, None) == 'array' and isinstance(n.targets[0].value, ast.Name)]
        kw_name = arr[0].targets[0].value.id if arr else None
        ok_arr = len(arr) == 1 and any(k.arg is None and isinstance(k.value, ast.Name) and k.value.id == kw_name for k in pc[0].keywords)
        vals = flow.resolve(arr[0].value) if arr else None
        ravels = [c for c in method_calls(mp, 'ravel') if norm_text(c.func.value) == 'self']
        ok_vals = False
        if isinstance(vals, ast.Subscript) and flow.canon(vals.slice) == SELF_MASK:
            src = flow.resolve(vals.value)
            ok_vals = (isinstance(src, ast.Attribute) and src.attr == 'values' and len(ravels) == 1
                       and flow.reaches(src.value, lambda n: n is ravels[0]))
        ctx.check('R19.1', ok_vals, "the values are the ravelled variable indexed by that same self.mask", mp, arr[0] if arr else mp.node,
                  construct=f"values = {norm_text(vals) if vals is not None else '?'}")
        ctx.check('R19.1', ok_arr and ok_vals, "those values are what the collection receives as `array`", mp, arr[0] if arr else mp.node)
        clim = [n for n in walk_no_nested(mp.node) if isinstance(n, ast.Assign) and isinstance(n.targets[0], ast.Subscript)
                and const_value(n.targets[0].slice, None) == 'clim' and isinstance(n.targets[0].value, ast.Name) and n.targets[0].value.id == kw_name]
        ok = False
        if len(clim) == 1 and arr:
            cv = flow.resolve(clim[0].value)
            if isinstance(cv, ast.Tuple) and len(cv.elts) == 2:
                lo, hi = (flow.resolve(e) for e in cv.elts)
                same = lambda e: flow.canon(e) == flow.canon(arr[0].value) or flow.resolve(e) is vals
                ok = (isinstance(lo, ast.Call) and callee(ctx, mp, lo) == 'numpy.nanmin' and isinstance(hi, ast.Call) and callee(ctx, mp, hi) == 'numpy.nanmax'
                      and len(lo.args) == 1 and len(hi.args) == 1 and same(lo.args[0]) and same(hi.args[0])
                      and (f"'clim' in {kw_name}", False) in guards(mp, clim[0]))
        ctx.check('R19.1', ok, "default colour limits span exactly the plotted (masked) values; a caller's clim is kept", mp, clim[0] if clim else mp.node)
        if clim:
            # the guard has to stand before the nanmin / nanmax calls themselves, wherever their results are kept
            from .common import expand_locals as _x19, facts as _f19
            vtext = norm_text(_x19(flow, arr[0].value)).replace(' ', '')
            forms = {(f"{vtext}.size>0", True), (f"{vtext}.size==0", False), (f"{vtext}.size", True), (f"len({vtext})>0", True), (f"len({vtext})==0", False),
                     (f"{vtext}.size>=1", True), (f"{vtext}.size<1", False)}
            calls_ = [c for c in calls_in(mp) if callee(ctx, mp, c) in ('numpy.nanmin', 'numpy.nanmax')]
            gc = sorted({(t, pol) for c in calls_ for t, pol in _f19(ctx, mp, c)})
            nonempty = bool(calls_) and all(any((t.replace(' ', ''), pol) in forms for t, pol in _f19(ctx, mp, c)) for c in calls_)
            ctx.check('R19.1', nonempty, "the default limits are only computed when something is plotted: nanmin / nanmax raise for the empty array of a dataset where no cell has a polygon "
                      "(which is plotted as an empty collection when no variable is given)", mp, clim[0], construct=f"known at nanmin / nanmax: {gc}"[:400])
        if ravels:
            _on_cells_only(ctx, mp, flow, ravels[0], 'R19.1', "make_poly_collection pairs values with cell polygons")
        ok = len(ravels) == 1 and len(ravels[0].args) == 1 and flow.reaches(ravels[0].args[0], lambda n: isinstance(n, ast.Call) and (callee(ctx, mp, n) or '').endswith('name_to_data_array'))
        ctx.check('R19.1', ok, "the variable (by name or as an array, checked against the dataset) is flattened by the convention's ravel", mp, ravels[0] if ravels else mp.node)
        n2d = [c for c in calls_in(mp) if (callee(ctx, mp, c) or '').endswith('name_to_data_array')]
        given = n2d[0].args[1] if len(n2d) == 1 and len(n2d[0].args) == 2 else None
        alts = set(flow.alternatives(given)) if given is not None else set()
        ctx.check('R19.1', alts == {('param', dap)}, "what is checked against the dataset's grids is the variable as the caller gave it: nothing relabels or reshapes it first "
                  "(a 1-D array that merely has as many entries as there are cells is not cell data)", mp, n2d[0] if n2d else mp.node,
                  construct=f"name_to_data_array receives {sorted(map(str, alts))}")
        raises = [n for n in walk_no_nested(mp.node) if isinstance(n, ast.Raise)]
        dims_guard = []
        for r in raises:
            for t, pol in positive_conditions(mp, r):
                if isinstance(t, ast.Compare) and len(t.ops) == 1 and isinstance(t.ops[0], ast.Gt) and const_value(t.comparators[0], None) == 1 and pol \
                        and isinstance(t.left, ast.Call) and dotted(t.left.func) == 'len' and isinstance(flow.resolve(t.left.args[0]), ast.Attribute) \
                        and flow.resolve(t.left.args[0]).attr == 'dims' and ravels and flow.reaches(flow.resolve(t.left.args[0]).value, lambda n: n is ravels[0]):
                    dims_guard.append(r)
        both_guard = [r for r in raises if (f"'array' in {kw_name}", True) in guards(mp, r)] if kw_name else []
        ok = len(dims_guard) == 1 and bool(arr) and dims_guard[0].lineno < arr[0].lineno
        ctx.check('R19.1', ok, "a variable with leftover non-spatial dimensions is refused after flattening and before values are taken", mp,
                  dims_guard[0] if dims_guard else mp.node, construct='if len(<ravelled>.dims) > 1: raise ValueError')
        ctx.check('R19.1', len(both_guard) == 1, "passing both data_array and array is refused", mp, both_guard[0] if both_guard else mp.node)
        ok = bool(rets) and all(flow.resolve(r.value) is pc[0] for r in rets)
        ctx.check('R19.1', ok, "the artist returned is that collection", mp, rets[0] if rets else mp.node)

    ptc = ctx.func(f"{PLOT}.polygons_to_collection")
    pflow = ctx.flow(ptc)
    mpt = Matcher(ctx, ptc)
    pcs = [c for c in calls_in(ptc) if (dotted(c.func) or '').endswith('PolyCollection')]
    ok = False
    if len(pcs) == 1:
        verts = arg_or_kw(pcs[0], 0, 'verts')
        verts = pflow.resolve(verts) if verts is not None else None
        ok = verts is not None and mpt.match(f"[numpy.asarray($p.exterior.coords) for $p in {ptc.params[0]}]", verts, commit=False)
    ctx.check('R19.2', bool(ok), "verts[k] is the exterior ring of polygon k, unfiltered and in order", ptc, pcs[0] if pcs else ptc.node)
    ok = len(pcs) == 1 and any(k.arg is None for k in pcs[0].keywords) and all(pflow.resolve(r.value) is pcs[0] for r in ptc.returns())
    ctx.check('R19.2', ok, "keyword arguments (array, clim, transform ...) are passed through to that collection", ptc, pcs[0] if pcs else ptc.node)

    for mq in p.implementations(p.cls(BASE), 'make_quiver'):
        flow = ctx.flow(mq)
        mm = Matcher(ctx, mq)
        up, vp = mq.params[2], mq.params[3]
        xy = mm.stmt('$x, $y = numpy.transpose(self.face_centres)')
        ctx.check('R19.3', xy is not None, "x, y are the two columns of face_centres (one row per cell in linear order)", mq, xy or mq.node)
        q = [c for c in calls_in(mq) if (dotted(c.func) or '').endswith('Quiver')]
        ok = len(q) == 1 and xy is not None and mm.match(f"Quiver({mq.params[1]}, $x, $y, *$values, **$$kw)", q[0], commit=True)
        split_form = False
        if not ok and len(q) == 1 and xy is not None:
            # the two components kept under a name each instead of as one pair
            split_form = bool(mm.match(f"Quiver({mq.params[1]}, $x, $y, $cu, $cv, **$$kw)", q[0], commit=True))
            ok = split_form
        ctx.check('R19.3', bool(ok), "the Quiver receives (x, y, u values, v values) in that order", mq, q[0] if q else mq.node)
        ravels = [c for c in method_calls(mq, 'ravel') if norm_text(c.func.value) == 'self']
        ru = [c for c in ravels if c.args and flow.reaches(c.args[0], lambda n: isinstance(n, ast.Name) and n.id == up and any(d.kind == 'param' for d in flow.defs_of(n)))]
        rv = [c for c in ravels if c.args and flow.reaches(c.args[0], lambda n: isinstance(n, ast.Name) and n.id == vp and any(d.kind == 'param' for d in flow.defs_of(n)))]
        ok_rav = len(ravels) == 2 and len(ru) == 1 and len(rv) == 1 and ru[0] is not rv[0]
        ctx.check('R19.3', ok_rav, "both components are flattened by the convention's ravel", mq, ravels[0] if ravels else mq.node)
        if ru:
            _on_cells_only(ctx, mq, flow, ru[0], 'R19.3', "make_quiver puts the arrows at the face centres")
        # values = (ravel(u).values, ravel(v).values) in that order
        va = None
        for n in walk_no_nested(mq.node):
            if isinstance(n, ast.Assign) and isinstance(n.targets[0], ast.Name) and n.targets[0].id == mm.name('values') and isinstance(flow.resolve(n.value), ast.Tuple):
                tv = flow.resolve(n.value)
                if len(tv.elts) == 2 and all(isinstance(flow.resolve(e), ast.Attribute) and flow.resolve(e).attr == 'values' for e in tv.elts):
                    va = (n, tv)
        def element(e):
            """The expression a name stands for, looking through `a, b = x, y`."""
            e = flow.resolve(e)
            for _ in range(4):
                if isinstance(e, ast.Name):
                    d = flow.single_def(e)
                    if d is not None and d.kind == 'unpack' and isinstance(d.value, ast.Tuple) and d.index is not None and len(d.index) == 1 \
                            and d.index[0] < len(d.value.elts):
                        e = flow.resolve(d.value.elts[d.index[0]])
                        continue
                break
            return e

        ok = False
        if va is not None and ok_rav:
            e0, e1 = (flow.resolve(e) for e in va[1].elts)
            ok = element(e0.value) is ru[0] and element(e1.value) is rv[0]
        if split_form and ok_rav:
            # each component: the placeholder numpy.nan by default, and `<its flattened variable>.values` once the checks have passed
            found = []
            for key, rav in (('cu', ru[0]), ('cv', rv[0])):
                defs_ = [n for n in walk_no_nested(mq.node) if isinstance(n, ast.Assign) and len(n.targets) == 1 and isinstance(n.targets[0], ast.Name) and n.targets[0].id == mm.name(key)]
                vals_ = [flow.resolve(n.value) for n in defs_]
                taken = [n for n, v in zip(defs_, vals_) if isinstance(v, ast.Attribute) and v.attr == 'values' and element(v.value) is rav]
                dflt = [n for n, v in zip(defs_, vals_) if norm_text(v) in ('numpy.nan', 'float("nan")', "float('nan')")]
                if len(defs_) == 2 and len(taken) == 1 and len(dflt) == 1 and dflt[0].lineno < taken[0].lineno:
                    found.append(taken[0])
            if len(found) == 2:
                ok = True
                va = (min(found, key=lambda n: n.lineno), None)
        ctx.check('R19.3', ok, "the components are u first, v second, taken after flattening", mq, va[0] if va else mq.node)
        raises = [n for n in walk_no_nested(mq.node) if isinstance(n, ast.Raise)]

        def dims_of(e):
            e = flow.resolve(e)
            return e.value if isinstance(e, ast.Attribute) and e.attr == 'dims' else None

        g1, g2 = [], []
        for r in raises:
            for t, pol in positive_conditions(mq, r):
                if isinstance(t, ast.Compare) and len(t.ops) == 1 and isinstance(t.ops[0], ast.Eq) and pol is False \
                        and dims_of(t.left) is not None and dims_of(t.comparators[0]) is not None:
                    g1.append(r)
                if isinstance(t, ast.Compare) and len(t.ops) == 1 and isinstance(t.ops[0], ast.Gt) and pol and const_value(t.comparators[0], None) == 1 \
                        and isinstance(t.left, ast.Call) and dotted(t.left.func) == 'len' and dims_of(t.left.args[0]) is not None \
                        and ok_rav and (flow.reaches(dims_of(t.left.args[0]), lambda n: n is ru[0]) or flow.reaches(dims_of(t.left.args[0]), lambda n: n is rv[0])):
                    g2.append(r)
        first_ravel = min((c.lineno for c in ravels), default=0)
        ok = len(g1) == 1 and bool(ravels) and g1[0].lineno < first_ravel
        ctx.check('R19.3', ok, "components with different dimensions are refused before flattening", mq, g1[0] if g1 else mq.node)
        ok = len(g2) == 1 and va is not None and first_ravel <= g2[0].lineno < va[0].lineno
        ctx.check('R19.3', ok, "leftover non-spatial dimensions are refused before the components are used", mq, g2[0] if g2 else mq.node)

    an = ctx.func(f"{PLOT}.animate_on_figure")
    aflow = ctx.flow(an)
    ma = Matcher(ctx, an)
    sv = ma.stmt('$frames = $conv.ravel($scalar).values[:, $conv.mask]')
    ctx.check('R19.4', sv is not None, "frames = ravel(scalar).values[:, mask]: the animated axis first, cells with geometry on the last axis", an, sv or an.node,
              construct=f"frames = {norm_text(sv.value) if sv is not None else 'not recognised'}")
    mc = [c for c in method_calls(an, 'make_poly_collection')]
    ok = False
    if len(mc) == 1 and sv is not None and not mc[0].args and isinstance(mc[0].func.value, ast.Name) and mc[0].func.value.id == ma.name('conv'):
        ck = kwarg(mc[0], 'clim')
        ok = ck is not None and ma.match('(numpy.nanmin($frames), numpy.nanmax($frames))', aflow.resolve(ck), commit=False)
    ctx.check('R19.4', bool(ok), "the collection is the convention's own (polygons[mask]) with limits spanning the masked frames", an, mc[0] if mc else an.node)
    inner = p.functions.get(f"{an.qualname}.<locals>.animate")
    ctx.need('R19.4', inner is not None, "animate_on_figure defines the per-frame update", an)
    sets = [c for c in calls_in(inner) if isinstance(c.func, ast.Attribute) and c.func.attr == 'set_array']
    ok = len(sets) == 1 and sv is not None and norm_text(sets[0].args[0]) == f"{ma.name('frames')}[{inner.params[0]}]"
    ctx.check('R19.4', ok, "frame k shows row k of those frames", inner, sets[0] if sets else inner.node)
    uvc = [c for c in calls_in(inner) if isinstance(c.func, ast.Attribute) and c.func.attr == 'set_UVC']
    vv = ma.stmt('$fu, $fv = ($conv.ravel($vec).values for $vec in $vector)')
    def also_called(name):
        # the frames under their own name or under a plain second name given to them in animate_on_figure
        out = {name}
        for n in ast.walk(an.node):
            if isinstance(n, ast.Assign) and len(n.targets) == 1 and isinstance(n.targets[0], ast.Name) and isinstance(n.value, ast.Name) and n.value.id in out:
                stores_ = [x for x in ast.walk(an.node) if isinstance(x, ast.Name) and x.id == n.targets[0].id and isinstance(x.ctx, ast.Store)]
                if len(stores_) == 1:
                    out.add(n.targets[0].id)
        return out
    ok = False
    if len(uvc) == 1 and vv is not None and len(uvc[0].args) == 2:
        a0, a1 = uvc[0].args
        ok = all(isinstance(a, ast.Subscript) and isinstance(a.value, ast.Name) and norm_text(a.slice) == inner.params[0] for a in (a0, a1)) \
            and a0.value.id in also_called(ma.name('fu')) and a1.value.id in also_called(ma.name('fv'))
    ctx.check('R19.4', ok, "vector frames are the ravelled u and v, row k for frame k, u before v", inner, uvc[0] if uvc else inner.node)

    # R19.5 shared with C03: ravel flattens the convention's dimensions in the convention's order
    from . import c03
    from .common import share_obligations
    share_obligations(ctx, c03, {'R03.1', 'R03.9'}, 'R19.5',
                      only=lambda ob: 'DimensionConvention.ravel' in ob.function or 'ravel_dimensions' in ob.function or 'move_dimensions_to_end' in ob.function)


# --------------------------------------------------------------------------- checker self-test
from ..variants import V  # noqa: E402

_B = 'src/emsarray/conventions/_base.py'
_P = 'src/emsarray/plot.py'
VARIANTS = [
    V('C19', 'array-of-another-size-accepted', 'src/emsarray/utils.py', "        if data_array_size != dataset_size:", "        if data_array_size == dataset_size:", 'R19.8'),
    V('C19', 'array-not-checked-against-the-dataset', 'src/emsarray/utils.py', "    if isinstance(data_array, xarray.DataArray):\n        check_data_array_dimensions_match(dataset, data_array)\n        return data_array", "    if isinstance(data_array, xarray.DataArray):\n        return data_array", 'R19.8'),
    V('C19', 'animation-scalar-without-the-axis-accepted', 'src/emsarray/conventions/_base.py', "            if coordinate_dim not in scalar.dims:\n                raise ValueError(\"Scalar dimensions do not match coordinate axis to animate along\")\n", "", 'R19.8'),
    V('C19', 'animation-scalar-never-handed-on', 'src/emsarray/conventions/_base.py', "            kwargs['scalar'] = scalar\n\n        if vector is not None:", "            pass\n\n        if vector is not None:", 'R19.8'),
    V('C19', 'default-transform-never-set', 'src/emsarray/conventions/_base.py', "        if 'transform' not in kwargs:\n            kwargs['transform'] = self.data_crs\n\n        return polygons_to_collection", "        return polygons_to_collection", 'R19.8'),
    V('C19', 'transform-override-replaced', 'src/emsarray/conventions/_base.py', "        if 'transform' not in kwargs:\n            kwargs['transform'] = self.data_crs\n\n        return polygons_to_collection", "        if 'transform' in kwargs:\n            kwargs['transform'] = self.data_crs\n\n        return polygons_to_collection", 'R19.8'),
    V('C19', 'animation-coordinate-discarded', 'src/emsarray/conventions/_base.py', "        if coordinate is None:\n            # Assume the user wants to plot along the time axis by default.", "        if coordinate is not None:\n            # Assume the user wants to plot along the time axis by default.", 'R19.8'),
    V('C19', 'animation-scalar-name-never-resolved', 'src/emsarray/conventions/_base.py', "        if scalar is not None:\n            scalar = utils.name_to_data_array(self.dataset, scalar)\n            if coordinate_dim", "        if scalar is None:\n            scalar = utils.name_to_data_array(self.dataset, scalar)\n            if coordinate_dim", 'R19.8'),
    V('C19', 'patch-collection-alias-drops-kwargs', 'src/emsarray/conventions/_base.py', "        return self.make_poly_collection(data_array, **kwargs)", "        return self.make_poly_collection(data_array)", 'R19.7'),
    V('C19', 'values-unmasked', _B, "            values = data_array.values[self.mask]", "            values = data_array.values", 'R19.1'),
    V('C19', 'polygons-unmasked', _B, "        return polygons_to_collection(self.polygons[self.mask], **kwargs)", "        return polygons_to_collection([p for p in self.polygons if p is not None and p.is_valid], **kwargs)", 'R19.1'),
    V('C19', 'poly-collection-any-grid-kind', _B, "            grid_kind = self.get_grid_kind(data_array)\n            if grid_kind != self.default_grid_kind:\n                raise ValueError(\n                    f\"Data array is defined on the {grid_kind} grid, \"", "            grid_kind = self.get_grid_kind(data_array)\n            if False:\n                raise ValueError(\n                    f\"Data array is defined on the {grid_kind} grid, \"", 'R19.1'),
    V('C19', 'quiver-any-grid-kind', _B, "            grid_kind = self.get_grid_kind(u)\n            if grid_kind != self.default_grid_kind:", "            grid_kind = self.get_grid_kind(u)\n            if grid_kind is None:", 'R19.3'),
    V('C19', 'clim-of-nothing', _B, "            if 'clim' not in kwargs and values.size > 0:", "            if 'clim' not in kwargs:", 'R19.1'),
    V('C19', 'clim-from-all-values', _B, "                kwargs['clim'] = (numpy.nanmin(values), numpy.nanmax(values))", "                kwargs['clim'] = (numpy.nanmin(data_array.values), numpy.nanmax(data_array.values))", 'R19.1'),
    V('C19', 'dimension-guard-removed', _B, "            if len(data_array.dims) > 1:\n                raise ValueError(\n                    \"Data array has too many dimensions - did you forget to \"\n                    \"select a single timestep or a single depth layer?\")\n", "", 'R19.1'),
    V('C19', 'verts-filtered', _P, "            for polygon in polygons\n        ],", "            for polygon in polygons\n            if polygon.area > 0\n        ],", 'R19.2'),
    V('C19', 'quiver-xy-swapped', _B, "        return Quiver(axes, x, y, *values, **kwargs)", "        return Quiver(axes, y, x, *values, **kwargs)", 'R19.3'),
    V('C19', 'quiver-uv-swapped', _B, "            values = u.values, v.values", "            values = v.values, u.values", 'R19.3'),
    V('C19', 'frames-unmasked', _P, "        scalar_values = convention.ravel(scalar).values[:, convention.mask]", "        scalar_values = convention.ravel(scalar).values", 'R19.4'),
    V('C19', 'frame-off-by-one', _P, "            collection.set_array(scalar_values[index])", "            collection.set_array(scalar_values[index - 1])", 'R19.4'),
    V('C19', 'ravel-follows-array-order', _B, "        dimensions = self.grid_dimensions[kind]\n        return utils.ravel_dimensions(", "        dimensions = [dim for dim in data_array.dims if dim in self.grid_dimensions[kind]]\n        return utils.ravel_dimensions(", 'R19.5'),
]
