"""C19 - plot artists pair every value with its own cell."""
from __future__ import annotations

import ast

from ..cfg import stmt_of
from ..model import AnalysisError, const_value, dotted, kwarg, norm_text, walk_no_nested
from ..report import Context
from .common import calls_in, callee, enclosing_ifs, is_none, method_calls

BASE = 'emsarray.conventions._base.Convention'
PLOT = 'emsarray.plot'


def run(ctx: Context) -> None:
    p = ctx.p
    ctx.rule('R19.1', "make_poly_collection: values are ravel(variable)[mask] and patches are polygons[mask] with the same self.mask; default colour limits are nanmin/nanmax of those masked values; leftover dimensions and array+data_array are refused before any artist is built", floor=8)
    ctx.rule('R19.2', "polygons_to_collection builds one vertex array per polygon, in iteration order, from its exterior ring", floor=2)
    ctx.rule('R19.3', "make_quiver: arrow positions are the (x, y) columns of face_centres, components are ravel(u), ravel(v) after checking equal dimensions and refusing leftover dimensions", floor=6)
    ctx.rule('R19.4', "animate_on_figure: frames are ravel(scalar)[:, mask] with the convention's mask on the last axis, limits come from those values, and frame k sets exactly row k", floor=4)
    ctx.rule('R19.5', "ravel gives linear index order whatever the variable's own dimension order: the flattened dimensions are the convention's grid_dimensions[kind] (shared with C03)", floor=1)
    ctx.assume("matplotlib PolyCollection pairs array[k] with verts[k]; Quiver pairs U[k], V[k] with X[k], Y[k]")

    for mp in p.implementations(p.cls(BASE), 'make_poly_collection'):
        flow = ctx.flow(mp)
        cfg = ctx.cfg(mp)
        rets = mp.returns()
        pc = [c for c in calls_in(mp) if callee(ctx, mp, c) == f"{PLOT}.polygons_to_collection"]
        ctx.need('R19.1', len(pc) == 1 and pc[0].args, "make_poly_collection builds the artist with polygons_to_collection", mp)
        a0 = pc[0].args[0]
        ok = (isinstance(a0, ast.Subscript) and flow.canon(a0.value) == ('attr', ('param', 'self'), 'polygons')
              and flow.canon(a0.slice) == ('attr', ('param', 'self'), 'mask'))
        ctx.check('R19.1', ok, "the patches are self.polygons[self.mask]", mp, pc[0], construct=f"polygons_to_collection({norm_text(a0)}, ...)")
        vals = [n for n in walk_no_nested(mp.node) if isinstance(n, ast.Assign) and norm_text(n.targets[0]) == 'values']
        ok = False
        if len(vals) == 1:
            v = vals[0].value
            ok = (isinstance(v, ast.Subscript) and flow.canon(v.slice) == ('attr', ('param', 'self'), 'mask')
                  and isinstance(v.value, ast.Attribute) and v.value.attr == 'values'
                  and flow.reaches(v.value.value, lambda n: isinstance(n, ast.Call) and isinstance(n.func, ast.Attribute) and n.func.attr == 'ravel'
                                   and norm_text(n.func.value) == 'self'))
        ctx.check('R19.1', ok, "the values are the ravelled variable indexed by that same self.mask", mp, vals[0] if vals else mp.node,
                  construct=f"values = {norm_text(vals[0].value) if vals else '?'}")
        arr = [n for n in walk_no_nested(mp.node) if isinstance(n, ast.Assign) and norm_text(n.targets[0]) == "kwargs['array']"]
        ok = len(arr) == 1 and norm_text(arr[0].value) == 'values' and any(k.arg is None and norm_text(k.value) == 'kwargs' for k in pc[0].keywords)
        ctx.check('R19.1', ok, "those values are what the collection receives as `array`", mp, arr[0] if arr else mp.node)
        clim = [n for n in walk_no_nested(mp.node) if isinstance(n, ast.Assign) and norm_text(n.targets[0]) == "kwargs['clim']"]
        ok = (len(clim) == 1 and norm_text(clim[0].value) == '(numpy.nanmin(values), numpy.nanmax(values))'
              and ("'clim' not in kwargs", True) in [(norm_text(st.test), inb) for st, inb in enclosing_ifs(mp, clim[0])])
        ctx.check('R19.1', ok, "default colour limits span exactly the plotted (masked) values; a caller's clim is kept", mp, clim[0] if clim else mp.node)
        rv = [c for c in method_calls(mp, 'ravel') if norm_text(c.func.value) == 'self']
        ok = len(rv) == 1 and len(rv[0].args) == 1 and flow.reaches(rv[0].args[0], lambda n: isinstance(n, ast.Call) and (callee(ctx, mp, n) or '').endswith('name_to_data_array'))
        ctx.check('R19.1', ok, "the variable (by name or as an array, checked against the dataset) is flattened by the convention's ravel", mp, rv[0] if rv else mp.node)
        raises = [n for n in walk_no_nested(mp.node) if isinstance(n, ast.Raise)]
        dims_guard = [r for r in raises if any(inb and norm_text(st.test) == 'len(data_array.dims) > 1' for st, inb in enclosing_ifs(mp, r))]
        both_guard = [r for r in raises if any(inb and norm_text(st.test) == "'array' in kwargs" for st, inb in enclosing_ifs(mp, r))]
        st_pc = stmt_of(mp, pc[0])
        ok = len(dims_guard) == 1 and bool(vals) and dims_guard[0].lineno < vals[0].lineno and (not rv or dims_guard[0].lineno > rv[0].lineno)
        ctx.check('R19.1', ok, "a variable with leftover non-spatial dimensions is refused after flattening and before values are taken", mp,
                  dims_guard[0] if dims_guard else mp.node, construct='if len(data_array.dims) > 1: raise ValueError')
        ctx.check('R19.1', len(both_guard) == 1, "passing both data_array and array is refused", mp, both_guard[0] if both_guard else mp.node)
        ok = bool(rets) and all(flow.resolve(r.value) is pc[0] for r in rets)
        ctx.check('R19.1', ok, "the artist returned is that collection", mp, rets[0] if rets else mp.node)

    ptc = ctx.func(f"{PLOT}.polygons_to_collection")
    pcs = [c for c in calls_in(ptc) if (dotted(c.func) or '').endswith('PolyCollection')]
    ok = False
    if len(pcs) == 1:
        verts = kwarg(pcs[0], 'verts') or (pcs[0].args[0] if pcs[0].args else None)
        ok = (isinstance(verts, ast.ListComp) and len(verts.generators) == 1 and not verts.generators[0].ifs
              and norm_text(verts.generators[0].iter) == ptc.params[0]
              and norm_text(verts.elt) == f"numpy.asarray({norm_text(verts.generators[0].target)}.exterior.coords)")
    ctx.check('R19.2', ok, "verts[k] is the exterior ring of polygon k, unfiltered and in order", ptc, pcs[0] if pcs else ptc.node)
    ok = len(pcs) == 1 and any(k.arg is None for k in pcs[0].keywords) and all(ctx.flow(ptc).resolve(r.value) is pcs[0] for r in ptc.returns())
    ctx.check('R19.2', ok, "keyword arguments (array, clim, transform ...) are passed through to that collection", ptc, pcs[0] if pcs else ptc.node)

    for mq in p.implementations(p.cls(BASE), 'make_quiver'):
        flow = ctx.flow(mq)
        xy = [n for n in walk_no_nested(mq.node) if isinstance(n, ast.Assign) and norm_text(n.targets[0]) == '(x, y)']
        ok = len(xy) == 1 and norm_text(xy[0].value) == 'numpy.transpose(self.face_centres)'
        ctx.check('R19.3', ok, "x, y are the two columns of face_centres (one row per cell in linear order)", mq, xy[0] if xy else mq.node)
        q = [c for c in calls_in(mq) if (dotted(c.func) or '').endswith('Quiver')]
        ok = len(q) == 1 and [norm_text(a) for a in q[0].args] == ['axes', 'x', 'y', '*values']
        ctx.check('R19.3', ok, "the Quiver receives (x, y, u values, v values) in that order", mq, q[0] if q else mq.node)
        uv = [n for n in walk_no_nested(mq.node) if isinstance(n, ast.Assign) and norm_text(n.targets[0]) == '(u, v)']
        ok = len(uv) == 1 and norm_text(uv[0].value) == '(self.ravel(u), self.ravel(v))'
        ctx.check('R19.3', ok, "both components are flattened by the convention's ravel", mq, uv[0] if uv else mq.node)
        va = [n for n in walk_no_nested(mq.node) if isinstance(n, ast.Assign) and norm_text(n.targets[0]) == 'values' and 'u.values' in norm_text(n.value)]
        ok = len(va) == 1 and norm_text(va[0].value) == '(u.values, v.values)' and bool(uv) and va[0].lineno > uv[0].lineno
        ctx.check('R19.3', ok, "the components are u first, v second, taken after flattening", mq, va[0] if va else mq.node)
        raises = [n for n in walk_no_nested(mq.node) if isinstance(n, ast.Raise)]
        g1 = [r for r in raises if any(inb and norm_text(st.test) == 'u.dims != v.dims' for st, inb in enclosing_ifs(mq, r))]
        g2 = [r for r in raises if any(inb and norm_text(st.test) == 'len(u.dims) > 1' for st, inb in enclosing_ifs(mq, r))]
        ok = len(g1) == 1 and bool(uv) and g1[0].lineno < uv[0].lineno
        ctx.check('R19.3', ok, "components with different dimensions are refused before flattening", mq, g1[0] if g1 else mq.node)
        ok = len(g2) == 1 and bool(uv) and bool(va) and uv[0].lineno < g2[0].lineno < va[0].lineno
        ctx.check('R19.3', ok, "leftover non-spatial dimensions are refused before the components are used", mq, g2[0] if g2 else mq.node)

    an = ctx.func(f"{PLOT}.animate_on_figure")
    aflow = ctx.flow(an)
    sv = [n for n in walk_no_nested(an.node) if isinstance(n, ast.Assign) and norm_text(n.targets[0]) == 'scalar_values']
    ok = len(sv) == 1 and norm_text(sv[0].value) == 'convention.ravel(scalar).values[:, convention.mask]'
    ctx.check('R19.4', ok, "frames = ravel(scalar).values[:, mask]: the animated axis first, cells with geometry on the last axis", an, sv[0] if sv else an.node,
              construct=f"scalar_values = {norm_text(sv[0].value) if sv else '?'}")
    mc = [c for c in method_calls(an, 'make_poly_collection')]
    ok = len(mc) == 1 and norm_text(mc[0].func.value) == 'convention' and not mc[0].args and \
        norm_text(kwarg(mc[0], 'clim') or ast.Constant(None)) == '(numpy.nanmin(scalar_values), numpy.nanmax(scalar_values))'
    ctx.check('R19.4', ok, "the collection is the convention's own (polygons[mask]) with limits spanning the masked frames", an, mc[0] if mc else an.node)
    inner = p.functions.get(f"{an.qualname}.<locals>.animate")
    ctx.need('R19.4', inner is not None, "animate_on_figure defines the per-frame update", an)
    sets = [c for c in calls_in(inner) if isinstance(c.func, ast.Attribute) and c.func.attr == 'set_array']
    ok = len(sets) == 1 and norm_text(sets[0].args[0]) == f"scalar_values[{inner.params[0]}]"
    ctx.check('R19.4', ok, "frame k shows row k of those frames", inner, sets[0] if sets else inner.node)
    uvc = [c for c in calls_in(inner) if isinstance(c.func, ast.Attribute) and c.func.attr == 'set_UVC']
    ok = len(uvc) == 1 and [norm_text(a) for a in uvc[0].args] == [f"vector_u_values[{inner.params[0]}]", f"vector_v_values[{inner.params[0]}]"]
    vv = [n for n in walk_no_nested(an.node) if isinstance(n, ast.Assign) and norm_text(n.targets[0]) == '(vector_u_values, vector_v_values)']
    ok = ok and len(vv) == 1 and norm_text(vv[0].value) == '(convention.ravel(vec).values for vec in vector)'
    ctx.check('R19.4', ok, "vector frames are the ravelled u and v, row k for frame k, u before v", inner, uvc[0] if uvc else inner.node)

    # R19.5 shared with C03: ravel flattens the convention's dimensions in the convention's order
    from . import c03
    sub = Context(p, ctx.prop, ctx.tier)
    sub._flows, sub._cfgs, sub._types = ctx._flows, ctx._cfgs, ctx._types
    try:
        c03.run(sub)
    except Exception as exc:
        if type(exc).__name__ != 'AbortRules':
            raise
    for ob in sub.obligations:
        if ob.rule == 'R03.1' and ('DimensionConvention.ravel' in ob.function or 'ravel_dimensions' in ob.function or 'move_dimensions_to_end' in ob.function):
            ctx.obligations.append(type(ob)('R19.5', f"[{ob.rule}] {ob.text}", ob.site, ob.function, ob.construct, ob.ok, ob.detail))
            ctx.instances['R19.5'] = ctx.instances.get('R19.5', 0) + 1


# --------------------------------------------------------------------------- checker self-test
from ..variants import V  # noqa: E402

_B = 'src/emsarray/conventions/_base.py'
_P = 'src/emsarray/plot.py'
VARIANTS = [
    V('C19', 'values-unmasked', _B, "            values = data_array.values[self.mask]", "            values = data_array.values", 'R19.1'),
    V('C19', 'polygons-unmasked', _B, "        return polygons_to_collection(self.polygons[self.mask], **kwargs)", "        return polygons_to_collection([p for p in self.polygons if p is not None and p.is_valid], **kwargs)", 'R19.1'),
    V('C19', 'clim-from-all-values', _B, "                kwargs['clim'] = (numpy.nanmin(values), numpy.nanmax(values))", "                kwargs['clim'] = (numpy.nanmin(data_array.values), numpy.nanmax(data_array.values))", 'R19.1'),
    V('C19', 'dimension-guard-removed', _B, "            if len(data_array.dims) > 1:\n                raise ValueError(\n                    \"Data array has too many dimensions - did you forget to \"\n                    \"select a single timestep or a single depth layer?\")\n", "", 'R19.1'),
    V('C19', 'verts-filtered', _P, "            for polygon in polygons\n        ],", "            for polygon in polygons\n            if polygon.area > 0\n        ],", 'R19.2'),
    V('C19', 'quiver-xy-swapped', _B, "        return Quiver(axes, x, y, *values, **kwargs)", "        return Quiver(axes, y, x, *values, **kwargs)", 'R19.3'),
    V('C19', 'quiver-uv-swapped', _B, "            values = u.values, v.values", "            values = v.values, u.values", 'R19.3'),
    V('C19', 'frames-unmasked', _P, "        scalar_values = convention.ravel(scalar).values[:, convention.mask]", "        scalar_values = convention.ravel(scalar).values", 'R19.4'),
    V('C19', 'frame-off-by-one', _P, "            collection.set_array(scalar_values[index])", "            collection.set_array(scalar_values[index - 1])", 'R19.4'),
    V('C19', 'ravel-follows-array-order', _B, "        dimensions = self.grid_dimensions[kind]\n        return utils.ravel_dimensions(", "        dimensions = [dim for dim in data_array.dims if dim in self.grid_dimensions[kind]]\n        return utils.ravel_dimensions(", 'R19.5'),
]
