"""C13 - depth normalisation reorients coordinates and data together, idempotently.

The rules identify the *roles* in normalize_depth_variables by data flow, not by variable
names: the input dataset (parameter 0), the working copy (everything whose only root is
`dataset.copy()`), the input variable and the copy's variable, the "current sign" variable
(the local compared with `positive_down` in the guard of the negations), the "current
ordering" variable (the local compared with `deep_to_shallow` in the guard of the
reversal).  Guards are read as path conditions (inverted tests, early `continue`, De Morgan
forms and extracted helpers - inlined by the normaliser - give the same conditions).
"""
from __future__ import annotations

import ast

from ..effects import roots_of, writes_through
from ..model import const_value, dotted, norm_text, walk_no_nested
from ..report import Context
from .common import arg_or_kw, calls_in, callee, is_none, method_calls, path_conditions, positive_conditions

DEPTH = 'emsarray.operations.depth'
BASE = 'emsarray.conventions._base.Convention'
PD, D2S = 'positive_down', 'deep_to_shallow'


def _negated_operand(e):
    if isinstance(e, ast.UnaryOp) and isinstance(e.op, ast.USub) and not isinstance(e.operand, ast.Constant):
        return e.operand
    if isinstance(e, ast.BinOp) and isinstance(e.op, ast.Mult):
        if const_value(e.left, None) == -1:
            return e.right
        if const_value(e.right, None) == -1:
            return e.left
    return None


def run(ctx: Context) -> None:
    p = ctx.p
    ctx.rule('R13.1', "purity: nothing is stored through an alias of the input dataset; all writes go to the copy", floor=4)
    ctx.rule('R13.2', "the flip decision reads the current sign from the working copy (the input's is stale once a coordinate was handled), before this iteration overwrites the attribute, reads it as the discovery of depth coordinates does, and guesses a missing attribute by counting values above against values below zero", floor=4)
    ctx.rule('R13.3', "coordinate values and their bounds are negated under the same guard (requested sign set and different from the data's), stored back under their own names with dims, attrs and encoding kept; bounds are looked up dataset-wide; the current sign is updated before the ordering test", floor=8)
    ctx.rule('R13.4', "ordering is read from the first two (possibly flipped) values of the copy, deep-to-shallow iff (d1 > d2) == positive-down, and a mismatch reverses the whole dataset along the coordinate's dimension", floor=4)
    ctx.rule('R13.5', "each transformation is dominated by its `is not None` guard and by a comparison of current with requested state (unset options leave that aspect untouched; a second application is a no-op)", floor=4)
    ctx.rule('R13.6', "the convention method forwards the dataset, its depth coordinates and both options unchanged", floor=1)
    ctx.rule('R13.7', "the depth coordinates handed to the normalisation are the dataset's own variables, found among all variables of the dataset", floor=4)
    from . import infra as _infra
    _infra.lookup_namespace(ctx, 'R13.7', ['depth_coordinates', 'depth_coordinate'])
    _infra.live_depth_coordinates(ctx, 'R13.7')
    _infra.every_depth_coordinate(ctx, 'R13.7')
    _infra.depth_coordinates_only_read(ctx, 'R13.7')
    _infra.depth_markers(ctx, 'R13.7')
    _infra.shoc_depth_names(ctx, 'R13.7')
    _infra.bounds_excluded(ctx, 'R13.7', 'emsarray.conventions._base.Convention.depth_coordinates', "depth coordinate discovery")
    _infra.bounds_names_helper(ctx, 'R13.7')
    ctx.assume("xarray Dataset.copy() gives independent attribute dictionaries and variables; assign/assign_coords/isel return new datasets")

    fi = ctx.func(f"{DEPTH}.normalize_depth_variables")
    flow = ctx.flow(fi)
    ds = fi.params[0]
    ctx.require(PD in fi.params and D2S in fi.params, "normalize_depth_variables no longer has positive_down / deep_to_shallow options")

    def kind(e) -> str:
        roots = roots_of(flow, e)
        if roots == {'fresh'}:
            return 'copy'
        if ('param:' + ds) in roots and 'unknown' not in roots:
            return 'input'
        return 'other'

    def is_param(e, name) -> bool:
        return flow.canon(e) == ('param', name)

    def requested(conds, name) -> bool:
        return any(isinstance(t, ast.Compare) and len(t.ops) == 1 and isinstance(t.ops[0], ast.Is) and is_none(t.comparators[0])
                   and is_param(t.left, name) and pol is False for t, pol in conds)

    def differs(conds, name):
        """The expression compared (unequal) with option `name` on this path, or None."""
        for t, pol in conds:
            if isinstance(t, ast.Compare) and len(t.ops) == 1 and isinstance(t.ops[0], ast.Eq) and pol is False:
                a, b = t.left, t.comparators[0]
                if is_param(b, name) and not is_param(a, name):
                    return a
                if is_param(a, name) and not is_param(b, name):
                    return b
        return None

    def show(conds):
        return [(norm_text(t), pol) for t, pol in conds]

    def carried_memory(step: ast.AST, what: str) -> None:
        """Each entry of the list is normalised for itself: the only thing one entry learns from the entries before it is the
        working copy.  A condition on a step that reads a collection filled while the list is walked is therefore only
        acceptable as "this very coordinate (by name) was handled already", which skips nothing that would change anything."""
        from .common import path_conditions as _pcs
        loops = [n for n in walk_no_nested(fi.node) if isinstance(n, ast.For) and any(x is step for x in ast.walk(n))]
        if not loops:
            ctx.check('R13.5', False, f"{what} happens once per listed coordinate", fi, step)
            return
        loop = loops[0]
        grown: dict[str, list[ast.AST]] = {}
        for n in ast.walk(loop):
            if isinstance(n, ast.Call) and isinstance(n.func, ast.Attribute) and isinstance(n.func.value, ast.Name) \
                    and n.func.attr in ('add', 'append', 'update', 'extend', 'insert', 'setdefault', 'discard', 'remove', 'pop'):
                grown.setdefault(n.func.value.id, []).append(n)
            if isinstance(n, ast.Subscript) and isinstance(n.ctx, ast.Store) and isinstance(n.value, ast.Name):
                grown.setdefault(n.value.id, []).append(n)
            if isinstance(n, ast.AugAssign) and isinstance(n.target, ast.Name):
                grown.setdefault(n.target.id, []).append(n)
        # only what lives across iterations: defined before the loop
        before = {t.id for st in walk_no_nested(fi.node) if isinstance(st, (ast.Assign, ast.AnnAssign)) and st.lineno < loop.lineno
                  for t in ast.walk(st) if isinstance(t, ast.Name) and isinstance(t.ctx, ast.Store)}
        memory = {k for k in grown if k in before and kind(ast.Name(id=k, ctx=ast.Load())) != 'copy' and not dataset_like(next(
            (x for x in ast.walk(loop) if isinstance(x, ast.Name) and x.id == k and isinstance(x.ctx, ast.Load)), ast.Name(id=k, ctx=ast.Load())))}

        def coordinate_name(e) -> bool:
            c = flow.canon(e)
            return isinstance(c, tuple) and c[0] == 'attr' and c[2] == 'name'
        bad = []
        for t, pol in _pcs(fi, step):
            used = {x.id for x in ast.walk(t) if isinstance(x, ast.Name)} & memory
            for k in used:
                fine = (isinstance(t, ast.Compare) and len(t.ops) == 1 and isinstance(t.ops[0], (ast.In, ast.NotIn)) and norm_text(t.comparators[0]) == k
                        and coordinate_name(t.left)
                        and all(isinstance(g_, ast.Call) and g_.func.attr in ('add', 'append') and len(g_.args) == 1 and coordinate_name(g_.args[0]) for g_ in grown[k]))
                if not fine:
                    bad.append(f"`{norm_text(t)}` reads `{k}`, filled while the list is walked")
        ctx.check('R13.5', not bad, f"{what} does not depend on which other coordinates were listed before this one (two coordinates on one dimension each have their own sign; "
                  "only the same coordinate listed again may be recognised, by its name)", fi, step, construct=f"{what}: {bad[0] if bad else 'no condition on earlier entries'}")

    def dataset_like(e, seen=None) -> bool:
        """e denotes a whole dataset derived from the copy (not one of its variables)."""
        seen = set() if seen is None else seen
        e = flow.resolve(e)
        if isinstance(e, ast.Call) and isinstance(e.func, ast.Attribute) and e.func.attr in ('copy', 'assign', 'assign_coords', 'isel'):
            if e.func.attr == 'copy' and is_param(e.func.value, ds):
                return True
            return dataset_like(e.func.value, seen)
        if isinstance(e, ast.Name):
            defs = flow.defs_of(e)
            if not defs:
                return False
            for d in defs:
                if id(d) in seen:
                    continue        # loop-carried definition already being examined
                seen.add(id(d))
                if d.value is None or d.kind not in ('assign', 'walrus') or not dataset_like(d.value, seen):
                    return False
            return True
        return False

    # ---- R13.1
    with ctx.section('R13.1'):
        bad = writes_through(fi, flow, ds)
        ctx.check('R13.1', not bad, "no store, deletion or in-place method through the input dataset", fi, bad[0][0] if bad else fi.node,
                  construct='writes through `dataset`: ' + ('; '.join(sorted({how for _, how in bad})) if bad else 'none'))
        copies = [c for c in method_calls(fi, 'copy') if flow.canon(c.func.value) == ('param', ds)]
        rets = fi.returns()
        ok_ret = bool(rets) and all('param:' + ds not in roots_of(flow, r.value) for r in rets)
        ctx.check('R13.1', len(copies) >= 1 and ok_ret, "the result is built from dataset.copy(), never the input object", fi, copies[0] if copies else fi.node,
                  construct='new_dataset = dataset.copy(); return new_dataset')
        from .common import iterable_param_obligations
        iterable_param_obligations(ctx, 'R13.1', fi)
        # the copy is shallow: its variables share their value buffers with the input
        inplace = []
        for n in walk_no_nested(fi.node):
            if isinstance(n, ast.AugAssign):
                base = n.target
                while isinstance(base, (ast.Subscript, ast.Attribute)):
                    base = base.value
                if isinstance(base, ast.Name):
                    if isinstance(base.ctx, ast.Store):
                        probe = ast.copy_location(ast.Name(id=base.id, ctx=ast.Load()), base)
                        flow.uses[id(probe)] = list(flow.env_at.get(id(n), {}).get(base.id, []))
                    else:
                        probe = base
                    if kind(probe) in ('copy', 'input'):
                        inplace.append((n, f"in-place `{norm_text(n)}`"))
            if isinstance(n, ast.Assign):
                for t in n.targets:
                    if isinstance(t, ast.Subscript):
                        holder = flow.resolve(t.value)
                        if isinstance(holder, ast.Attribute) and holder.attr in ('values', 'data') and kind(holder.value) in ('copy', 'input'):
                            inplace.append((n, f"element store `{norm_text(t)} = ...`"))
                        elif kind(t.value) == 'copy' and not dataset_like(t.value) and not (isinstance(holder, ast.Attribute) and holder.attr in ('attrs', 'encoding')):
                            inplace.append((n, f"element store `{norm_text(t)} = ...`"))
        ctx.check('R13.1', not inplace, "no in-place arithmetic or element store on the copy's variables (Dataset.copy() is shallow: the buffers are the input's)", fi,
                  inplace[0][0] if inplace else fi.node, construct='in-place updates of shared buffers: ' + ('; '.join(h for _, h in inplace) or 'none'))

    # ---- the negations and the sign variable
    with ctx.section('negations'):
        flips = [n for n in ast.walk(fi.node) if _negated_operand(n) is not None]
        ctx.need('R13.3', len(flips) >= 2, "coordinate and bounds values are negated", fi)
        sign_uses = []
        for n in flips:
            conds = positive_conditions(fi, n)
            other = differs(conds, PD)
            ok = requested(conds, PD) and other is not None
            carried_memory(n, "the negation of values")
            ctx.check('R13.5', ok, "values are negated only when a sign is requested and differs from the data's", fi, n,
                      construct=f"negation `{norm_text(n)}` under {show(conds)}")
            if isinstance(other, ast.Name):
                sign_uses.append(other)
        ctx.need('R13.2', bool(sign_uses) and len({u.id for u in sign_uses}) == 1, "the current sign of the data is tracked in one variable compared with positive_down", fi)
        S = sign_uses[0].id
        reach = {frozenset(id(d) for d in flow.defs_of(u)) for u in sign_uses}
        ctx.check('R13.3', len(reach) == 1 and len(sign_uses) == len(flips), "coordinate and bounds negation sit under the same guard (the same comparison of the same current sign)", fi, flips[-1],
                  construct=f"{len(flips)} negations guarded by `{S} != {PD}`")
        sign_defs = [n for n in walk_no_nested(fi.node) if isinstance(n, (ast.Assign, ast.AnnAssign)) and n.value is not None
                     and isinstance(n.targets[0] if isinstance(n, ast.Assign) else n.target, ast.Name)
                     and (n.targets[0] if isinstance(n, ast.Assign) else n.target).id == S]

    # ---- R13.2 reads of the 'positive' attribute
    with ctx.section('R13.2'):
        reads = []
        for n in ast.walk(fi.node):
            obj = None
            if isinstance(n, ast.Subscript) and isinstance(n.ctx, ast.Load) and const_value(n.slice, None) == 'positive':
                obj = n.value
            elif isinstance(n, ast.Call) and isinstance(n.func, ast.Attribute) and n.func.attr == 'get' and n.args and const_value(n.args[0], None) == 'positive':
                obj = n.func.value
            elif isinstance(n, ast.Compare) and len(n.ops) == 1 and isinstance(n.ops[0], (ast.In, ast.NotIn)) and const_value(n.left, None) == 'positive':
                obj = n.comparators[0]
            if obj is None:
                continue
            o = flow.resolve(obj)
            if isinstance(o, ast.Attribute) and o.attr == 'attrs':
                reads.append((n, o.value))
        ctx.need('R13.2', len(reads) >= 2, "the 'positive' attribute is tested for and read", fi)
        attr_stores = [n for n in walk_no_nested(fi.node) if isinstance(n, ast.Assign) and isinstance(n.targets[0], ast.Subscript)
                       and const_value(n.targets[0].slice, None) == 'positive']
        loops = [n for n in walk_no_nested(fi.node) if isinstance(n, ast.For)]

        def position(node):
            """(loop, index of the loop body statement holding node)"""
            for lp in loops:
                for i, st in enumerate(lp.body):
                    if any(x is node for x in ast.walk(st)):
                        return lp, i
            return None, None
        for n, owner in reads:
            lp, i = position(n)
            before = all(position(st)[0] is not lp or position(st)[1] > i for st in attr_stores) if lp is not None else False
            ctx.check('R13.2', kind(owner) == 'copy' and before,
                      "every read of the 'positive' attribute looks at the working copy, and comes before the statement that overwrites the attribute in the same iteration", fi, n,
                      construct=f"{norm_text(n)} reads {norm_text(owner)} ({kind(owner)}); before the overwrite: {before}")

        # the guess for a coordinate without the attribute
        def sign_count(e):
            e = flow.resolve(e)
            inner = None
            if isinstance(e, ast.Call) and isinstance(e.func, ast.Name) and e.func.id == 'len' and len(e.args) == 1:
                a = flow.resolve(e.args[0])
                if isinstance(a, ast.Subscript):
                    inner = a.slice
            elif isinstance(e, ast.Call) and (callee(ctx, fi, e) or '') in ('numpy.count_nonzero', 'numpy.sum') and e.args:
                inner = e.args[0]
            elif isinstance(e, ast.Call) and isinstance(e.func, ast.Attribute) and e.func.attr == 'sum' and not e.args:
                inner = e.func.value
            if inner is None:
                return None
            inner = flow.resolve(inner)
            if isinstance(inner, ast.Compare) and len(inner.ops) == 1 and isinstance(inner.ops[0], (ast.Gt, ast.Lt)):
                a, b = inner.left, inner.comparators[0]
                gt = isinstance(inner.ops[0], ast.Gt)
                if const_value(b, None) == 0:
                    return ('above' if gt else 'below'), a
                if const_value(a, None) == 0:
                    return ('below' if gt else 'above'), b
            return None
        guesses = [d for d in sign_defs if any(isinstance(t, ast.Compare) and isinstance(t.ops[0], (ast.In, ast.NotIn)) and const_value(t.left, None) == 'positive'
                                                and (pol is False) == isinstance(t.ops[0], ast.In) for t, pol in path_conditions(fi, d))]
        ctx.need('R13.2', len(guesses) == 1, "the sign of a coordinate without a positive attribute is guessed in one place", fi)
        g = guesses[0].value
        ok_g, why = False, norm_text(g)
        if isinstance(g, ast.Compare) and len(g.ops) == 1 and isinstance(g.ops[0], (ast.Gt, ast.Lt)):
            lhs, rhs = sign_count(g.left), sign_count(g.comparators[0])
            if lhs and rhs:
                more, fewer = (lhs, rhs) if isinstance(g.ops[0], ast.Gt) else (rhs, lhs)
                same = flow.canon(more[1]) == flow.canon(fewer[1])
                src = flow.resolve(more[1])
                on_copy = isinstance(src, ast.Attribute) and src.attr in ('values', 'data') and kind(src.value) == 'copy'
                ok_g = more[0] == 'above' and fewer[0] == 'below' and same and on_copy
                why = f"positive down iff count({more[0]} 0) > count({fewer[0]} 0) over {norm_text(more[1])} ({kind(src.value) if isinstance(src, ast.Attribute) else '?'})"
        ctx.check('R13.2', ok_g, "the guess is 'positive down iff more values lie above zero than below zero', counted on the working copy's values (zeros, such as a surface level, vote for neither)", fi, guesses[0],
                  construct=why)
        ok = folded = False
        for d in sign_defs:
            v = d.value
            if isinstance(v, ast.Compare) and len(v.ops) == 1 and isinstance(v.ops[0], ast.Eq):
                sides = [v.left, v.comparators[0]]
                for a, b in (sides, sides[::-1]):
                    if const_value(b, None) != 'down':
                        continue
                    a = flow.resolve(a)
                    lowered = False
                    if isinstance(a, ast.Call) and isinstance(a.func, ast.Attribute) and a.func.attr in ('lower', 'casefold') and not a.args:
                        a, lowered = flow.resolve(a.func.value), True
                    if isinstance(a, ast.Call) and isinstance(a.func, ast.Name) and a.func.id == 'str' and len(a.args) == 1:
                        a = flow.resolve(a.args[0])
                    if any(a is r for r, _ in reads):
                        ok, folded = True, lowered
        ctx.check('R13.2', ok, "current sign = (<input variable>.attrs['positive'] == 'down')", fi, sign_defs[0] if sign_defs else fi.node,
                  construct=f"definitions of {S}: {[norm_text(d.value)[:60] for d in sign_defs]}")
        # sibling agreement: Convention.depth_coordinates recognises the attribute case-insensitively
        dc = ctx.func(f"{BASE}.depth_coordinates")
        sibling_folds = any(isinstance(n, ast.Call) and isinstance(n.func, ast.Attribute) and n.func.attr in ('lower', 'casefold')
                            and 'positive' in norm_text(n.func.value) for n in ast.walk(dc.node))
        ctx.check('R13.2', ok and (folded or not sibling_folds), "the attribute is compared the way the depth coordinates are discovered: case-insensitively ('Down', 'DOWN' are positive down)", fi,
                  sign_defs[0] if sign_defs else fi.node, construct=f"discovery folds case: {sibling_folds}; normalisation folds case: {folded}")

    # ---- R13.5 attribute overwrite
    with ctx.section('R13.5 attribute overwrite'):
        attr_sets = [n for n in walk_no_nested(fi.node) if isinstance(n, ast.Assign) and isinstance(n.targets[0], ast.Subscript)
                     and const_value(n.targets[0].slice, None) == 'positive']
        ctx.need('R13.5', bool(attr_sets), "the positive attribute of the copy is set", fi)
        seen_vals = set()
        for n in attr_sets:
            conds = positive_conditions(fi, n)
            v = n.value
            truth = [pol for t, pol in conds if is_param(t, PD)]
            ok_v = False
            if isinstance(v, ast.IfExp):
                test, yes, no = v.test, v.body, v.orelse
                if isinstance(test, ast.UnaryOp) and isinstance(test.op, ast.Not):
                    test, yes, no = test.operand, no, yes
                ok_v = is_param(test, PD) and const_value(yes, None) == 'down' and const_value(no, None) == 'up'
                seen_vals |= {'down', 'up'}
            elif const_value(v, None) in ('down', 'up'):
                ok_v = truth == [const_value(v, None) == 'down']
                seen_vals.add(const_value(v, None))
            holder = flow.resolve(n.targets[0].value)
            on_copy = isinstance(holder, ast.Attribute) and holder.attr == 'attrs' and kind(holder.value) == 'copy'
            carried_memory(n, "the rewrite of the positive attribute")
            ctx.check('R13.5', requested(conds, PD) and ok_v and on_copy,
                      "the positive attribute of the copy is rewritten only when positive_down is given: 'down' if positive_down else 'up'", fi, n,
                      construct=f"{norm_text(n)} under {show(conds)}")
        if attr_sets:
            ctx.check('R13.5', seen_vals == {'down', 'up'}, "both values of the attribute are written", fi, attr_sets[0], construct=f"values written: {sorted(seen_vals)}")

    # ---- R13.3 what is negated and where it is stored
    with ctx.section('R13.3 flips'):
        coord = bounds = None
        for n in flips:
            inner = flow.resolve(_negated_operand(n))
            if not (isinstance(inner, ast.Attribute) and inner.attr in ('values', 'data')):
                continue
            owner = flow.resolve(inner.value)
            if isinstance(owner, ast.Subscript):
                key = flow.resolve(owner.slice)
                if isinstance(key, ast.Subscript) and const_value(key.slice, None) == 'bounds' or \
                        (isinstance(key, ast.Call) and isinstance(key.func, ast.Attribute) and key.func.attr == 'get' and key.args and const_value(key.args[0], None) == 'bounds'):
                    bounds = (n, inner, owner, key)
                    continue
            if kind(inner.value) == 'copy':
                coord = (n, inner, owner)
        ctx.check('R13.3', coord is not None, "the negated coordinate values are those of the copy's coordinate variable", fi, flips[0],
                  construct=f"negated: {[norm_text(flow.resolve(_negated_operand(n))) for n in flips]}")
        ctx.need('R13.3', bounds is not None, "the bounds named by the coordinate's `bounds` attribute are negated", fi)
        bn, binner, bowner, bkey = bounds
        container = bowner.value
        dataset_wide = dataset_like(container) and not (isinstance(flow.resolve(container), ast.Attribute))
        ctx.check('R13.3', dataset_wide, "the bounds variable is looked up in the whole copy (bounds held as coordinates are found too)", fi, bowner,
                  construct=f"bounds lookup: {norm_text(bowner)}")
        holder = flow.resolve(bkey.value if isinstance(bkey, ast.Subscript) else bkey.func.value)
        ctx.check('R13.3', isinstance(holder, ast.Attribute) and holder.attr == 'attrs' and kind(holder.value) == 'copy' or
                  isinstance(holder, ast.Attribute) and holder.attr == 'attrs' and kind(holder.value) == 'input',
                  "the bounds name is the `bounds` attribute of the coordinate being flipped", fi, bkey, construct=f"bounds name: {norm_text(bkey)}")
        # stored back under that name with dims / attrs / encoding
        ok_b = False
        bstore = None
        for c in method_calls(fi, 'assign'):
            d = flow.resolve(c.args[0]) if c.args else None
            if not (isinstance(d, ast.Dict) and len(d.keys) == 1 and d.keys[0] is not None):
                continue
            tup = flow.resolve(d.values[0])
            if not (isinstance(tup, ast.Tuple) and len(tup.elts) == 4 and flow.resolve(tup.elts[1]) is bn):
                continue
            bstore = c
            oc = flow.canon(binner.value)
            ok_b = (flow.canon(d.keys[0]) == flow.canon(bowner.slice) and dataset_like(c.func.value)
                    and all(isinstance(flow.resolve(e), ast.Attribute) and flow.resolve(e).attr == a and flow.canon(flow.resolve(e).value) == oc
                            for e, a in ((tup.elts[0], 'dims'), (tup.elts[2], 'attrs'), (tup.elts[3], 'encoding')))
                    and all(flow.reaches(r.value, lambda x: x is c) for r in fi.returns()))
        ctx.check('R13.3', ok_b, "bounds named by the coordinate's `bounds` attribute are negated and stored back under that name with dims/attrs/encoding", fi,
                  bstore or bn, construct='copy.assign({bounds_name: (dims, -1 * values, attrs, encoding)})')
        tries = [t for t in walk_no_nested(fi.node) if isinstance(t, ast.Try) and any(h.type is not None and 'KeyError' in norm_text(h.type) for h in t.handlers)
                 and any(x is bkey for b in t.body for x in ast.walk(b))]
        guarded = any(isinstance(t, ast.Compare) and isinstance(t.ops[0], ast.In) and const_value(t.left, None) == 'bounds' and pol for t, pol in positive_conditions(fi, bn))
        ctx.check('R13.3', bool(tries) or guarded or isinstance(bkey, ast.Call), "a coordinate without bounds is simply not bounds-flipped", fi, bkey,
                  construct='bounds lookup tolerates a missing attribute / variable')
        # coordinate stored back under its own name
        if coord is not None:
            cn, cinner, cowner = coord
            key_c = flow.canon(cowner.slice) if isinstance(cowner, ast.Subscript) else None
            stores = []

            def same_key(e) -> bool:
                # the name the working variable was fetched under, or that variable's own `.name` (dataset[k].name is k)
                if flow.canon(e) == key_c:
                    return True
                r = flow.resolve(e)
                if isinstance(r, ast.Attribute) and r.attr == 'name':
                    owner = flow.resolve(r.value)
                    return isinstance(owner, ast.Subscript) and flow.canon(owner.slice) == key_c
                return False
            for c in calls_in(fi):
                if not (isinstance(c.func, ast.Attribute) and c.func.attr in ('assign', 'assign_coords') and c.args):
                    continue
                d = flow.resolve(c.args[0])
                if not (isinstance(d, ast.Dict) and len(d.keys) == 1 and d.keys[0] is not None and same_key(d.keys[0])):
                    continue
                stores.append((c, d))
            ok_s = len(stores) == 2 and {c.func.attr for c, _ in stores} == {'assign', 'assign_coords'}
            vc = flow.canon(cinner.value)
            detail = []
            for c, d in stores:
                v = flow.resolve(d.values[0])
                conds = positive_conditions(fi, c)
                isdim = [pol for t, pol in conds if isinstance(t, ast.Compare) and len(t.ops) == 1 and isinstance(t.ops[0], ast.Eq)
                         and (same_key(t.left) or same_key(t.comparators[0]))
                         and any(isinstance(x, tuple) and x[0] == 'sub' and isinstance(x[1], tuple) and x[1][0] == 'attr' and x[1][2] == 'dims'
                                 for x in (flow.canon(t.left), flow.canon(t.comparators[0])))]
                detail.append(f"{c.func.attr} when name == dimension is {isdim}")
                if c.func.attr == 'assign':
                    ok_s = ok_s and isdim == [False] and isinstance(v, ast.Tuple) and len(v.elts) == 4 and flow.resolve(v.elts[1]) is cn \
                        and isinstance(flow.resolve(v.elts[0]), ast.List) and len(flow.resolve(v.elts[0]).elts) == 1 \
                        and all(isinstance(flow.resolve(e), ast.Attribute) and flow.resolve(e).attr == a and flow.canon(flow.resolve(e).value) == vc
                                for e, a in ((v.elts[2], 'attrs'), (v.elts[3], 'encoding')))
                else:
                    ok_s = ok_s and isdim == [True] and v is cn
                ok_s = ok_s and dataset_like(c.func.value) and all(flow.reaches(r.value, lambda x: x is c) for r in fi.returns())
            ctx.check('R13.3', ok_s, "flipped values replace the coordinate under its own name (assign_coords for a dimension coordinate, assign otherwise)", fi,
                      stores[0][0] if stores else cn, construct=f"stores: {detail}")
            carry = [n for n in walk_no_nested(fi.node) if isinstance(n, ast.Assign) and isinstance(n.targets[0], ast.Attribute)
                     and n.targets[0].attr in ('attrs', 'encoding') and isinstance(flow.resolve(n.targets[0].value), ast.Subscript)
                     and same_key(flow.resolve(n.targets[0].value).slice) and kind(n.targets[0].value) == 'copy'
                     and isinstance(flow.resolve(n.value), ast.Attribute) and flow.resolve(n.value).attr == n.targets[0].attr and flow.canon(flow.resolve(n.value).value) == vc]
            ctx.check('R13.3', {n.targets[0].attr for n in carry} == {'attrs', 'encoding'}, "a flipped dimension coordinate keeps its attrs and encoding", fi,
                      carry[0] if carry else cn, construct=f"carried: {sorted(n.targets[0].attr for n in carry)}")
        upd = [d for d in sign_defs if is_param(d.value, PD)]
        ok_u = False
        if upd:
            conds = positive_conditions(fi, upd[0])
            other = differs(conds, PD)
            ok_u = requested(conds, PD) and isinstance(other, ast.Name) and other.id == S
        ctx.check('R13.3', ok_u and len(upd) == 1, "after a flip the current sign becomes the requested one (inside the flip guard)", fi,
                  upd[0] if upd else fi.node, construct=f"{S} = {PD}")

    # ---- R13.4 ordering
    with ctx.section('R13.4 ordering'):
        revs = []
        for c in method_calls(fi, 'isel'):
            d = flow.resolve(c.args[0]) if c.args else None
            if isinstance(d, ast.Dict) and len(d.keys) == 1 and d.keys[0] is not None:
                v = flow.resolve(d.values[0])
                rev_slice = (isinstance(v, ast.Subscript) and norm_text(v.value).endswith('s_') and isinstance(v.slice, ast.Slice)
                             and v.slice.lower is None and v.slice.upper is None and const_value(v.slice.step, None) == -1) or \
                    (isinstance(v, ast.Call) and dotted(v.func) == 'slice' and [const_value(x, 'x') for x in v.args] == [None, None, -1])
                if rev_slice:
                    revs.append((c, d))
        ctx.need('R13.4', len(revs) == 1, "a mismatch in ordering reverses along one dimension ([::-1])", fi)
        rc, rd = revs[0]
        conds = positive_conditions(fi, rc)
        other = differs(conds, D2S)
        carried_memory(rc, "the reversal")
        ctx.check('R13.5', requested(conds, D2S) and other is not None, "the reversal happens only when an ordering is requested and differs from the data's", fi, rc,
                  construct=f"reversal under {show(conds)}")
        dim_c = flow.canon(rd.keys[0])
        dim_ok = isinstance(dim_c, tuple) and dim_c[0] == 'sub' and dim_c[2] == ('const', '0') and isinstance(dim_c[1], tuple) and dim_c[1][0] == 'attr' and dim_c[1][2] == 'dims'
        ok_r = dim_ok and dataset_like(rc.func.value) and all(flow.reaches(r.value, lambda x: x is rc) for r in fi.returns())
        ctx.check('R13.4', ok_r, "a mismatch reverses the whole dataset along the coordinate's dimension ([::-1]) and the result replaces the working copy", fi, rc,
                  construct=f"reversal: {norm_text(rc)}")
        ok_o = ok_src = False
        src_txt = '?'
        ov = flow.resolve(other) if other is not None else None
        if isinstance(ov, ast.Compare) and len(ov.ops) == 1:
            sides = [ov.left, ov.comparators[0]]
            for cmp_side, sign_side in (sides, sides[::-1]):
                cs = flow.resolve(cmp_side) if isinstance(cmp_side, ast.Name) else cmp_side
                if not (isinstance(cs, ast.Compare) and len(cs.ops) == 1 and isinstance(sign_side, ast.Name) and sign_side.id == S):
                    continue
                a, b = cs.left, cs.comparators[0]
                ca, cb = flow.canon(a), flow.canon(b)
                first_two = (ca[0] == 'unpack' and cb[0] == 'unpack' and ca[1] == cb[1] and ca[2] == (0,) and cb[2] == (1,)) or \
                    (ca[0] == 'sub' and cb[0] == 'sub' and ca[1] == cb[1] and ca[2] == ('const', '0') and cb[2] == ('const', '1'))
                gt, lt = isinstance(cs.ops[0], ast.Gt), isinstance(cs.ops[0], ast.Lt)
                eq, ne = isinstance(ov.ops[0], ast.Eq), isinstance(ov.ops[0], ast.NotEq)
                # the sign used here must be the one updated by the flip
                upd_seen = any(is_param(d.value, PD) for d in flow.defs_of(sign_side) if d.value is not None)
                ok_o = first_two and ((gt and eq) or (lt and ne)) and upd_seen
                src = None
                if ca[0] == 'unpack' and isinstance(a, ast.Name):
                    d0 = flow.single_def(a)
                    src = d0.value if d0 is not None else None
                elif isinstance(a, ast.Subscript):
                    src = a.value
                src = flow.resolve(src) if src is not None else None
                vals = src
                if isinstance(src, ast.Subscript) and isinstance(src.slice, ast.Slice):
                    ok_slice = const_value(src.slice.lower, 0) == 0 and const_value(src.slice.upper, None) == 2 and src.slice.step is None
                    vals = flow.resolve(src.value)
                else:
                    ok_slice = ca[0] == 'sub'
                ok_src = bool(ok_slice and isinstance(vals, ast.Attribute) and vals.attr in ('values', 'data') and kind(vals.value) == 'copy')
                src_txt = norm_text(src) if src is not None else '?'
        ctx.check('R13.4', ok_src, "the two values compared are the first two of the copy's (possibly flipped) coordinate", fi, other if other is not None else rc,
                  construct=f"d1, d2 = {src_txt}")
        # two values are only read when there are two: a coordinate with one level is in either order already
        # (and ocean_floor normalises first, so a single-layer dataset could not be reduced at all)
        unpacks = [n for n in walk_no_nested(fi.node) if isinstance(n, ast.Assign) and isinstance(n.targets[0], ast.Tuple) and len(n.targets[0].elts) == 2
                   and isinstance(flow.resolve(n.value), ast.Subscript) and isinstance(flow.resolve(n.value).slice, ast.Slice)]
        from .common import guards as _g13
        ok_len = True
        gtxt = []
        for u in unpacks:
            g = _g13(fi, u)
            gtxt.append(g)
            owner = flow.resolve(flow.resolve(u.value).value)
            base = norm_text(owner.value) if isinstance(owner, ast.Attribute) else norm_text(owner)
            counts = (f"{base}.size", f"len({base})", f"len({base}.values)", f"{base}.values.size", f"{base}.shape[0]")
            at_least_two = {f"{c_}{op}" for c_ in counts for op in ('>1', '>=2')}
            fewer = {f"{c_}{op}" for c_ in counts for op in ('<2', '<=1')}
            ok_len = ok_len and any((pol and t.replace(' ', '') in at_least_two) or (not pol and t.replace(' ', '') in fewer) for t, pol in g)
        ctx.check('R13.4', ok_len, "the ordering is only read from a coordinate that has at least two levels", fi, unpacks[0] if unpacks else fi.node,
                  construct=f"guards of the two-value read: {gtxt}")
        ctx.check('R13.4', ok_o, "deep-to-shallow iff (first > second) == positive-down, with the sign as updated by the flip", fi, other if other is not None else rc,
                  construct=f"current ordering: {norm_text(ov) if ov is not None else '?'}")
        # single dimension
        ok_m = False
        if dim_ok:
            vcanon = dim_c[1][1]
            for r in [n for n in walk_no_nested(fi.node) if isinstance(n, ast.Raise)]:
                for t, pol in positive_conditions(fi, r):
                    if isinstance(t, ast.Compare) and len(t.ops) == 1 and isinstance(t.ops[0], ast.Eq) and pol is False and const_value(t.comparators[0], None) == 1 \
                            and flow.canon(t.left) == ('call', ('global', 'len'), (('attr', vcanon, 'dims'),), ()):
                        ok_m = True
            ok_m = ok_m and kind(rd.keys[0]) == 'input'
        ctx.check('R13.4', ok_m, "the dimension is the input coordinate's single dimension; multidimensional depth variables are refused", fi,
                  rd.keys[0], construct=f"dimension = {norm_text(flow.resolve(rd.keys[0]))} after `len(dims) != 1` raises")

    # ---- R13.6 wrapper
    with ctx.section('R13.6 wrapper'):
        for w in p.implementations(p.cls(BASE), 'normalize_depth_variables'):
            wf = ctx.flow(w)
            cs = [c for c in calls_in(w) if callee(ctx, w, c) == f"{DEPTH}.normalize_depth_variables"]
            ok = False
            if len(cs) == 1:
                a0, a1 = arg_or_kw(cs[0], 0, 'dataset'), arg_or_kw(cs[0], 1, 'depth_coordinates')
                k1, k2 = arg_or_kw(cs[0], 99, PD), arg_or_kw(cs[0], 99, D2S)
                ok = (a0 is not None and wf.canon(a0) == ('attr', ('param', 'self'), 'dataset')
                      and a1 is not None and wf.canon(a1) == ('attr', ('param', 'self'), 'depth_coordinates')
                      and k1 is not None and wf.canon(k1) == ('param', PD) and k2 is not None and wf.canon(k2) == ('param', D2S)
                      and len(cs[0].args) + len(cs[0].keywords) == 4
                      and all(wf.resolve(r.value) is cs[0] for r in w.returns()))
            ctx.check('R13.6', ok, "Convention.normalize_depth_variables forwards everything unchanged", w, cs[0] if cs else w.node)


# --------------------------------------------------------------------------- checker self-test
from ..variants import V  # noqa: E402

_D = 'src/emsarray/operations/depth.py'
VARIANTS = [
    V('C13', 'depth-coordinate-needs-every-marker', 'src/emsarray/conventions/_base.py', "                data_array.attrs.get('positive', '').lower() in {'up', 'down'}\n                or data_array.attrs.get('axis') == 'Z'\n                or data_array.attrs.get('cartesian_axis') == 'Z'\n                or data_array.attrs.get('coordinate_type') == 'Z'\n                or data_array.attrs.get('standard_name') == 'depth'", "                data_array.attrs.get('positive', '').lower() in {'up', 'down'}\n                and data_array.attrs.get('axis') == 'Z'\n                and data_array.attrs.get('cartesian_axis') == 'Z'\n                and data_array.attrs.get('coordinate_type') == 'Z'\n                and data_array.attrs.get('standard_name') == 'depth'", 'R13.7'),
    V('C13', 'second-coordinate-of-a-dimension-skipped', _D, "    new_dataset = dataset.copy()\n    for variable in depth_coordinates:\n        variable = utils.name_to_data_array(dataset, variable)\n        name = variable.name\n",
      "    new_dataset = dataset.copy()\n    seen = set()\n    for variable in depth_coordinates:\n        variable = utils.name_to_data_array(dataset, variable)\n        name = variable.name\n        if variable.dims[0] in seen:\n            continue\n        seen.add(variable.dims[0])\n", 'R13.5'),
    V('C13', 'benign-same-coordinate-listed-twice-recognised-by-name', _D, "    new_dataset = dataset.copy()\n    for variable in depth_coordinates:\n        variable = utils.name_to_data_array(dataset, variable)\n        name = variable.name\n",
      "    new_dataset = dataset.copy()\n    seen = set()\n    for variable in depth_coordinates:\n        variable = utils.name_to_data_array(dataset, variable)\n        name = variable.name\n        if name in seen:\n            continue\n        seen.add(name)\n", None),
    V('C13', 'positive-case-sensitive', _D, "(str(positive_attr).lower() == 'down')", "(positive_attr == 'down')", 'R13.2'),
    V('C13', 'writes-input-attr', _D, "            new_variable.attrs['positive'] = 'down' if positive_down else 'up'", "            variable.attrs['positive'] = 'down' if positive_down else 'up'", 'R13.1'),
    V('C13', 'no-copy', _D, "    new_dataset = dataset.copy()", "    new_dataset = dataset", 'R13.1'),
    V('C13', 'decision-from-input', _D, "            positive_attr = new_variable.attrs.get('positive')", "            positive_attr = variable.attrs.get('positive')", 'R13.2'),
    V('C13', 'decision-test-from-input', _D, "        if 'positive' in new_variable.attrs:", "        if 'positive' in variable.attrs:", 'R13.2'),
    V('C13', 'attribute-overwritten-before-read', _D, "        new_variable = new_dataset[name]\n        if 'positive' in new_variable.attrs:", "        new_variable = new_dataset[name]\n        if positive_down is not None:\n            new_variable.attrs['positive'] = 'down' if positive_down else 'up'\n        if 'positive' in new_variable.attrs:", 'R13.2'),
    V('C13', 'guess-counts-zeros-as-up', _D, "            data_positive_down = positive_values > negative_values", "            data_positive_down = positive_values > len(new_variable.values) / 2", 'R13.2'),
    V('C13', 'guess-from-input-values', _D, "            negative_values = numpy.count_nonzero(new_variable.values < 0)", "            negative_values = numpy.count_nonzero(variable.values < 0)", 'R13.2'),
    V('C13', 'guess-inverted', _D, "            data_positive_down = positive_values > negative_values", "            data_positive_down = positive_values < negative_values", 'R13.2'),
    V('C13', 'benign-guess-len-form', _D, "            positive_values = numpy.count_nonzero(new_variable.values > 0)", "            positive_values = len(new_variable.values[new_variable.values > 0])", None),
    V('C13', 'bounds-flip-outside-guard', _D, "            try:\n                bounds_name = new_variable.attrs['bounds']\n                bounds_variable = new_dataset[bounds_name]\n            except KeyError:\n                pass\n            else:\n                new_dataset = new_dataset.assign({\n                    bounds_name: (\n                        bounds_variable.dims,\n                        -1 * bounds_variable.values,\n                        bounds_variable.attrs,\n                        bounds_variable.encoding,\n                    ),\n                })\n\n            # Update this so the deep-to-shallow normalization can use it\n            data_positive_down = positive_down\n",
      "            # Update this so the deep-to-shallow normalization can use it\n            data_positive_down = positive_down\n\n        if positive_down is not None:\n            try:\n                bounds_name = new_variable.attrs['bounds']\n                bounds_variable = new_dataset[bounds_name]\n            except KeyError:\n                pass\n            else:\n                new_dataset = new_dataset.assign({\n                    bounds_name: (\n                        bounds_variable.dims,\n                        -1 * bounds_variable.values,\n                        bounds_variable.attrs,\n                        bounds_variable.encoding,\n                    ),\n                })\n", ('R13.3', 'R13.5')),
    V('C13', 'bounds-not-negated', _D, "                        -1 * bounds_variable.values,", "                        bounds_variable.values,", 'R13.3'),
    V('C13', 'bounds-only-data-vars', _D, "                bounds_variable = new_dataset[bounds_name]", "                bounds_variable = new_dataset.data_vars[bounds_name]", 'R13.3'),
    V('C13', 'sign-not-updated', _D, "            data_positive_down = positive_down\n", "            pass\n", ('R13.3', 'R13.4')),
    V('C13', 'reverse-one-variable', _D, "                new_dataset = new_dataset.isel({dimension: numpy.s_[::-1]})", "                new_dataset[name] = new_variable.isel({dimension: numpy.s_[::-1]})", 'R13.4'),
    V('C13', 'order-test-inverted', _D, "            data_deep_to_shallow = (d1 > d2) == data_positive_down", "            data_deep_to_shallow = (d1 < d2) == data_positive_down", 'R13.4'),
    V('C13', 'order-from-input', _D, "            d1, d2 = new_variable.values[0:2]", "            d1, d2 = variable.values[0:2]", 'R13.4'),
    V('C13', 'always-reverse', _D, "            if data_deep_to_shallow != deep_to_shallow:\n                new_dataset", "            if True:\n                new_dataset", 'R13.5'),
    V('C13', 'flip-when-unset', _D, "        if positive_down is not None and data_positive_down != positive_down:", "        if data_positive_down != bool(positive_down):", 'R13.5'),
    V('C13', 'up-down-swapped', _D, "'down' if positive_down else 'up'", "'up' if positive_down else 'down'", 'R13.5'),
    V('C13', 'depth-bounds-listed-as-coordinates', 'src/emsarray/conventions/_base.py', "            if name in bounds_names:\n                # The bounds of a depth coordinate can carry the same attributes\n                continue\n", "", 'R13.7'),
    V('C13', 'single-level-unpacked', _D, "        if deep_to_shallow is not None and new_variable.size > 1:", "        if deep_to_shallow is not None:", 'R13.4'),
    V('C13', 'wrapper-drops-option', 'src/emsarray/conventions/_base.py', "            positive_down=positive_down, deep_to_shallow=deep_to_shallow)", "            positive_down=positive_down)", 'R13.6'),
    # benign
    V('C13', 'benign-unary-minus', _D, "            new_values = -1 * new_variable.values", "            new_values = -new_variable.values", None),
    V('C13', 'benign-slice-form', _D, "            d1, d2 = new_variable.values[0:2]", "            d1, d2 = new_variable.values[:2]", None),
    V('C13', 'benign-inverted-attr-guard', _D, "            positive_attr = new_variable.attrs.get('positive')\n", "            positive_attr = new_variable.attrs['positive']\n", None),
]
