"""C13 - depth normalisation reorients coordinates and data together, idempotently."""
from __future__ import annotations

import ast

from ..effects import roots_of, writes_through
from ..model import const_value, dotted, kwarg, norm_text, walk_no_nested
from ..report import Context
from .common import arg_or_kw, calls_in, callee, enclosing_ifs, is_none, method_calls

DEPTH = 'emsarray.operations.depth'
BASE = 'emsarray.conventions._base.Convention'


def _is_negation_of_values(flow, expr, obj_canon) -> bool:
    e = flow.resolve(expr)
    inner = None
    if isinstance(e, ast.UnaryOp) and isinstance(e.op, ast.USub):
        inner = e.operand
    elif isinstance(e, ast.BinOp) and isinstance(e.op, ast.Mult):
        if const_value(e.left, None) == -1:
            inner = e.right
        elif const_value(e.right, None) == -1:
            inner = e.left
    if inner is None:
        return False
    inner = flow.resolve(inner)
    return isinstance(inner, ast.Attribute) and inner.attr in ('values', 'data') and flow.canon(inner.value) == obj_canon


def _guard_tests(fi, node):
    return [(norm_text(st.test), inb) for st, inb in enclosing_ifs(fi, node)]


def run(ctx: Context) -> None:
    p = ctx.p
    ctx.rule('R13.1', "purity: nothing is stored through an alias of the input dataset; all writes go to the copy", floor=2)
    ctx.rule('R13.2', "the flip decision reads the 'positive' attribute of the input variable, not of the copy whose attribute was just overwritten", floor=2)
    ctx.rule('R13.3', "coordinate values and their bounds are negated under the same guard (requested sign set and different from the data's), stored back under their own names with dims, attrs and encoding kept; the current sign is updated before the ordering test", floor=7)
    ctx.rule('R13.4', "ordering is read from the first two (possibly flipped) values, deep-to-shallow iff (d1 > d2) == positive-down, and a mismatch reverses the whole dataset along the coordinate's dimension", floor=4)
    ctx.rule('R13.5', "each transformation is dominated by its `is not None` guard and by a comparison of current with requested state (unset options leave that aspect untouched; a second application is a no-op)", floor=4)
    ctx.rule('R13.6', "the convention method forwards the dataset, its depth coordinates and both options unchanged", floor=1)
    ctx.assume("xarray Dataset.copy() gives independent attribute dictionaries and variables; assign/assign_coords/isel return new datasets")

    fi = ctx.func(f"{DEPTH}.normalize_depth_variables")
    flow = ctx.flow(fi)
    ds = fi.params[0]

    # ---- R13.1
    with ctx.section('R13.1'):
        bad = writes_through(fi, flow, ds)
        ctx.check('R13.1', not bad, "no store, deletion or in-place method through the input dataset", fi, bad[0][0] if bad else fi.node,
                  construct='writes through `dataset`: ' + ('; '.join(sorted({how for _, how in bad})) if bad else 'none'))
        copies = [c for c in method_calls(fi, 'copy') if flow.canon(c.func.value) == ('param', ds)]
        rets = fi.returns()
        ok_ret = bool(rets) and all('param:' + ds not in roots_of(flow, r.value) for r in rets)
        ctx.check('R13.1', len(copies) >= 1 and ok_ret, "the result is built from dataset.copy(), never the input object", fi, copies[0] if copies else fi.node,
                  construct='new_dataset = dataset.copy(); return new_dataset')

    # ---- locate the pieces
    with ctx.section('locate the pieces'):
        loops = [n for n in walk_no_nested(fi.node) if isinstance(n, ast.For)]
        ctx.need('R13.2', len(loops) >= 1, "normalize_depth_variables iterates over the depth coordinates", fi)
        # data_positive_down definitions
        dpd = [n for n in walk_no_nested(fi.node) if isinstance(n, ast.Assign) and len(n.targets) == 1
               and isinstance(n.targets[0], ast.Name) and n.targets[0].id == 'data_positive_down']
        ctx.need('R13.2', len(dpd) >= 2, "the current sign of the data is tracked in one variable", fi)
        attr_defs = [n for n in dpd if isinstance(n.value, ast.Compare) and len(n.value.ops) == 1 and isinstance(n.value.ops[0], ast.Eq)
                     and const_value(n.value.comparators[0], None) in ('down', 'up')]
        ok2 = False
        for n in attr_defs:
            src = flow.resolve(n.value.left)
            obj = None
            if isinstance(src, ast.Call) and isinstance(src.func, ast.Attribute) and src.func.attr == 'get' and src.args \
                    and const_value(src.args[0], None) == 'positive':
                obj = src.func.value
            elif isinstance(src, ast.Subscript) and const_value(src.slice, None) == 'positive':
                obj = src.value
            if obj is not None and isinstance(obj, ast.Attribute) and obj.attr == 'attrs':
                roots = roots_of(flow, obj.value)
                ok2 = ('param:' + ds) in roots and 'unknown' not in roots
                want_down = const_value(n.value.comparators[0], None) == 'down'
                ctx.check('R13.2', ok2 and want_down, "data_positive_down = (<input variable>.attrs['positive'] == 'down')", fi, n,
                          detail=f"roots of the object read: {sorted(roots)}")
        ctx.need('R13.2', bool(attr_defs), "the sign is read from the 'positive' attribute", fi)
        # the membership test guarding it also reads the input
        tests = [st for st in walk_no_nested(fi.node) if isinstance(st, ast.If) and isinstance(st.test, ast.Compare)
                 and const_value(st.test.left, None) == 'positive' and isinstance(st.test.ops[0], ast.In)]
        ok_t = bool(tests) and all(isinstance(t.test.comparators[0], ast.Attribute) and 'param:' + ds in roots_of(flow, t.test.comparators[0].value)
                                   and 'new' not in norm_text(t.test.comparators[0]) for t in tests)
        ctx.check('R13.2', ok_t, "'positive' in <input variable>.attrs decides between attribute and guess", fi, tests[0] if tests else fi.node,
                  construct=f"test: {norm_text(tests[0].test) if tests else '?'}")

    # ---- R13.5 attribute overwrite
    with ctx.section('R13.5 attribute overwrite'):
        attr_sets = [n for n in walk_no_nested(fi.node) if isinstance(n, ast.Assign) and isinstance(n.targets[0], ast.Subscript)
                     and const_value(n.targets[0].slice, None) == 'positive']
        ok5 = False
        for n in attr_sets:
            g = _guard_tests(fi, n)
            v = n.value
            ok_v = (isinstance(v, ast.IfExp) and const_value(v.body, None) == 'down' and const_value(v.orelse, None) == 'up'
                    and flow.canon(v.test) == ('param', 'positive_down'))
            ok5 = ('positive_down is not None', True) in g and ok_v
            ctx.check('R13.5', ok5, "the positive attribute is rewritten only when positive_down is given: 'down' if positive_down else 'up'", fi, n)
        ctx.need('R13.5', bool(attr_sets), "the positive attribute of the copy is set", fi)

    # ---- R13.3 flips
    with ctx.section('R13.3 flips'):
        flips = []
        for n in ast.walk(fi.node):
            if (isinstance(n, ast.BinOp) and isinstance(n.op, ast.Mult) and (const_value(n.left, None) == -1 or const_value(n.right, None) == -1)) \
                    or (isinstance(n, ast.UnaryOp) and isinstance(n.op, ast.USub) and not isinstance(n.operand, ast.Constant)):
                flips.append(n)
        ctx.need('R13.3', len(flips) >= 2, "coordinate and bounds values are negated", fi)
        flip_guard = None
        for n in flips:
            g = _guard_tests(fi, n)
            want = ('positive_down is not None and data_positive_down != positive_down', True)
            ok = want in g or ('data_positive_down != positive_down and positive_down is not None', True) in g
            ctx.check('R13.5', ok, "values are negated only when a sign is requested and differs from the data's", fi, n,
                      construct=f"negation `{norm_text(n)}` under {[t for t, _ in g]}")
            ifs = [st for st, inb in enclosing_ifs(fi, n)]
            if flip_guard is None and ifs:
                flip_guard = ifs[0]
            same = bool(ifs) and flip_guard is not None and ifs[0] is flip_guard
            ctx.check('R13.3', same, "coordinate and bounds negation sit under the same guard", fi, n,
                      construct=f"negation `{norm_text(n)}` guarded by `{norm_text(ifs[0].test) if ifs else 'nothing'}`")
        # what is negated: the copy's coordinate values, and the bounds named by the coordinate's `bounds` attribute
        objs = []
        for n in flips:
            inner = n.operand if isinstance(n, ast.UnaryOp) else (n.right if const_value(n.left, None) == -1 else n.left)
            inner = flow.resolve(inner)
            objs.append(inner)
        coord_ok = any(isinstance(o, ast.Attribute) and o.attr in ('values', 'data') and isinstance(o.value, ast.Name)
                       and roots_of(flow, o.value) == {'fresh'} and 'bounds' not in norm_text(o.value) for o in objs)
        ctx.check('R13.3', coord_ok, "the negated coordinate values are those of the copy's coordinate variable", fi, flips[0],
                  construct=f"negated: {[norm_text(o) for o in objs]}")
        bnames = [n for n in walk_no_nested(fi.node) if isinstance(n, ast.Assign) and isinstance(n.value, ast.Subscript)
                  and const_value(n.value.slice, None) == 'bounds' and isinstance(n.value.value, ast.Attribute) and n.value.value.attr == 'attrs']
        ok_b = False
        if bnames:
            bn = bnames[0]
            bname_c = flow.canon(bn.targets[0]) if False else None
            # bounds variable looked up by that name in the copy; negated; assigned back under that name
            bvar = [n for n in walk_no_nested(fi.node) if isinstance(n, ast.Assign) and isinstance(n.value, ast.Subscript)
                    and isinstance(n.value.slice, ast.Name) and isinstance(bn.targets[0], ast.Name) and n.value.slice.id == bn.targets[0].id]
            assigns = [c for c in method_calls(fi, 'assign') if c.args and isinstance(c.args[0], ast.Dict) and len(c.args[0].keys) == 1
                       and isinstance(c.args[0].keys[0], ast.Name) and isinstance(bn.targets[0], ast.Name) and c.args[0].keys[0].id == bn.targets[0].id]
            if bvar and assigns:
                tup = assigns[0].args[0].values[0]
                bv = bvar[0].targets[0]
                if isinstance(tup, ast.Tuple) and len(tup.elts) == 4 and isinstance(bv, ast.Name):
                    ok_b = (norm_text(tup.elts[0]) == f"{bv.id}.dims" and _is_negation_of_values(flow, tup.elts[1], flow.canon(ast.Name(id=bv.id, ctx=ast.Load())) if False else flow.canon(bvar[0].value))
                            and norm_text(tup.elts[2]) == f"{bv.id}.attrs" and norm_text(tup.elts[3]) == f"{bv.id}.encoding"
                            and roots_of(flow, bvar[0].value.value) == {'fresh'})
        ctx.check('R13.3', ok_b, "bounds named by the coordinate's `bounds` attribute are negated and stored back under that name with dims/attrs/encoding", fi,
                  bnames[0] if bnames else fi.node, construct='new_dataset.assign({bounds_name: (dims, -1 * values, attrs, encoding)})')
        missing_ok = any(isinstance(n, ast.Try) and any(norm_text(h.type) == 'KeyError' for h in n.handlers if h.type is not None)
                         and any(b is bnames[0] for b in n.body) for n in walk_no_nested(fi.node)) if bnames else False
        ctx.check('R13.3', missing_ok, "a coordinate without bounds is simply not bounds-flipped", fi, bnames[0] if bnames else fi.node,
                  construct='try: bounds lookup except KeyError')
        # stored back under the coordinate's own name, both for dimension and non dimension coordinates
        stores = [c for c in calls_in(fi) if isinstance(c.func, ast.Attribute) and c.func.attr in ('assign', 'assign_coords')
                  and c.args and isinstance(c.args[0], ast.Dict) and len(c.args[0].keys) == 1 and norm_text(c.args[0].keys[0]) == 'name']
        ok_s = len(stores) == 2
        for c in stores:
            v = c.args[0].values[0]
            if c.func.attr == 'assign':
                ok_s = ok_s and isinstance(v, ast.Tuple) and len(v.elts) == 4 and norm_text(v.elts[0]) == '[dimension]' \
                    and norm_text(v.elts[2]).endswith('.attrs') and norm_text(v.elts[3]).endswith('.encoding')
            g = _guard_tests(fi, c)
            ok_s = ok_s and ((('name == dimension', True) in g) == (c.func.attr == 'assign_coords'))
        ctx.check('R13.3', ok_s, "flipped values replace the coordinate under its own name (assign_coords for a dimension coordinate, assign otherwise)", fi,
                  stores[0] if stores else fi.node, construct=f"stores: {[norm_text(c.func) for c in stores]}")
        # attrs and encoding of a dimension coordinate are carried over too
        carry = [n for n in walk_no_nested(fi.node) if isinstance(n, ast.Assign) and isinstance(n.targets[0], ast.Attribute)
                 and n.targets[0].attr in ('attrs', 'encoding') and norm_text(n.targets[0].value) == 'new_dataset[name]']
        ctx.check('R13.3', {n.targets[0].attr for n in carry} == {'attrs', 'encoding'}, "a flipped dimension coordinate keeps its attrs and encoding", fi,
                  carry[0] if carry else fi.node, construct=f"carried: {sorted(n.targets[0].attr for n in carry)}")
        upd = [n for n in dpd if flow.canon(n.value) == ('param', 'positive_down')]
        ok_u = False
        if upd and flip_guard is not None:
            ok_u = any(st is flip_guard for st, inb in enclosing_ifs(fi, upd[0]))
        ctx.check('R13.3', ok_u, "after a flip the current sign becomes the requested one (inside the flip guard, before the ordering test)", fi,
                  upd[0] if upd else fi.node, construct='data_positive_down = positive_down')

    # ---- R13.4 ordering
    with ctx.section('R13.4 ordering'):
        order = [n for n in walk_no_nested(fi.node) if isinstance(n, ast.Assign) and isinstance(n.targets[0], ast.Name)
                 and n.targets[0].id == 'data_deep_to_shallow']
        ctx.need('R13.4', len(order) == 1, "the current ordering is computed once", fi)
        ov = order[0].value
        ok_o = False
        if isinstance(ov, ast.Compare) and len(ov.ops) == 1 and isinstance(ov.left, ast.Compare) and len(ov.left.ops) == 1:
            a, b = ov.left.left, ov.left.comparators[0]
            ca, cb = flow.canon(a), flow.canon(b)
            first_two = (ca[0] == 'unpack' and cb[0] == 'unpack' and ca[1] == cb[1] and ca[2] == (0,) and cb[2] == (1,))
            dpd_side = isinstance(ov.comparators[0], ast.Name) and ov.comparators[0].id == 'data_positive_down'
            gt = isinstance(ov.left.ops[0], ast.Gt)
            lt = isinstance(ov.left.ops[0], ast.Lt)
            eq = isinstance(ov.ops[0], ast.Eq)
            ne = isinstance(ov.ops[0], ast.NotEq)
            ok_o = first_two and dpd_side and ((gt and eq) or (lt and ne))
            src = None
            for n in walk_no_nested(fi.node):
                if isinstance(n, ast.Assign) and isinstance(n.targets[0], ast.Tuple) and len(n.targets[0].elts) == 2 \
                        and isinstance(a, ast.Name) and isinstance(n.targets[0].elts[0], ast.Name) and n.targets[0].elts[0].id == a.id:
                    src = n.value
            ok_src = (isinstance(src, ast.Subscript) and isinstance(src.slice, ast.Slice) and const_value(src.slice.lower, 0) == 0
                      and const_value(src.slice.upper, None) == 2 and src.slice.step is None
                      and isinstance(src.value, ast.Attribute) and src.value.attr in ('values', 'data')
                      and roots_of(flow, src.value.value) == {'fresh'})
            ctx.check('R13.4', bool(ok_src), "the two values compared are the first two of the copy's (possibly flipped) coordinate", fi, order[0],
                      construct=f"d1, d2 = {norm_text(src) if src is not None else '?'}")
        ctx.check('R13.4', ok_o, "deep-to-shallow iff (first > second) == positive-down", fi, order[0])
        revs = [c for c in method_calls(fi, 'isel')]
        ok_r = False
        for c in revs:
            if c.args and isinstance(c.args[0], ast.Dict) and len(c.args[0].keys) == 1:
                v = c.args[0].values[0]
                rev_slice = (isinstance(v, ast.Subscript) and norm_text(v.value).endswith('s_') and isinstance(v.slice, ast.Slice)
                             and v.slice.lower is None and v.slice.upper is None and const_value(v.slice.step, None) == -1) or \
                    (isinstance(v, ast.Call) and dotted(v.func) == 'slice' and [const_value(x, 'x') for x in v.args] == [None, None, -1])
                on_dataset = roots_of(flow, c.func.value) == {'fresh'} and isinstance(c.func.value, ast.Name)
                dim_ok = norm_text(c.args[0].keys[0]) == 'dimension'
                g = _guard_tests(fi, c)
                guard_ok = ('deep_to_shallow is not None', True) in g and (('data_deep_to_shallow != deep_to_shallow', True) in g or ('deep_to_shallow != data_deep_to_shallow', True) in g)
                ctx.check('R13.5', guard_ok, "the reversal happens only when an ordering is requested and differs from the data's", fi, c,
                          construct=f"reversal under {[t for t, _ in g]}")
                ok_r = rev_slice and on_dataset and dim_ok
                # the reversed dataset replaces the working copy
                st = [n for n in walk_no_nested(fi.node) if isinstance(n, ast.Assign) and n.value is c]
                ok_r = ok_r and bool(st) and norm_text(st[0].targets[0]) == norm_text(c.func.value)
        ctx.check('R13.4', ok_r, "a mismatch reverses the whole dataset along the coordinate's dimension ([::-1])", fi, revs[0] if revs else fi.node,
                  construct=f"reversal: {norm_text(revs[0]) if revs else 'absent'}")
        dims = [n for n in walk_no_nested(fi.node) if isinstance(n, ast.Assign) and norm_text(n.targets[0]) == 'dimension']
        ok_d = len(dims) == 1 and isinstance(dims[0].value, ast.Subscript) and const_value(dims[0].value.slice, None) == 0 \
            and isinstance(dims[0].value.value, ast.Attribute) and dims[0].value.value.attr == 'dims'
        multi = [n for n in walk_no_nested(fi.node) if isinstance(n, ast.Raise)]
        ok_m = any(('len(variable.dims) != 1', True) in _guard_tests(fi, r) for r in multi)
        ctx.check('R13.4', ok_d and ok_m, "the dimension is the coordinate's single dimension; multidimensional depth variables are refused", fi,
                  dims[0] if dims else fi.node, construct='dimension = variable.dims[0] after `len(variable.dims) != 1` raises')

    # ---- R13.6 wrapper
    with ctx.section('R13.6 wrapper'):
        for w in p.implementations(p.cls(BASE), 'normalize_depth_variables'):
            wf = ctx.flow(w)
            cs = [c for c in calls_in(w) if callee(ctx, w, c) == f"{DEPTH}.normalize_depth_variables"]
            ok = (len(cs) == 1 and len(cs[0].args) == 2 and wf.canon(cs[0].args[0]) == ('attr', ('param', 'self'), 'dataset')
                  and wf.canon(cs[0].args[1]) == ('attr', ('param', 'self'), 'depth_coordinates')
                  and kwarg(cs[0], 'positive_down') is not None and wf.canon(kwarg(cs[0], 'positive_down')) == ('param', 'positive_down')
                  and kwarg(cs[0], 'deep_to_shallow') is not None and wf.canon(kwarg(cs[0], 'deep_to_shallow')) == ('param', 'deep_to_shallow')
                  and all(wf.resolve(r.value) is cs[0] for r in w.returns()))
            ctx.check('R13.6', ok, "Convention.normalize_depth_variables forwards everything unchanged", w, cs[0] if cs else w.node)



# --------------------------------------------------------------------------- checker self-test
from ..variants import V  # noqa: E402

_D = 'src/emsarray/operations/depth.py'
VARIANTS = [
    V('C13', 'writes-input-attr', _D, "            new_variable.attrs['positive'] = 'down' if positive_down else 'up'", "            variable.attrs['positive'] = 'down' if positive_down else 'up'", 'R13.1'),
    V('C13', 'no-copy', _D, "    new_dataset = dataset.copy()", "    new_dataset = dataset", 'R13.1'),
    V('C13', 'decision-from-copy', _D, "            positive_attr = variable.attrs.get('positive')", "            positive_attr = new_variable.attrs.get('positive')", 'R13.2'),
    V('C13', 'bounds-flip-outside-guard', _D, "            try:\n                bounds_name = new_variable.attrs['bounds']\n                bounds_variable = new_dataset[bounds_name]\n            except KeyError:\n                pass\n            else:\n                new_dataset = new_dataset.assign({\n                    bounds_name: (\n                        bounds_variable.dims,\n                        -1 * bounds_variable.values,\n                        bounds_variable.attrs,\n                        bounds_variable.encoding,\n                    ),\n                })\n\n            # Update this so the deep-to-shallow normalization can use it\n            data_positive_down = positive_down\n",
      "            # Update this so the deep-to-shallow normalization can use it\n            data_positive_down = positive_down\n\n        if positive_down is not None:\n            try:\n                bounds_name = new_variable.attrs['bounds']\n                bounds_variable = new_dataset[bounds_name]\n            except KeyError:\n                pass\n            else:\n                new_dataset = new_dataset.assign({\n                    bounds_name: (\n                        bounds_variable.dims,\n                        -1 * bounds_variable.values,\n                        bounds_variable.attrs,\n                        bounds_variable.encoding,\n                    ),\n                })\n", ('R13.3', 'R13.5')),
    V('C13', 'bounds-not-negated', _D, "                        -1 * bounds_variable.values,", "                        bounds_variable.values,", 'R13.3'),
    V('C13', 'sign-not-updated', _D, "            data_positive_down = positive_down\n", "            pass\n", 'R13.3'),
    V('C13', 'reverse-one-variable', _D, "                new_dataset = new_dataset.isel({dimension: numpy.s_[::-1]})", "                new_dataset[name] = new_variable.isel({dimension: numpy.s_[::-1]})", 'R13.4'),
    V('C13', 'order-test-inverted', _D, "            data_deep_to_shallow = (d1 > d2) == data_positive_down", "            data_deep_to_shallow = (d1 < d2) == data_positive_down", 'R13.4'),
    V('C13', 'order-from-input', _D, "            d1, d2 = new_variable.values[0:2]", "            d1, d2 = variable.values[0:2]", 'R13.4'),
    V('C13', 'always-reverse', _D, "            if data_deep_to_shallow != deep_to_shallow:\n                new_dataset", "            if True:\n                new_dataset", 'R13.5'),
    V('C13', 'flip-when-unset', _D, "        if positive_down is not None and data_positive_down != positive_down:", "        if data_positive_down != bool(positive_down):", 'R13.5'),
    V('C13', 'up-down-swapped', _D, "'down' if positive_down else 'up'", "'up' if positive_down else 'down'", 'R13.5'),
    V('C13', 'wrapper-drops-option', 'src/emsarray/conventions/_base.py', "            positive_down=positive_down, deep_to_shallow=deep_to_shallow)", "            positive_down=positive_down)", 'R13.6'),
    # benign
    V('C13', 'benign-unary-minus', _D, "            new_values = -1 * new_variable.values", "            new_values = -new_variable.values", None),
    V('C13', 'benign-slice-form', _D, "            d1, d2 = new_variable.values[0:2]", "            d1, d2 = new_variable.values[:2]", None),
]
