"""C18 - transects: pairing and ordering only."""
from __future__ import annotations

import ast

from ..model import AnalysisError, const_value, dotted, kwarg, norm_text, walk_no_nested
from ..report import Context
from .common import calls_in, callee, enclosing_ifs, is_none, method_calls, predicate_of, strtree_queries

TR = 'emsarray.transect.Transect'


def run(ctx: Context) -> None:
    p = ctx.p
    ctx.rule('R18.1', "each segment's linear index, native index and polygon come from the same hit of strtree.query(<the path>, predicate='intersects'); every line piece of the cell's intersection with the path becomes a segment (single, multi-part or mixed results)", floor=8)
    ctx.rule('R18.2', "start / end of a segment are its two end points ordered by distance along the path; segments are listed by (start distance, end distance)", floor=4)
    ctx.rule('R18.3', "the transect dataset's distance bounds and linear indexes iterate the same, unfiltered segment list in order", floor=4)
    ctx.rule('R18.4', "data prepared for plotting: the variable is flattened with the convention's ravel, depth and index moved last in that order, the index dimension selected positionally with the segments' linear indexes; the patches nest depth (outer) then segment (inner), matching a row-major flatten of (depth, index)", floor=6)
    ctx.rule('R18.5', "distance along the path: a point's distance is the cumulative distance of the last path vertex not after it plus the distance from that vertex; path vertices accumulate distance from their predecessor", floor=4)
    ctx.assume("NOT decided: segment geometry (inside the cell, lengths adding up) and metre distances: GEOS / cartopy at run time")

    seg = ctx.func(f"{TR}.segments")
    flow = ctx.flow(seg)
    qs = strtree_queries(ctx, seg)
    ctx.need('R18.1', len(qs) == 1, "Transect.segments queries the spatial index once", seg)
    q = qs[0]
    ctx.check('R18.1', predicate_of(q) == 'intersects', "predicate is the literal 'intersects'", seg, q, construct=f"predicate={predicate_of(q)!r}")
    ok = bool(q.args) and norm_text(q.args[0]) == 'self.line' and norm_text(q.func.value) == 'self.convention.strtree'
    ctx.check('R18.1', ok, "the geometry queried is the path itself, on the dataset's convention", seg, q)
    loops = [n for n in walk_no_nested(seg.node) if isinstance(n, ast.For)]
    outer = [l for l in loops if flow.resolve(l.iter) is q]
    ctx.need('R18.1', len(outer) == 1 and isinstance(outer[0].target, ast.Name), "the segments are built in one loop over the hits", seg)
    lv = outer[0].target.id
    body = {norm_text(s.targets[0]): norm_text(s.value) for s in outer[0].body if isinstance(s, ast.Assign)}
    ok = body.get('polygon') == f"self.convention.polygons[{lv}]" and body.get('index') == f"self.convention.wind_index({lv})"
    ctx.check('R18.1', ok, "polygon and native index are those of the hit's own linear index", seg, outer[0], construct=f"per hit: {body}")
    inner = [l for l in loops if l is not outer[0] and any(x is l for x in ast.walk(outer[0]))]
    ok = len(inner) == 1 and norm_text(inner[0].iter) == 'self._intersect_polygon(polygon)'
    ctx.check('R18.1', ok, "every line piece of this cell's intersection is visited", seg, inner[0] if inner else outer[0])
    ts = [c for c in calls_in(seg) if (dotted(c.func) or '').endswith('TransectSegment')]
    ctx.need('R18.1', len(ts) == 1, "one TransectSegment is built per piece", seg)
    kw = {k.arg: norm_text(k.value) for k in ts[0].keywords}
    ok = (kw.get('index') == 'index' and kw.get('linear_index') == lv and kw.get('polygon') == 'polygon' and kw.get('intersection') == norm_text(inner[0].target) if inner else False)
    ctx.check('R18.1', ok, "the segment carries that same linear index, native index, polygon and piece", seg, ts[0], construct=f"TransectSegment({kw})")
    app = [c for c in method_calls(seg, 'append') if c.args and c.args[0] is ts[0]]
    ok = len(app) == 1 and not [st for st, inb in enclosing_ifs(seg, app[0])]
    ctx.check('R18.1', ok, "every piece is appended unconditionally", seg, app[0] if app else seg.node)
    ip = ctx.func(f"{TR}._intersect_polygon")
    itxt = [norm_text(s) for s in ip.body]
    tests = [n for n in walk_no_nested(ip.node) if isinstance(n, ast.If) and 'isinstance(intersection' in norm_text(n.test)]
    ok = False
    if len(tests) == 1:
        t = tests[0].test
        types = set()
        if isinstance(t, ast.Call) and len(t.args) == 2:
            tt = t.args[1]
            types = {norm_text(e).rsplit('.', 1)[-1] for e in (tt.elts if isinstance(tt, ast.Tuple) else [tt])}
        ok = {'GeometryCollection', 'MultiLineString'} <= types and any(norm_text(s) == 'geoms = intersection.geoms' for s in tests[0].body) \
            and any(norm_text(s) == 'geoms = [intersection]' for s in tests[0].orelse)
    ctx.check('R18.1', ok, "multi-part results (GeometryCollection and MultiLineString) are split into their parts; a single geometry is taken as is", ip,
              tests[0] if tests else ip.node, construct=f"multi-part test: {norm_text(tests[0].test) if tests else 'absent'}")
    ok = ('intersection = polygon.intersection(self.line)' in itxt and
          all(norm_text(r.value) == '[geom for geom in geoms if isinstance(geom, shapely.LineString)]' for r in ip.returns()) and ip.returns())
    ctx.check('R18.1', bool(ok), "the pieces are the LineString parts of polygon ∩ path", ip, ip.node)

    # ---- R18.2
    srt = [n for n in ast.walk(seg.node) if isinstance(n, ast.Assign) and norm_text(n.targets[0]) == '(start, end)']
    ok = len(srt) == 1 and norm_text(srt[0].value) == 'sorted(projections, key=lambda pair: pair[1])'
    ctx.check('R18.2', ok, "start and end are the two end points sorted ascending by distance", seg, srt[0] if srt else seg.node)
    pts = [n for n in ast.walk(seg.node) if isinstance(n, ast.Assign) and norm_text(n.targets[0]) == 'points']
    ok = len(pts) == 1 and norm_text(pts[0].value) == '[shapely.Point(intersection.coords[0]), shapely.Point(intersection.coords[-1])]'
    pr = [n for n in ast.walk(seg.node) if isinstance(n, ast.AnnAssign) and norm_text(n.target) == 'projections']
    ok = ok and len(pr) == 1 and norm_text(pr[0].value) == '((point, self.distance_along_line(point)) for point in points)'
    ctx.check('R18.2', ok, "the end points are the first and last coordinate of the piece, each with its distance along the path", seg, pts[0] if pts else seg.node)
    ok = (kw.get('start_point') == 'start[0]' and kw.get('end_point') == 'end[0]' and kw.get('start_distance') == 'start[1]' and kw.get('end_distance') == 'end[1]')
    ctx.check('R18.2', ok, "start_* fields take the nearer end, end_* the farther", seg, ts[0])
    rets = seg.returns()
    ok = bool(rets) and all(norm_text(r.value) == 'sorted(segments, key=lambda i: (i.start_distance, i.end_distance))' for r in rets)
    ctx.check('R18.2', ok, "segments are returned sorted by (start distance, end distance)", seg, rets[0] if rets else seg.node)

    # ---- R18.3
    td = ctx.func(f"{TR}.transect_dataset")
    li = [n for n in walk_no_nested(td.node) if isinstance(n, ast.Assign) and norm_text(n.targets[0]) == 'linear_indexes']
    ok = len(li) == 1 and norm_text(li[0].value) == '[segment.linear_index for segment in self.segments]'
    ctx.check('R18.3', ok, "linear indexes: one per segment, in segment order, unfiltered", td, li[0] if li else td.node)
    db = [c for c in calls_in(td) if callee(ctx, td, c) == 'numpy.fromiter']
    ok = (len(db) == 1 and norm_text(db[0].args[0]) == '([segment.start_distance, segment.end_distance] for segment in self.segments)'
          and norm_text(kwarg(db[0], 'count') or ast.Constant(None)) == 'len(self.segments)')
    ctx.check('R18.3', ok, "distance bounds: [start, end] per segment over the same list in the same order", td, db[0] if db else td.node)
    lin = [n for n in walk_no_nested(td.node) if isinstance(n, ast.Assign) and norm_text(n.targets[0]) == 'linear_index']
    ok = len(lin) == 1 and norm_text(kwarg(lin[0].value, 'data') or ast.Constant(None)) == 'linear_indexes' and norm_text(kwarg(lin[0].value, 'dims')) == "('index',)"
    dbv = [n for n in walk_no_nested(td.node) if isinstance(n, ast.Assign) and norm_text(n.targets[0]) == 'distance_bounds']
    ok = ok and len(dbv) == 1 and norm_text(kwarg(dbv[0].value, 'dims')) == "('index', 'bounds')"
    ctx.check('R18.3', ok, "both are on the transect's index dimension", td, lin[0] if lin else td.node)
    ds = [c for c in calls_in(td) if (callee(ctx, td, c) or '').endswith('xarray.Dataset')]
    ok = False
    if len(ds) == 1:
        dv, co = kwarg(ds[0], 'data_vars'), kwarg(ds[0], 'coords')
        ok = (isinstance(dv, ast.Dict) and {const_value(k, None): norm_text(v) for k, v in zip(dv.keys, dv.values)} == {'depth_bounds': 'depth_bounds', 'distance_bounds': 'distance_bounds'}
              and isinstance(co, ast.Dict) and {const_value(k, None): norm_text(v) for k, v in zip(co.keys, co.values)} == {'depth': 'depth', 'linear_index': 'linear_index'})
    ctx.check('R18.3', ok, "the dataset publishes exactly those variables under their names", td, ds[0] if ds else td.node)

    # ---- R18.4
    pa = ctx.func(f"{TR}.prepare_data_array_for_transect")
    ptxt = [norm_text(s) for s in pa.body]
    want = ['attrs = data_array.attrs', 'data_array = self.convention.ravel(data_array)',
            "depth_dimension = self.transect_dataset.coords['depth'].dims[0]", 'index_dimension = data_array.dims[-1]',
            'data_array = move_dimensions_to_end(data_array, [depth_dimension, index_dimension])',
            "linear_indexes = self.transect_dataset['linear_index'].values", 'data_array = data_array.isel({index_dimension: linear_indexes})']
    for w, text in zip(want[1:], ("the variable is flattened by the convention (linear index order on the last dimension)",
                                  "the depth dimension is the transect's depth coordinate's", "the index dimension is the flattened (last) one",
                                  "depth then index are moved last, in that order", "the linear indexes are the transect's own",
                                  "cells are picked positionally (isel) along the index dimension with those indexes")):
        ctx.check('R18.4', w in ptxt, text, pa, pa.node, construct=w)
    order = [ptxt.index(w) for w in want if w in ptxt]
    ctx.check('R18.4', order == sorted(order) and len(order) == len(want), "those steps happen in this order", pa, pa.node, construct=f"step order {order}")
    mp = ctx.func(f"{TR}.make_poly_collection")
    comps = [n for n in ast.walk(mp.node) if isinstance(n, ast.ListComp) and len(n.generators) == 2]
    ok = False
    if len(comps) == 1:
        g0, g1 = comps[0].generators
        ok = (norm_text(g0.target) == 'depth_index' and norm_text(g0.iter) == "range(transect_dataset.coords['depth'].size)"
              and norm_text(g1.target) == 'index' and norm_text(g1.iter) == "range(transect_dataset.sizes['index'])")
        elt = norm_text(comps[0].elt)
        ok = ok and 'distance_bounds[index, 0]' in elt and 'distance_bounds[index, 1]' in elt and 'depth_bounds[depth_index][0]' in elt and 'depth_bounds[depth_index][1]' in elt
    ctx.check('R18.4', ok, "patches are generated depth-major, segment-minor: patch k = (depth k // n, segment k % n), as values.flatten() of (depth, index)", mp,
              comps[0] if comps else mp.node)
    for name in ('plot_on_figure', 'animate_on_figure'):
        fi = ctx.func(f"{TR}.{name}")
        sets = [c for c in calls_in(fi, nested=True) if isinstance(c.func, ast.Attribute) and c.func.attr == 'set_array']
        ok = len(sets) == 1 and norm_text(sets[0].args[0]).endswith('.values.flatten()') and 'data_array' in norm_text(sets[0].args[0])
        ctx.check('R18.4', ok, "the values handed to the collection are the prepared array flattened row-major", fi, sets[0] if sets else fi.node,
                  construct=f"{name}: {norm_text(sets[0]) if sets else 'set_array not found'}")

    # ---- R18.5
    dl = ctx.func(f"{TR}.distance_along_line")
    dtxt = ' '.join(norm_text(s) for s in dl.body)
    ok = ('distance_normalised = self.line.project(point, normalized=True)' in dtxt
          and 'line_point = next((lp for lp in reversed(self.points) if lp.distance_normalised <= distance_normalised))' in dtxt
          and 'return line_point.distance_metres + distance_from_point' in dtxt
          and 'ORIGIN.distance(line_point.crs.project_geometry(point, src_crs=data_crs))' in dtxt)
    ctx.check('R18.5', ok, "distance = cumulative distance of the last path vertex at or before the point + distance from that vertex (in that vertex's projection)", dl, dl.node)
    ok = 'if distance_normalised < 0 or distance_normalised > 1: raise ValueError' in dtxt.replace('\n', ' ')
    ctx.check('R18.5', ok, "a point off the path is refused", dl, dl.node)
    pt = ctx.func(f"{TR}.points")
    ptx = ' '.join(norm_text(s) for s in ast.walk(pt.node) if isinstance(s, (ast.Assign, ast.For, ast.Expr)))
    ok = ('previous = points[-1]' in ptx and 'distance_metres=previous.distance_metres + distance_from_previous' in ptx
          and 'distance_from_previous = ORIGIN.distance(previous.crs.project_geometry(point, src_crs=data_crs))' in ptx
          and 'distance_normalised=self.line.project(point, normalized=True)' in ptx and 'for point in map(shapely.Point, self.line.coords[1:])' in ptx)
    ctx.check('R18.5', ok, "path vertices accumulate distance from their predecessor, in path order", pt, pt.node)
    ok = 'distance_metres=0' in ptx and 'point = shapely.Point(self.line.coords[0])' in ptx
    ctx.check('R18.5', ok, "the first vertex is at distance 0", pt, pt.node)


# --------------------------------------------------------------------------- checker self-test
from ..variants import V  # noqa: E402

_T = 'src/emsarray/transect.py'
VARIANTS = [
    V('C18', 'predicate-crosses', _T, "self.convention.strtree.query(self.line, predicate='intersects')", "self.convention.strtree.query(self.line, predicate='crosses')", 'R18.1'),
    V('C18', 'linear-index-from-enumerate', _T, "        for linear_index in intersecting_indexes:\n            polygon = self.convention.polygons[linear_index]", "        for linear_index, hit in enumerate(intersecting_indexes):\n            polygon = self.convention.polygons[hit]", 'R18.1'),
    V('C18', 'multilinestring-dropped', _T, "isinstance(intersection, (shapely.GeometryCollection, shapely.MultiLineString))", "isinstance(intersection, shapely.GeometryCollection)", 'R18.1'),
    V('C18', 'start-end-unsorted', _T, "                start, end = sorted(projections, key=lambda pair: pair[1])", "                start, end = projections", 'R18.2'),
    V('C18', 'segments-unsorted', _T, "        return sorted(segments, key=lambda i: (i.start_distance, i.end_distance))", "        return segments", 'R18.2'),
    V('C18', 'bounds-filtered', _T, "                    for segment in self.segments\n                ),", "                    for segment in self.segments\n                    if segment.end_distance > segment.start_distance\n                ),", 'R18.3'),
    V('C18', 'moved-index-then-depth', _T, "move_dimensions_to_end(data_array, [depth_dimension, index_dimension])", "move_dimensions_to_end(data_array, [index_dimension, depth_dimension])", 'R18.4'),
    V('C18', 'patch-nesting-swapped', _T, "            for depth_index in range(transect_dataset.coords['depth'].size)\n            for index in range(transect_dataset.sizes['index'])", "            for index in range(transect_dataset.sizes['index'])\n            for depth_index in range(transect_dataset.coords['depth'].size)", 'R18.4'),
    V('C18', 'vertex-choice-first', _T, "            lp for lp in reversed(self.points)\n            if lp.distance_normalised <= distance_normalised)", "            lp for lp in self.points\n            if lp.distance_normalised <= distance_normalised)", 'R18.5'),
]
