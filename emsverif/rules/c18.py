"""C18 - transects: pairing and ordering only (structural patterns with metavariables)."""
from __future__ import annotations

import ast
import re

from ..model import const_value, dotted, kwarg, norm_text, walk_no_nested
from ..pattern import Matcher
from ..report import Context
from .common import calls_in, callee, enclosing_ifs, method_calls, predicate_of, strtree_queries

TR = 'emsarray.transect.Transect'


def _line(n):
    return getattr(n, 'lineno', 0)


def run(ctx: Context) -> None:
    p = ctx.p
    ctx.rule('R18.1', "each segment's linear index, native index and polygon come from the same hit of strtree.query(<the path>, predicate='intersects'); every line piece of the cell's intersection with the path becomes a segment (single, multi-part or mixed results)", floor=8)
    ctx.rule('R18.2', "start / end of a segment are its two end points ordered by distance along the path; segments are listed by (start distance, end distance)", floor=4)
    ctx.rule('R18.3', "the transect dataset's distance bounds and linear indexes iterate the same, unfiltered segment list in order", floor=4)
    ctx.rule('R18.4', "data prepared for plotting: the variable is flattened with the convention's ravel, depth and index moved last in that order, the index dimension selected positionally with the segments' linear indexes; the patches nest depth (outer) then segment (inner), matching a row-major flatten of (depth, index)", floor=6)
    ctx.rule('R18.5', "distance along the path: a point's distance is the cumulative distance of the last path vertex not after it plus the distance from that vertex; path vertices accumulate distance from their predecessor", floor=4)
    ctx.rule('R18.6', "the values paired with the segments are flattened in the convention's own index order whatever order the variable stores its dimensions in (facts shared with C03 R03.1)", floor=8)
    from . import c03 as _c03
    from .common import share_obligations as _share
    _share(ctx, _c03, {'R03.1'}, 'R18.6')
    ctx.rule('R18.8', "distances along the path are measured from projections centred on the path vertices themselves", floor=1)
    from . import infra as _infra
    _infra.crs_centre(ctx, 'R18.8')
    # the prepared array is used by position: every exit of move_dimensions_to_end has (depth, index) last, in that order
    _infra.move_dimensions_exits(ctx, 'R18.4')
    from .common import adopt_foundations as _adopt
    _adopt(ctx, 'R18.7', ['geometry', 'order'], floor=60)
    ctx.rule('R18.10', "the depth coordinate a transect plot pairs with a variable is the one whose dimensions the variable has: exactly one candidate, or a refusal", floor=3)
    with ctx.section('R18.10'):
        from .common import facts as _f1810
        gd = ctx.func('emsarray.conventions._base.Convention.get_depth_coordinate_for_data_array')
        gflow = ctx.flow(gd)
        comps_ = [n for n in ast.walk(gd.node) if isinstance(n, (ast.ListComp, ast.GeneratorExp)) and len(n.generators) == 1
                  and norm_text(n.generators[0].iter) == 'self.depth_coordinates']
        ctx.need('R18.10', len(comps_) == 1, "the candidates are chosen among self.depth_coordinates", gd)
        g_ = comps_[0].generators[0]
        v_ = norm_text(g_.target)
        filt_ = [norm_text(t) for t in g_.ifs]
        da_ = None
        for t in g_.ifs:
            mm = re.fullmatch(rf"set\({re.escape(v_)}\.dims\) <= set\((\w+)\.dims\)", norm_text(t)) or re.fullmatch(rf"set\({re.escape(v_)}\.dims\)\.issubset\((\w+)\.dims\)", norm_text(t))
            if mm:
                da_ = mm.group(1)
        ok = len(filt_) == 1 and da_ is not None and norm_text(comps_[0].elt) == v_ and da_ == gd.params[1]
        ctx.check('R18.10', ok, "a candidate is a depth coordinate all of whose dimensions the variable has (a coordinate on fewer dimensions still fits, one with a foreign dimension does not)",
                  gd, comps_[0], construct=f"filter: {filt_}")
        rets_ = gd.returns()
        ok_r = len(rets_) == 1
        if ok_r:
            fs_ = _f1810(ctx, gd, rets_[0], expand=True)
            rv = gflow.resolve(rets_[0].value)
            one = isinstance(rv, ast.Subscript) and const_value(rv.slice, None) == 0 and gflow.resolve(rv.value) is comps_[0]
            none_refused = any(pol is False and re.fullmatch(r"len\(.+\) == 0", t) for t, pol in fs_) or any(pol and re.fullmatch(r"len\(.+\) (> 0|>= 1|!= 0)", t) for t, pol in fs_)
            many_refused = any(pol is False and re.fullmatch(r"len\(.+\) (> 1|>= 2)", t) for t, pol in fs_) or any(pol and re.fullmatch(r"len\(.+\) (== 1|<= 1|< 2)", t) for t, pol in fs_)
            ok_r = one and none_refused and many_refused
        ctx.check('R18.10', ok_r, "the first candidate is returned only when it is the only one: no candidate and several candidates are refused", gd, rets_[0] if rets_ else gd.node,
                  construct=f"return {norm_text(rets_[0].value) if rets_ else '?'}")
        pl = ctx.func('emsarray.transect.plot')
        pc = [c for c in calls_in(pl) if isinstance(c.func, ast.Attribute) and c.func.attr == 'get_depth_coordinate_for_data_array']
        tc = [c for c in calls_in(pl) if (callee(ctx, pl, c) or '').endswith('transect.Transect')]
        ok_p = len(pc) == 1 and len(tc) == 1 and kwarg(tc[0], 'depth') is not None and ctx.flow(pl).resolve(kwarg(tc[0], 'depth')) is pc[0]
        ctx.check('R18.10', ok_p, "transect.plot builds the transect on the depth coordinate found for the plotted variable", pl, tc[0] if tc else pl.node,
                  construct=f"Transect(..., depth={norm_text(kwarg(tc[0], 'depth')) if tc and kwarg(tc[0], 'depth') is not None else 'not given'})")
    ctx.rule('R18.9', "the piece of the path a cell is intersected with is the one it was handed: the whole path is substituted only where none was given", floor=0)
    with ctx.section('R18.9'):
        from . import infra as _infra189
        _infra189.none_default_discipline(ctx, 'R18.9', ['emsarray.transect.Transect._intersect_polygon'])
    ctx.assume("NOT decided: segment geometry (inside the cell, lengths adding up) and metre distances: GEOS / cartopy at run time")

    seg = ctx.func(f"{TR}.segments")
    flow = ctx.flow(seg)
    m = Matcher(ctx, seg)
    qs = strtree_queries(ctx, seg)
    ctx.need('R18.1', len(qs) == 1, "Transect.segments queries the spatial index once", seg)
    q = qs[0]
    ctx.check('R18.1', predicate_of(q) == 'intersects', "predicate is the literal 'intersects'", seg, q, construct=f"predicate={predicate_of(q)!r}")
    ok = bool(q.args) and norm_text(q.args[0]) == 'self.line' and norm_text(q.func.value) == 'self.convention.strtree'
    ctx.check('R18.1', ok, "the geometry queried is the path itself, on the dataset's convention", seg, q)
    loops = [n for n in walk_no_nested(seg.node) if isinstance(n, ast.For)]
    def over_hits(it) -> tuple[bool, bool]:
        """(iterates the query result, in ascending order)"""
        it = flow.resolve(it)
        if it is q:
            return True, False
        if isinstance(it, ast.Call) and isinstance(it.func, ast.Name) and it.func.id == 'sorted' and len(it.args) == 1 and not it.keywords and flow.resolve(it.args[0]) is q:
            return True, True
        if isinstance(it, ast.Call) and callee(ctx, seg, it) == 'numpy.sort' and len(it.args) == 1 and not it.keywords and flow.resolve(it.args[0]) is q:
            return True, True
        return False, False
    outer = [l for l in loops if over_hits(l.iter)[0] and isinstance(l.target, ast.Name)]
    ctx.need('R18.1', len(outer) == 1, "the segments are built in one loop over the hits", seg)
    m.bind['li'] = outer[0].target.id
    ok = m.has('$polygon = self.convention.polygons[$li]', '$index = self.convention.wind_index($li)', within=outer[0])
    ctx.check('R18.1', ok, "polygon and native index are those of the hit's own linear index", seg, outer[0],
              construct='polygon = self.convention.polygons[linear_index]; index = self.convention.wind_index(linear_index)')
    # a stretch of the path along the edge shared by two cells intersects both: each cell is intersected with what the cells
    # before it have left of the path, so that no stretch is counted twice
    whole = m.stmt('for $piece in self._intersect_polygon($polygon):\n    ...', within=outer[0])
    pieces = m.stmt('$pieces = self._intersect_polygon($polygon, $rest)', within=outer[0])
    inner = whole
    once = False
    if whole is None and pieces is not None:
        inner = m.stmt('for $piece in $pieces:\n    ...', within=outer[0])
        init = m.stmt('$rest = self.line')
        cut = m.stmt('$rest = $rest.difference($polygon)', within=outer[0])
        once = (init is not None and cut is not None and init.lineno < outer[0].lineno and pieces.lineno < cut.lineno
                and any(cut is st_ for st_ in outer[0].body) and any(pieces is st_ for st_ in outer[0].body) and over_hits(outer[0].iter)[1])
    ctx.check('R18.1', inner is not None, "every line piece of this cell's intersection is visited", seg, inner or outer[0],
              construct='for intersection in <pieces of this cell>: ...')
    ctx.check('R18.1', once, "each cell is intersected with what is left of the path: the remainder starts as the whole path, every visited cell removes its own part after its pieces "
              "have been taken, unconditionally, and the hits are visited in ascending linear index (a shared edge goes to the lower index, as in point lookup)", seg,
              pieces or whole or outer[0], construct=f"pieces: {norm_text(pieces or whole) if (pieces or whole) is not None else '?'}; remainder carried and cut: {once}")
    ts = [c for c in calls_in(seg) if (dotted(c.func) or '').endswith('TransectSegment')]
    ctx.need('R18.1', len(ts) == 1, "one TransectSegment is built per piece", seg)
    kw = {k.arg: k.value for k in ts[0].keywords}

    def is_var(node, key):
        return node is not None and m.match(f"${key}", node, commit=False)

    ok = is_var(kw.get('index'), 'index') and is_var(kw.get('linear_index'), 'li') and is_var(kw.get('polygon'), 'polygon') and is_var(kw.get('intersection'), 'piece')
    ctx.check('R18.1', ok, "the segment carries that same linear index, native index, polygon and piece", seg, ts[0],
              construct=f"TransectSegment({ {k: norm_text(v) for k, v in kw.items() if k in ('index', 'linear_index', 'polygon', 'intersection')} })")
    sflow_ = ctx.flow(seg)
    app = [c for c in method_calls(seg, 'append') if c.args and (c.args[0] is ts[0] or sflow_.resolve(c.args[0]) is ts[0])]
    inner_depth = len(enclosing_ifs(seg, inner)) if inner is not None else 0
    ok = len(app) == 1 and len(enclosing_ifs(seg, app[0])) == inner_depth and inner is not None and any(x is app[0] for x in ast.walk(inner))
    ctx.check('R18.1', ok, "every piece is appended unconditionally", seg, app[0] if app else seg.node, construct='segments.append(TransectSegment(...))')
    ip = ctx.func(f"{TR}._intersect_polygon")
    mi = Matcher(ctx, ip)
    poly_p = ip.params[1]
    inter = mi.stmt(f"$x = {poly_p}.intersection(self.line)") or mi.stmt(f"$x = self.line.intersection({poly_p})")
    dflt = lp_ = None
    if inter is None and len(ip.params) > 2:
        # the part of the path to intersect is a parameter that stands for the whole path when it is not given
        lp_ = ip.params[2]
        from .common import param_default, is_none
        dflt = param_default(ip, lp_)
        fallback = mi.stmt(f"if {lp_} is None:\n    {lp_} = self.line") is not None or \
            mi.stmt(f"{lp_} = self.line if {lp_} is None else {lp_}") is not None
        if dflt is not None and is_none(dflt) and fallback:
            inter = mi.stmt(f"$x = {poly_p}.intersection({lp_})") or mi.stmt(f"$x = {lp_}.intersection({poly_p})")
        if inter is None and dflt is not None and is_none(dflt):
            inter = mi.stmt(f"$x = {poly_p}.intersection(self.line if {lp_} is None else {lp_})") or mi.stmt(f"$x = (self.line if {lp_} is None else {lp_}).intersection({poly_p})")
    # (if/else statements assigning one name are normalised to a conditional expression)
    split = [n for n in walk_no_nested(ip.node) if isinstance(n, ast.Assign) and isinstance(n.value, ast.IfExp)
             and isinstance(n.value.test, ast.Call) and dotted(n.value.test.func) == 'isinstance']
    tests = split
    ok = False
    if len(split) == 1 and inter is not None:
        t = split[0].value.test
        types = set()
        if len(t.args) == 2 and mi.match('$x', t.args[0], commit=False):
            tt = ctx.flow(ip).resolve(t.args[1])
            types = {norm_text(e).rsplit('.', 1)[-1] for e in (tt.elts if isinstance(tt, ast.Tuple) else [tt])}
        ok = {'GeometryCollection', 'MultiLineString'} <= types and mi.match('$geoms = $x.geoms if $$t else [$x]', split[0])
    ctx.check('R18.1', ok, "multi-part results (GeometryCollection and MultiLineString) are split into their parts; a single geometry is taken as is", ip,
              tests[0] if tests else ip.node, construct=f"multi-part split: {norm_text(tests[0]) if tests else 'absent'}")
    ok = inter is not None and bool(ip.returns()) and all(
        mi.match('[$g for $g in $geoms if isinstance($g, shapely.LineString)]', ctx.flow(ip).resolve(r.value), commit=False)
        or mi.match('[$g for $g in $geoms if isinstance($g, shapely.LineString) and not $g.is_empty]', ctx.flow(ip).resolve(r.value), commit=False) for r in ip.returns())
    ctx.check('R18.1', bool(ok), "the pieces are the (non-empty) LineString parts of polygon ∩ path", ip, ip.node,
              construct='return [g for g in geoms if isinstance(g, shapely.LineString) [and not g.is_empty]]')
    nonempty = bool(ip.returns()) and all(mi.match('[$g for $g in $geoms if isinstance($g, shapely.LineString) and not $g.is_empty]', ctx.flow(ip).resolve(r.value), commit=False)
                                          for r in ip.returns())
    ctx.check('R18.1', nonempty or whole is not None, "when cells are intersected with a remainder of the path, empty results (LINESTRING EMPTY has no end points) are left out", ip, ip.node,
              construct=f"empty pieces filtered: {nonempty}")

    # ---- R18.2
    with ctx.section('R18.2'):
        pts = m.stmt('$points = [shapely.Point($piece.coords[0]), shapely.Point($piece.coords[-1])]')
        proj = m.stmt('$proj = (($pt, self.distance_along_line($pt)) for $pt in $points)') or m.stmt('$proj = [($pt, self.distance_along_line($pt)) for $pt in $points]')
        srt = m.stmt('$start, $end = sorted($proj, key=lambda $pair: $pair[1])') if proj is not None else None
        if proj is None:
            # (a generator used once is written where it is used)
            srt = m.stmt('$start, $end = sorted((($pt, self.distance_along_line($pt)) for $pt in $points), key=lambda $pair: $pair[1])') \
                or m.stmt('$start, $end = sorted([($pt, self.distance_along_line($pt)) for $pt in $points], key=lambda $pair: $pair[1])')
            proj = srt
        swapped = None
        if pts is None or proj is None:
            # the same two ends without the little sort: both distances computed, and points and distances exchanged together when they are out of order
            ms = Matcher(ctx, seg)
            if ms.has('$sp = shapely.Point($piece.coords[0])', '$ep = shapely.Point($piece.coords[-1])', '$sd = self.distance_along_line($sp)', '$ed = self.distance_along_line($ep)'):
                sp, ep, sd, ed = (ms.name(k) for k in ('sp', 'ep', 'sd', 'ed'))
                for alt in (f"if {ed} < {sd}:\n    {sp}, {ep} = ({ep}, {sp})\n    {sd}, {ed} = ({ed}, {sd})", f"if {sd} > {ed}:\n    {sp}, {ep} = ({ep}, {sp})\n    {sd}, {ed} = ({ed}, {sd})",
                            f"if {ed} < {sd}:\n    {sd}, {ed} = ({ed}, {sd})\n    {sp}, {ep} = ({ep}, {sp})", f"if {sd} > {ed}:\n    {sd}, {ed} = ({ed}, {sd})\n    {sp}, {ep} = ({ep}, {sp})"):
                    swapped = swapped or ms.stmt(alt)
                others = [n for n in ast.walk(seg.node) if isinstance(n, ast.Name) and isinstance(n.ctx, ast.Store) and n.id in (sp, ep, sd, ed)]
                if swapped is not None and len(others) == 8:     # each of the four names: made once, exchanged once
                    pts = proj = srt = swapped
                else:
                    swapped = None
        ctx.check('R18.2', pts is not None and proj is not None, "the end points are the first and last coordinate of the piece, each with its distance along the path", seg,
                  pts or seg.node, construct='points = [Point(piece.coords[0]), Point(piece.coords[-1])]; projections = ((p, distance_along_line(p)) for p in points)')
        ctx.check('R18.2', srt is not None, "start and end are the two end points sorted ascending by distance", seg, srt or seg.node,
                  construct='start, end = sorted(projections, key=lambda pair: pair[1])')
        ok = all(k in kw for k in ('start_point', 'end_point', 'start_distance', 'end_distance')) and \
            m.match('$start[0]', kw['start_point'], commit=False) and m.match('$end[0]', kw['end_point'], commit=False) and \
            m.match('$start[1]', kw['start_distance'], commit=False) and m.match('$end[1]', kw['end_distance'], commit=False)
        if swapped is not None:
            ok = all(k in kw for k in ('start_point', 'end_point', 'start_distance', 'end_distance')) and \
                [norm_text(kw[k]) for k in ('start_point', 'end_point', 'start_distance', 'end_distance')] == [sp, ep, sd, ed] and swapped.lineno < ts[0].lineno
        ctx.check('R18.2', bool(ok), "start_* fields take the nearer end, end_* the farther", seg, ts[0])
        rets = seg.returns()
        seglist = norm_text(app[0].func.value) if app else 'segments'
        ok = bool(rets) and all(Matcher(ctx, seg).match(f"sorted({seglist}, key=lambda $i: ($i.start_distance, $i.end_distance))", r.value) for r in rets)
        ctx.check('R18.2', ok, "segments are returned sorted by (start distance, end distance)", seg, rets[0] if rets else seg.node)

    # ---- R18.3
    with ctx.section('R18.3'):
        td = ctx.func(f"{TR}.transect_dataset")
        mt = Matcher(ctx, td)
        li = mt.stmt('$lis = [$s.linear_index for $s in self.segments]')
        ctx.check('R18.3', li is not None, "linear indexes: one per segment, in segment order, unfiltered", td, li or td.node,
                  construct='linear_indexes = [segment.linear_index for segment in self.segments]')
        db = [c for c in calls_in(td) if callee(ctx, td, c) == 'numpy.fromiter']
        ok = (len(db) == 1 and Matcher(ctx, td).match('([$s.start_distance, $s.end_distance] for $s in self.segments)', db[0].args[0])
              and norm_text(kwarg(db[0], 'count') or ast.Constant(None)) == 'len(self.segments)')
        filled = None
        if not db:
            # the same table filled column by column: an (n segments, 2) array whose column 0 is every segment's start and column 1 every segment's end
            mf = Matcher(ctx, td)
            alloc = None
            for alt in ('$tab = numpy.empty((len(self.segments), 2), dtype=float)', '$tab = numpy.zeros((len(self.segments), 2), dtype=float)',
                        '$tab = numpy.empty((len(self.segments), 2))', '$tab = numpy.zeros((len(self.segments), 2))'):
                alloc = alloc or mf.stmt(alt)
            if alloc is not None:
                tab = mf.name('tab')
                stores = [n for n in walk_no_nested(td.node) if isinstance(n, (ast.Assign, ast.AugAssign)) and any(
                    isinstance(t, ast.Subscript) and isinstance(t.value, ast.Name) and t.value.id == tab for t in (n.targets if isinstance(n, ast.Assign) else [n.target]))]
                c0 = mf.stmt(f"{tab}[:, 0] = [$s.start_distance for $s in self.segments]")
                c1 = mf.stmt(f"{tab}[:, 1] = [$s.end_distance for $s in self.segments]")
                if c0 is not None and c1 is not None and len(stores) == 2:
                    filled = tab
                    ok = True
        ctx.check('R18.3', ok, "distance bounds: [start, end] per segment over the same list in the same order", td, db[0] if db else td.node)
        lin = mt.stmt("$lin = xarray.DataArray(data=$lis, dims=('index',))")
        dbv = None
        for n in walk_no_nested(td.node):
            if isinstance(n, ast.Assign) and isinstance(n.value, ast.Call) and db and kwarg(n.value, 'data') is db[0]:
                dbv = n
            if isinstance(n, ast.Assign) and isinstance(n.value, ast.Call) and filled is not None and isinstance(kwarg(n.value, 'data'), ast.Name) and kwarg(n.value, 'data').id == filled:
                dbv = n
        ok = lin is not None and dbv is not None and norm_text(kwarg(dbv.value, 'dims') or ast.Constant(None)) == "('index', 'bounds')"
        ctx.check('R18.3', ok, "both are on the transect's index dimension", td, lin or td.node)
        ds = [c for c in calls_in(td) if (callee(ctx, td, c) or '').endswith('xarray.Dataset')]
        ok = False
        if len(ds) == 1 and dbv is not None and lin is not None:
            dv, co = kwarg(ds[0], 'data_vars'), kwarg(ds[0], 'coords')
            if isinstance(dv, ast.Dict) and isinstance(co, ast.Dict):
                dvm = {const_value(k, None): norm_text(v) for k, v in zip(dv.keys, dv.values)}
                com = {const_value(k, None): norm_text(v) for k, v in zip(co.keys, co.values)}
                ok = dvm.get('distance_bounds') == norm_text(dbv.targets[0]) and com.get('linear_index') == mt.name('lin') \
                    and set(dvm) == {'depth_bounds', 'distance_bounds'} and set(com) == {'depth', 'linear_index'}
        ctx.check('R18.3', ok, "the dataset publishes exactly those variables under their names", td, ds[0] if ds else td.node)

    # ---- R18.4
    with ctx.section('R18.4'):
        pa = ctx.func(f"{TR}.prepare_data_array_for_transect")
        da = pa.params[1]
        pflow = ctx.flow(pa)
        from .common import on_cells_only, spell_out

        def spelled(e) -> str:
            return norm_text(spell_out(pa, pflow.resolve(e)))
        # read backwards from what is returned: isel(move_dimensions_to_end(ravel(data_array), [depth, index]), {index: linear indexes}),
        # whatever the intermediate results are called
        rets = pa.returns()
        sel = pflow.resolve(rets[0].value) if len(rets) == 1 else None
        ok_sel = isinstance(sel, ast.Call) and isinstance(sel.func, ast.Attribute) and sel.func.attr == 'isel' and len(sel.args) == 1 and not sel.keywords
        indexers = pflow.resolve(sel.args[0]) if ok_sel else None
        ok_sel = ok_sel and isinstance(indexers, ast.Dict) and len(indexers.keys) == 1 and indexers.keys[0] is not None
        moved = pflow.resolve(sel.func.value) if ok_sel else None
        ok_move = isinstance(moved, ast.Call) and callee(ctx, pa, moved) == 'emsarray.utils.move_dimensions_to_end' and len(moved.args) == 2 and not moved.keywords
        order = pflow.resolve(moved.args[1]) if ok_move else None
        ok_move = ok_move and isinstance(order, (ast.List, ast.Tuple)) and len(order.elts) == 2
        rav = pflow.resolve(moved.args[0]) if ok_move else None
        ok_rav = isinstance(rav, ast.Call) and isinstance(rav.func, ast.Attribute) and rav.func.attr == 'ravel' and spelled(rav.func.value) == 'self.convention' \
            and len(rav.args) == 1 and not rav.keywords and pflow.canon(rav.args[0]) == ('param', da)
        ctx.check('R18.4', bool(ok_rav), "the variable is flattened by the convention (linear index order on the last dimension)", pa, rav if ok_rav else pa.node,
                  construct=f"{da} = self.convention.ravel({da})")
        ok_depth = bool(ok_move) and spelled(order.elts[0]) == "self.transect_dataset.coords['depth'].dims[0]"
        ctx.check('R18.4', ok_depth, "the depth dimension is the transect's depth coordinate's", pa, order.elts[0] if ok_move else pa.node,
                  construct="depth_dim = self.transect_dataset.coords['depth'].dims[0]")

        def last_of_flattened(e) -> bool:
            v = pflow.resolve(e)
            return (isinstance(v, ast.Subscript) and const_value(v.slice, None) == -1 and isinstance(v.value, ast.Attribute) and v.value.attr == 'dims'
                    and pflow.resolve(v.value.value) is rav)
        ok_index = bool(ok_move and ok_rav) and last_of_flattened(order.elts[1]) and last_of_flattened(indexers.keys[0])
        ctx.check('R18.4', ok_index, "the index dimension is the flattened (last) one", pa, order.elts[1] if ok_move else pa.node, construct=f"index_dim = {da}.dims[-1]")
        ctx.check('R18.4', bool(ok_move and ok_rav and ok_depth and ok_index), "depth then index are moved last, in that order", pa, moved if ok_move else pa.node,
                  construct=f"{da} = move_dimensions_to_end({da}, [depth_dim, index_dim])")
        ok_lis = bool(ok_sel) and spelled(indexers.values[0]) == "self.transect_dataset['linear_index'].values"
        ctx.check('R18.4', ok_lis, "the linear indexes are the transect's own", pa, indexers.values[0] if ok_sel else pa.node, construct="lis = self.transect_dataset['linear_index'].values")
        ctx.check('R18.4', bool(ok_sel and ok_move), "cells are picked positionally (isel) along the index dimension with those indexes, after the move", pa, sel if ok_sel else pa.node,
                  construct=f"{da} = {da}.isel({{index_dim: lis}})")
        if ok_rav:
            on_cells_only(ctx, pa, pflow, rav, 'R18.4', "the transect pairs values with the cells its segments name", conv='self.convention')
        mpc = ctx.func(f"{TR}.make_poly_collection")
        comps = [n for n in ast.walk(mpc.node) if isinstance(n, ast.ListComp) and len(n.generators) == 2]
        ok = False
        if len(comps) == 1:
            g0, g1 = comps[0].generators
            dvar, ivar = norm_text(g0.target), norm_text(g1.target)
            _mf = ctx.flow(mpc)
            it0, it1 = norm_text(_mf.resolve(g0.iter)), norm_text(_mf.resolve(g1.iter))      # (the ranges may be made once, before the comprehension)
            ok = "'depth'" in it0 and "'index'" not in it0 and "'index'" in it1 and "'depth'" not in it1
            elt = norm_text(comps[0].elt)
            ok = ok and f"[{ivar}, 0]" in elt and f"[{ivar}, 1]" in elt and f"[{dvar}][0]" in elt and f"[{dvar}][1]" in elt
        ctx.check('R18.4', ok, "patches are generated depth-major, segment-minor: patch k = (depth k // n, segment k % n), as values.flatten() of (depth, index)", mpc,
                  comps[0] if comps else mpc.node)
        for name in ('plot_on_figure', 'animate_on_figure'):
            fi = ctx.func(f"{TR}.{name}")
            sets = [c for c in calls_in(fi, nested=True) if isinstance(c.func, ast.Attribute) and c.func.attr == 'set_array']
            ok = len(sets) == 1 and norm_text(sets[0].args[0]).endswith('.values.flatten()')
            ctx.check('R18.4', ok, "the values handed to the collection are the prepared array flattened row-major", fi, sets[0] if sets else fi.node,
                      construct=f"{name}: {norm_text(sets[0]) if sets else 'set_array not found'}")

    # ---- R18.5
    with ctx.section('R18.5'):
        dl = ctx.func(f"{TR}.distance_along_line")
        md = Matcher(ctx, dl)
        pt_p = dl.params[1]
        ok = md.has(f"$dn = self.line.project({pt_p}, normalized=True)",
                    "$lp = next(($v for $v in reversed(self.points) if $v.distance_normalised <= $dn))")
        dist = md.stmt(f"$d = ORIGIN.distance($lp.crs.project_geometry({pt_p}, src_crs=$$crs))")
        rets = dl.returns()
        ok = ok and dist is not None and bool(rets) and all(md.match('$lp.distance_metres + $d', r.value, commit=False) or md.match('$d + $lp.distance_metres', r.value, commit=False) for r in rets)
        ctx.check('R18.5', ok, "distance = cumulative distance of the last path vertex at or before the point + distance from that vertex (in that vertex's projection)", dl, dl.node)
        guard = md.stmt('if $dn < 0 or $dn > 1:\n    raise ValueError($$msg)')
        ctx.check('R18.5', guard is not None, "a point off the path is refused", dl, guard or dl.node)
        pt = ctx.func(f"{TR}.points")
        mq = Matcher(ctx, pt)
        loop = mq.stmt('for $pt in map(shapely.Point, self.line.coords[1:]):\n    ...')
        ok = loop is not None and mq.has('$prev = $points[-1]', '$step = ORIGIN.distance($prev.crs.project_geometry($pt, src_crs=$$crs))', within=loop)
        tp = [c for c in calls_in(pt) if (dotted(c.func) or '').endswith('TransectPoint') and loop is not None and any(x is c for x in ast.walk(loop))]
        ok = ok and len(tp) == 1 and mq.match('$prev.distance_metres + $step', kwarg(tp[0], 'distance_metres'), commit=False) \
            and mq.match('self.line.project($pt, normalized=True)', kwarg(tp[0], 'distance_normalised'), commit=False) \
            and mq.match('$pt', kwarg(tp[0], 'point'), commit=False)
        ctx.check('R18.5', bool(ok), "path vertices accumulate distance from their predecessor, in path order", pt, loop or pt.node)
        first = [c for c in calls_in(pt) if (dotted(c.func) or '').endswith('TransectPoint') and (loop is None or not any(x is c for x in ast.walk(loop)))]
        ok = len(first) == 1 and const_value(kwarg(first[0], 'distance_metres'), None) == 0 and const_value(kwarg(first[0], 'distance_normalised'), None) == 0 \
            and mq.stmt('$p0 = shapely.Point(self.line.coords[0])') is not None
        ctx.check('R18.5', ok, "the first vertex is at distance 0", pt, first[0] if first else pt.node)
        # LineString.project gives the FIRST place of the line that is nearest to the point: sound for a simple open path only
        for f_ in (pt, dl):
            uses = [c for c in calls_in(f_) if isinstance(c.func, ast.Attribute) and c.func.attr == 'project' and norm_text(c.func.value) == 'self.line']
            ctx.check('R18.5', not uses, "where a point lies along the path is not decided by LineString.project alone: on a closed path the last vertex projects to 0, "
                      "on a path that crosses itself a piece ending at the crossing gets the distance of the first passage", f_, uses[0] if uses else f_.node,
                      construct=f"position along the path from self.line.project: {len(uses)} use(s)")



# --------------------------------------------------------------------------- checker self-test
from ..variants import V  # noqa: E402

_T = 'src/emsarray/transect.py'
VARIANTS = [
    V('C18', 'depth-coordinate-proper-subset-only', 'src/emsarray/conventions/_base.py', "            if set(coordinate.dims) <= set(data_array.dims)", "            if set(coordinate.dims) < set(data_array.dims)", 'R18.10'),
    V('C18', 'several-depth-coordinates-first-taken', 'src/emsarray/conventions/_base.py', "        if len(candidates) > 1:\n            raise ValueError(\n                f\"Multiple possible depth coordinates found for {name}: \"\n                \", \".join(repr(c.name) for c in candidates)\n            )\n", "", 'R18.10'),
    V('C18', 'transect-plot-ignores-found-depth', 'src/emsarray/transect.py', "Transect(dataset, line, depth=depth_coordinate)", "Transect(dataset, line)", 'R18.10'),
    V('C18', 'transect-of-any-grid-kind', _T, "        if grid_kind != self.convention.default_grid_kind:\n            raise ValueError(", "        if grid_kind is None:\n            raise ValueError(", 'R18.4'),
    V('C18', 'shared-edge-counted-per-cell', _T, "            intersections = self._intersect_polygon(polygon, remaining)\n", "            intersections = self._intersect_polygon(polygon)\n", 'R18.1'),
    V('C18', 'remainder-never-cut', _T, "            remaining = remaining.difference(polygon)\n", "", 'R18.1'),
    V('C18', 'remainder-cut-before-intersecting', _T, "            intersections = self._intersect_polygon(polygon, remaining)\n            remaining = remaining.difference(polygon)\n", "            remaining = remaining.difference(polygon)\n            intersections = self._intersect_polygon(polygon, remaining)\n", 'R18.1'),
    V('C18', 'hits-in-index-order-of-the-tree', _T, "        for linear_index in sorted(intersecting_indexes):", "        for linear_index in intersecting_indexes:", 'R18.1'),
    V('C18', 'empty-pieces-kept', _T, "            if isinstance(geom, shapely.LineString) and not geom.is_empty]", "            if isinstance(geom, shapely.LineString)]", 'R18.1'),
    V('C18', 'predicate-crosses', _T, "self.convention.strtree.query(self.line, predicate='intersects')", "self.convention.strtree.query(self.line, predicate='crosses')", 'R18.1'),
    V('C18', 'linear-index-from-enumerate', _T, "        for linear_index in sorted(intersecting_indexes):\n            polygon = self.convention.polygons[linear_index]", "        for linear_index, hit in enumerate(sorted(intersecting_indexes)):\n            polygon = self.convention.polygons[hit]", 'R18.1'),
    V('C18', 'multilinestring-dropped', _T, "isinstance(intersection, (shapely.GeometryCollection, shapely.MultiLineString))", "isinstance(intersection, shapely.GeometryCollection)", 'R18.1'),
    V('C18', 'start-end-unsorted', _T, "                start, end = sorted(projections, key=lambda pair: pair[1])", "                start, end = projections", 'R18.2'),
    V('C18', 'segments-unsorted', _T, "        return sorted(segments, key=lambda i: (i.start_distance, i.end_distance))", "        return segments", 'R18.2'),
    V('C18', 'bounds-filtered', _T, "                    for segment in self.segments\n                ),", "                    for segment in self.segments\n                    if segment.end_distance > segment.start_distance\n                ),", 'R18.3'),
    V('C18', 'moved-index-then-depth', _T, "move_dimensions_to_end(data_array, [depth_dimension, index_dimension])", "move_dimensions_to_end(data_array, [index_dimension, depth_dimension])", 'R18.4'),
    V('C18', 'patch-nesting-swapped', _T, "            for depth_index in range(transect_dataset.coords['depth'].size)\n            for index in range(transect_dataset.sizes['index'])", "            for index in range(transect_dataset.sizes['index'])\n            for depth_index in range(transect_dataset.coords['depth'].size)", 'R18.4'),
    V('C18', 'vertex-choice-first', _T, "            lp for lp in reversed(self.points)\n            if lp.distance_normalised <= distance_normalised)", "            lp for lp in self.points\n            if lp.distance_normalised <= distance_normalised)", 'R18.5'),
    V('C18', 'polygon-of-other-hit', _T, "            polygon = self.convention.polygons[linear_index]\n            index = self.convention.wind_index(linear_index)", "            polygon = self.convention.polygons[linear_index]\n            index = self.convention.wind_index(int(intersecting_indexes[0]))", 'R18.1'),
    # benign
    V('C18', 'benign-rename-locals', _T, "        for linear_index in sorted(intersecting_indexes):\n            polygon = self.convention.polygons[linear_index]\n            index = self.convention.wind_index(linear_index)\n",
      "        for hit in sorted(intersecting_indexes):\n            linear_index = hit\n            polygon = self.convention.polygons[hit]\n            index = self.convention.wind_index(hit)\n", None),
]
